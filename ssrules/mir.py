"""MIR fact model: functions, CFG utilities (dominators, reachability, SCCs), and a small
symbolic layer that resolves MIR temporaries back to *field paths* (`self.report.events`),
constants and call results, so that rules can speak about named fields and resolved callees
instead of locals, indices or source text.  DESIGN.md §2.2."""
import re
import sys
from collections import defaultdict

sys.setrecursionlimit(10000)


class MissingAnchor(Exception):
    """A named anchor (function / field / type) a rule must inspect is absent: fail closed."""


def norm(path):
    """Strip generic-argument lists and lifetimes from a def path, keep `<T as Trait>` groups."""
    out = []
    i = 0
    n = len(path)
    while i < n:
        c = path[i]
        if c == "<":
            prev = path[i - 1] if i > 0 else ""
            if prev.isalnum() or prev == "_" or prev == ":" or prev == "]":
                # generic args: skip to matching '>'
                depth = 0
                j = i
                while j < n:
                    if path[j] == "<":
                        depth += 1
                    elif path[j] == ">" and (j == 0 or path[j - 1] != "-"):
                        depth -= 1
                        if depth == 0:
                            break
                    j += 1
                # drop a '::' that introduced a turbofish
                if len(out) >= 2 and out[-1] == ":" and out[-2] == ":":
                    out.pop()
                    out.pop()
                i = j + 1
                continue
        out.append(c)
        i += 1
    s = "".join(out)
    s = re.sub(r"&'[a-z_0-9]+ ", "&", s)
    return s


def short(path):
    """Last path segment(s) useful for printing."""
    return norm(path)


# ---------------------------------------------------------------------------------------------
# symbolic values


def S_const(v, ty):
    return ("const", v, ty)


class Fn:
    def __init__(self, d, facts=None):
        self.d = d
        self.facts = facts
        self.path = d["path"]
        self.npath = norm(d["path"])
        self.name = d.get("name") or self.npath.rsplit("::", 1)[-1]
        self.kind = d["kind"]
        self.file = d.get("file", "")
        self.lo = d.get("lo", 0)
        self.hi = d.get("hi", 0)
        self.blocks = d["blocks"]
        self.nargs = d["nargs"]
        self.locals = d["locals"]
        self.root = d.get("root")
        self._succ = None
        self._pred = None
        self._dom = None
        self._defs = None
        self._sym_cache = {}
        self._sym_cache_deep = {}
        self._deep = False
        self._trunc = 0
        self._upvar_names = None

    def __repr__(self):
        return "Fn(%s)" % self.npath

    # ---- CFG ---------------------------------------------------------------------------------
    def term(self, b):
        return self.blocks[b]["term"]

    def targets(self, b, unwind=False):
        t = self.blocks[b]["term"]
        k = t["k"]
        res = []
        if k == "goto":
            res = [t["t"]]
        elif k == "switch":
            res = list(t["tgts"])
            # a switch on a literal constant takes one edge (`if false && …`): fold it
            c = t["o"].get("c") if isinstance(t.get("o"), dict) else None
            if c is None:
                # `_5 = const false; switch move _5`
                pl = t["o"].get("mv") or t["o"].get("cp")
                if pl is not None and not pl["pr"] and pl["l"] > self.nargs:
                    ds = self.defs.get(pl["l"], [])
                    if len(ds) == 1 and ds[0][2] == "assign" and ds[0][3]["k"] == "use" and "c" in ds[0][3]["o"]:
                        c = ds[0][3]["o"]["c"]
            if c is not None and "v" in c and isinstance(c["v"], (bool, int)):
                v = int(c["v"])
                res = [t["tgts"][t["vals"].index(v)]] if v in t["vals"] else [t["tgts"][-1]]
        elif k in ("call", "assert", "drop"):
            if t.get("t") is not None:
                res = [t["t"]]
            if unwind and isinstance(t.get("uw"), int):
                res.append(t["uw"])
        return res

    @property
    def succ(self):
        if self._succ is None:
            self._succ = [self.targets(b) for b in range(len(self.blocks))]
        return self._succ

    @property
    def pred(self):
        if self._pred is None:
            p = [[] for _ in self.blocks]
            for b, ss in enumerate(self.succ):
                for s_ in ss:
                    p[s_].append(b)
            self._pred = p
        return self._pred

    def reachable(self, starts, avoid=(), unwind=False):
        """Blocks reachable from `starts` (inclusive) without entering any block in `avoid`."""
        avoid = set(avoid)
        seen = set()
        st = [b for b in starts if b not in avoid]
        while st:
            b = st.pop()
            if b in seen:
                continue
            seen.add(b)
            for s_ in (self.targets(b, unwind=True) if unwind else self.succ[b]):
                if s_ not in seen and s_ not in avoid:
                    st.append(s_)
        return seen

    def edge_dominates(self, b, tgt, x):
        """every path from the entry to block x takes the edge b->tgt."""
        if x not in self.live_blocks:
            return False
        seen = set()
        st = [0]
        while st:
            y = st.pop()
            if y in seen:
                continue
            seen.add(y)
            if y == x:
                return False
            for s_ in self.succ[y]:
                if y == b and s_ == tgt:
                    # an edge b->tgt that is duplicated (both arms to the same block) is not a decision
                    continue
                st.append(s_)
        return self.succ[b].count(tgt) == 1

    def reachable_edges(self, start_edges, avoid=(), avoid_edges=()):
        """Blocks reachable when starting by taking the given (from,to) edges."""
        return self.reachable([t for (_f, t) in start_edges], avoid=avoid)

    @property
    def live_blocks(self):
        return self.reachable([0])

    @property
    def dom(self):
        """dom[b] = set of blocks dominating b (normal flow from block 0)."""
        if self._dom is None:
            live = sorted(self.live_blocks)
            allb = set(live)
            dom = {b: set(allb) for b in live}
            dom[0] = {0}
            changed = True
            # reverse postorder
            order = self._rpo()
            while changed:
                changed = False
                for b in order:
                    if b == 0:
                        continue
                    ps = [p for p in self.pred[b] if p in dom]
                    if not ps:
                        continue
                    new = set.intersection(*(dom[p] for p in ps)) | {b}
                    if new != dom[b]:
                        dom[b] = new
                        changed = True
            self._dom = dom
        return self._dom

    def _rpo(self):
        seen = set()
        order = []
        st = [(0, iter(self.succ[0]))]
        seen.add(0)
        while st:
            b, it = st[-1]
            adv = False
            for s_ in it:
                if s_ not in seen:
                    seen.add(s_)
                    st.append((s_, iter(self.succ[s_])))
                    adv = True
                    break
            if not adv:
                order.append(b)
                st.pop()
        order.reverse()
        return order

    def dominates(self, a, b):
        return b in self.dom and a in self.dom[b]

    def return_blocks(self):
        return [b for b in self.live_blocks if self.blocks[b]["term"]["k"] == "return"]

    def sccs(self, blocks=None):
        """Tarjan SCCs over normal-flow edges restricted to `blocks`; returns list of sets with
        a cycle (size>1 or self-loop)."""
        blocks = set(self.live_blocks if blocks is None else blocks)
        index = {}
        low = {}
        onst = set()
        st = []
        res = []
        counter = [0]

        def strong(v):
            work = [(v, iter([s_ for s_ in self.succ[v] if s_ in blocks]))]
            index[v] = low[v] = counter[0]
            counter[0] += 1
            st.append(v)
            onst.add(v)
            while work:
                node, it = work[-1]
                adv = False
                for w in it:
                    if w not in index:
                        index[w] = low[w] = counter[0]
                        counter[0] += 1
                        st.append(w)
                        onst.add(w)
                        work.append((w, iter([s_ for s_ in self.succ[w] if s_ in blocks])))
                        adv = True
                        break
                    elif w in onst:
                        low[node] = min(low[node], index[w])
                if adv:
                    continue
                work.pop()
                if work:
                    par = work[-1][0]
                    low[par] = min(low[par], low[node])
                if low[node] == index[node]:
                    comp = set()
                    while True:
                        w = st.pop()
                        onst.discard(w)
                        comp.add(w)
                        if w == node:
                            break
                    if len(comp) > 1 or any(node in self.succ[node] for node in comp if True and node in self.succ[node]):
                        res.append(comp)

        for v in sorted(blocks):
            if v not in index:
                strong(v)
        return res

    # ---- statements / defs ---------------------------------------------------------------------
    def stmts(self):
        for b in sorted(self.live_blocks):
            for i, s_ in enumerate(self.blocks[b]["stmts"]):
                yield b, i, s_

    def calls(self, live_only=True):
        rng = sorted(self.live_blocks) if live_only else range(len(self.blocks))
        for b in rng:
            t = self.blocks[b]["term"]
            if t["k"] == "call":
                yield b, t

    @property
    def defs(self):
        """local -> list of (block, idx|'T', kind, payload) for whole-local definitions."""
        if self._defs is None:
            d = defaultdict(list)
            for b in range(len(self.blocks)):
                blk = self.blocks[b]
                for i, s_ in enumerate(blk["stmts"]):
                    if s_["k"] == "assign":
                        p = s_["p"]
                        if not p["pr"]:
                            d[p["l"]].append((b, i, "assign", s_["rv"]))
                        else:
                            d[p["l"]].append((b, i, "partial", s_))
                    elif s_["k"] == "setdiscr":
                        d[s_["p"]["l"]].append((b, i, "partial", s_))
                t = blk["term"]
                if t["k"] == "call":
                    p = t["dest"]
                    if not p["pr"]:
                        d[p["l"]].append((b, "T", "call", t))
                    else:
                        d[p["l"]].append((b, "T", "partial", t))
            self._defs = d
        return self._defs

    def local_name(self, l):
        if l < len(self.locals):
            return self.locals[l].get("name")
        return None

    def local_ty(self, l):
        return self.locals[l]["ty"]

    def upvar_name(self, idx):
        if self._upvar_names is None:
            m = {}
            for dp in self.d.get("dbg_places", []):
                p = dp["p"]
                if p["l"] == 1:
                    for e in p["pr"]:
                        if isinstance(e, dict) and "i" in e and str(e.get("of", "")).startswith("closure:"):
                            m[e["i"]] = dp["name"]
                            break
            self._upvar_names = m
        return self._upvar_names.get(idx)

    def promoted_fn(self, idx):
        ps = self.d.get("promoted") or []
        if idx >= len(ps):
            return None
        if not hasattr(self, "_promoted"):
            self._promoted = {}
        if idx not in self._promoted:
            d = dict(ps[idx])
            d.setdefault("path", "%s::promoted[%d]" % (self.path, idx))
            d.setdefault("kind", "promoted")
            self._promoted[idx] = Fn(d, self.facts)
        return self._promoted[idx]

    # ---- symbolic resolution -----------------------------------------------------------------
    def deep(self):
        """Context manager: resolve *through* user-named variables as well (default: a named
        variable is a root, so that paths read `src`, `count`, `options.budget`)."""
        fn = self

        class _D:
            def __enter__(self_):
                self_.old = (fn._deep, fn._sym_cache)
                fn._deep = True
                fn._sym_cache = fn._sym_cache_deep
                return fn

            def __exit__(self_, *a):
                fn._sym_cache_deep = fn._sym_cache
                fn._deep, fn._sym_cache = self_.old
                return False

        return _D()

    def sym_operand_deep(self, o):
        with self.deep():
            return self.sym_operand(o)

    def sym_local(self, l, depth=0):
        if l in self._sym_cache:
            return self._sym_cache[l]
        if depth > 200:
            self._trunc += 1
            return ("local", l)
        if 1 <= l <= self.nargs:
            r = ("arg", l, self.local_name(l) or ("_%d" % l))
            self._sym_cache[l] = r
            return r
        if not self._deep and self.local_name(l):
            r = ("local", l, self.local_name(l))
            self._sym_cache[l] = r
            return r
        ds = [x for x in self.defs.get(l, []) if x[2] != "partial"]
        parts = [x for x in self.defs.get(l, []) if x[2] == "partial"]
        t0 = self._trunc
        if len(ds) == 1 and not parts:
            b, i, kind, payload = ds[0]
            self._sym_cache[l] = ("local", l)  # cycle guard
            if kind == "assign":
                r = self.sym_rvalue(payload, depth + 1)
            else:
                r = self.sym_call(payload, b, depth + 1)
            if self._trunc != t0:
                del self._sym_cache[l]  # depth-truncated: do not poison the cache
            else:
                self._sym_cache[l] = r
            return r
        if len(ds) > 1 and not parts:
            # all defs agree? (e.g. the same value moved in on two arms)
            self._sym_cache[l] = ("local", l)
            vals = []
            for b, i, kind, payload in ds:
                if kind == "assign":
                    vals.append(self.sym_rvalue(payload, depth + 1))
                else:
                    vals.append(self.sym_call(payload, b, depth + 1))
            if all(v == vals[0] for v in vals) and vals[0][0] != "call":
                r = vals[0]
            else:
                r = ("phi", l, tuple(vals))
            if self._trunc != t0:
                del self._sym_cache[l]
            else:
                self._sym_cache[l] = r
            return r
        r = ("local", l, self.local_name(l))
        self._sym_cache[l] = r
        return r

    def sym_call(self, t, b, depth=0):
        f = t["f"]
        if "path" in f:
            cal = norm(f.get("res") or f["path"])
        else:
            cal = "<indirect>"
        args = tuple(self.sym_operand(a, depth + 1) for a in t["args"])
        return ("call", cal, args, b)

    def sym_place(self, p, depth=0):
        base = self.sym_local(p["l"], depth + 1)
        for e in p["pr"]:
            if e == "*":
                if base[0] == "ref":
                    base = base[1]
                else:
                    base = ("deref", base)
            elif isinstance(e, dict):
                if "dc" in e:
                    base = ("downcast", base, e["dc"])
                elif "i" in e:
                    name = e.get("f")
                    of = str(e.get("of", ""))
                    if of.startswith("closure:"):
                        name = self.upvar_name(e["i"]) or ("upvar%d" % e["i"])
                        base = ("upvar", name, e["i"])
                        continue
                    if name is None:
                        name = str(e["i"])
                    base = ("field", base, name)
                elif "ix" in e:
                    base = ("index", base, self.sym_local(e["ix"], depth + 1))
                elif "ci" in e:
                    base = ("index", base, ("const", e["ci"], "usize"))
                else:
                    base = ("proj?", base)
            else:
                base = ("proj?", base)
        return base

    def sym_operand(self, o, depth=0):
        if "cp" in o:
            return self.sym_place(o["cp"], depth)
        if "mv" in o:
            return self.sym_place(o["mv"], depth)
        if "c" in o:
            c = o["c"]
            if "fn" in c:
                return ("fnconst", norm(c["fn"]))
            if "closure" in c:
                return ("closure", c["closure"])
            if "v" in c:
                return ("const", c["v"], c["ty"])
            if "promoted" in c and depth < 150:
                pf = self.promoted_fn(c["promoted"])
                if pf is not None:
                    return pf.sym_local(0)
            if "named" in c:
                return ("namedconst", c["named"], c["ty"])
            return ("const?", c["ty"])
        return ("op?",)

    def sym_rvalue(self, rv, depth=0):
        k = rv["k"]
        if k == "use":
            return self.sym_operand(rv["o"], depth)
        if k == "ref":
            inner = self.sym_place(rv["p"], depth)
            if inner[0] == "deref":
                return inner[1]  # &*x == x (reborrow)
            return ("ref", inner)
        if k == "bin":
            return ("bin", rv["op"], self.sym_operand(rv["a"], depth), self.sym_operand(rv["b"], depth))
        if k == "un":
            return ("un", rv["op"], self.sym_operand(rv["o"], depth))
        if k == "cast":
            return ("cast", self.sym_operand(rv["o"], depth), rv["ty"], rv["ck"], rv.get("from"))
        if k == "discr":
            return ("discr", self.sym_place(rv["p"], depth))
        if k == "aggr":
            ops = tuple(self.sym_operand(x, depth) for x in rv["ops"])
            if rv["ak"] == "adt":
                return ("aggr", norm(rv["adt"]), rv["variant"], tuple(rv.get("fields", [])), ops)
            if rv["ak"] == "closure":
                return ("mkclosure", rv["closure"], ops)
            return ("aggr", rv["ak"], None, (), ops)
        if k == "tlref":
            return ("tlref", rv["def"])
        return ("rv?", k)


def strip_refs(sym):
    while sym and sym[0] in ("ref", "deref"):
        sym = sym[1]
    return sym


def fieldpath(sym):
    """Render a symbolic place as `root.f1.f2` (derefs / refs transparent); None if not a path."""
    parts = []
    cur = sym
    while True:
        if cur is None:
            return None
        k = cur[0]
        if k in ("ref", "deref"):
            cur = cur[1]
        elif k == "field":
            parts.append(cur[2])
            cur = cur[1]
        elif k == "downcast":
            parts.append("@" + str(cur[2]))
            cur = cur[1]
        elif k == "index":
            parts.append("[]")
            cur = cur[1]
        elif k == "arg":
            parts.append(cur[2])
            break
        elif k == "upvar":
            parts.append(cur[1])
            break
        elif k == "local":
            nm = cur[2] if len(cur) > 2 and cur[2] else "_%d" % cur[1]
            parts.append(nm)
            break
        elif k == "cast":
            cur = cur[1]
        else:
            return None
    parts.reverse()
    return ".".join(parts)


def sym_calls(sym, acc=None):
    """All call nodes inside a symbolic expression."""
    if acc is None:
        acc = []
    if isinstance(sym, tuple):
        if sym and sym[0] == "call":
            acc.append(sym)
        for x in sym:
            if isinstance(x, tuple):
                sym_calls(x, acc)
    return acc


def sym_contains(sym, pred):
    if isinstance(sym, tuple):
        if sym and isinstance(sym[0], str) and pred(sym):
            return True
        return any(sym_contains(x, pred) for x in sym if isinstance(x, tuple))
    return False


def sym_consts(sym, acc=None):
    if acc is None:
        acc = []
    if isinstance(sym, tuple):
        if sym and sym[0] == "const":
            acc.append(sym[1])
        for x in sym:
            if isinstance(x, tuple):
                sym_consts(x, acc)
    return acc


class Facts:
    def __init__(self, data):
        self.data = data
        self.config = data.get("config")
        self.fns = {}
        self.by_norm = defaultdict(list)
        self.by_name = defaultdict(list)
        for d in data["fns"]:
            f = Fn(d, self)
            self.fns[f.path] = f
            self.by_norm[f.npath].append(f)
            self.by_name[f.name].append(f)
        self.foreign = {}
        for d in data.get("foreign", []):
            f = Fn(d, self)
            self.foreign[norm(f.path)] = f
        self.adts = {norm(a["path"]): a for a in data["adts"]}
        self.foreign_adts = {norm(a["path"]): a for a in data.get("foreign_adts", [])}
        self.impls = data["impls"]
        self.statics = data["statics"]
        self.consts = {c["path"]: c for c in data.get("consts", [])}
        self._closures = None
        self._callers = None

    def fn(self, npath):
        """Exactly one function with this normalised path, else fail closed."""
        c = self.by_norm.get(npath, [])
        if len(c) == 1:
            return c[0]
        if not c:
            raise MissingAnchor("function not found: %s [config %s]" % (npath, self.config))
        raise MissingAnchor("ambiguous function: %s (%d)" % (npath, len(c)))

    def fn_opt(self, npath):
        c = self.by_norm.get(npath, [])
        return c[0] if len(c) == 1 else None

    def fns_matching(self, rx):
        r = re.compile(rx)
        return [f for f in self.fns.values() if r.search(f.npath)]

    def closures_of(self, f):
        """Closure bodies (transitively) owned by f."""
        if self._closures is None:
            m = defaultdict(list)
            for g in self.fns.values():
                if g.kind == "closure" and g.root:
                    m[g.root].append(g)
            self._closures = m
        root = f.root or f.path
        return [g for g in self._closures.get(root, []) if g.path.startswith(f.path + "::")]

    def family(self, f):
        """f plus its closures."""
        return [f] + self.closures_of(f)

    def adt(self, npath):
        a = self.adts.get(npath) or self.foreign_adts.get(npath)
        if a is None:
            raise MissingAnchor("type not found: %s" % npath)
        return a

    def callee(self, t):
        """normalised resolved callee path of a call terminator ('' for indirect)."""
        f = t["f"]
        if "path" not in f:
            return ""
        return norm(f.get("res") or f["path"])

    def callee_decl(self, t):
        f = t["f"]
        if "path" not in f:
            return ""
        return norm(f["path"])

    def local_callee(self, t):
        """Fn object if the call resolves to a crate-local body."""
        f = t["f"]
        if "path" not in f:
            return None
        p = f.get("res") or f["path"]
        g = self.fns.get(p)
        if g is not None:
            return g
        c = self.by_norm.get(norm(p), [])
        return c[0] if len(c) == 1 else None

    @property
    def callers(self):
        if self._callers is None:
            m = defaultdict(list)
            for f in self.fns.values():
                for b, t in f.calls():
                    c = self.callee(t)
                    if c:
                        m[c].append((f, b))
            self._callers = m
        return self._callers
