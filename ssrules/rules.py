"""Reusable rule-family machinery (DESIGN.md §3): rendering of symbolic values, compare
extraction, write sets, must-pass-through, field-write summaries."""
import re

from .mir import fieldpath, norm, sym_calls, strip_refs

STRICT_REJECT_FORMS = {
    # (op, counter_is_lhs) -> edge on which "count > limit" holds
    ("Gt", True): True,   # c > l        reject on true
    ("Lt", False): True,  # l < c        reject on true
    ("Le", True): False,  # c <= l       reject on false
    ("Ge", False): False,  # l >= c      reject on false
}


def last_seg(path):
    p = norm(path)
    if p.startswith("<") and ">::" in p:
        p = p.rsplit(">::", 1)[1]
    return p.rsplit("::", 1)[-1]


def render(sym, depth=0):
    """Canonical, local-free rendering of a symbolic value: field paths, consts, calls, ops."""
    if sym is None or depth > 12:
        return "?"
    k = sym[0]
    fp = fieldpath(sym)
    if fp is not None:
        return fp
    if k in ("ref", "deref"):
        return render(sym[1], depth + 1)
    if k == "const":
        return repr(sym[1])
    if k == "namedconst":
        return "const:" + str(sym[1])
    if k == "fnconst":
        return "fn:" + sym[1]
    if k == "call":
        return "%s(%s)" % (last_seg(sym[1]), ", ".join(render(a, depth + 1) for a in sym[2]))
    if k == "field":
        base = sym[1]
        if base and base[0] == "bin" and base[1].endswith("WithOverflow") and sym[2] == "0":
            return "%s(%s, %s)" % (base[1][: -len("WithOverflow")], render(base[2], depth + 1), render(base[3], depth + 1))
        return "%s.%s" % (render(base, depth + 1), sym[2])
    if k == "downcast":
        return "%s@%s" % (render(sym[1], depth + 1), sym[2])
    if k == "bin":
        return "%s(%s, %s)" % (sym[1], render(sym[2], depth + 1), render(sym[3], depth + 1))
    if k == "un":
        return "%s(%s)" % (sym[1], render(sym[2], depth + 1))
    if k == "cast":
        return "cast(%s as %s)" % (render(sym[1], depth + 1), sym[2])
    if k == "discr":
        return "discr(%s)" % render(sym[1], depth + 1)
    if k == "aggr":
        return "%s::%s{%s}" % (sym[1], sym[2], ", ".join(render(o, depth + 1) for o in sym[4]))
    if k == "index":
        return "%s[%s]" % (render(sym[1], depth + 1), render(sym[2], depth + 1))
    if k == "phi":
        return "phi(%s)" % "|".join(sorted(render(v, depth + 1) for v in sym[2]))
    if k == "upvar":
        return sym[1]
    if k == "local":
        return (sym[2] if len(sym) > 2 and sym[2] else "_%d" % sym[1])
    if k == "arg":
        return sym[2]
    return "?" + str(k)


def switch_edges(fn, b):
    """For a bool switch: (true_target, false_target); None when not a bool switch."""
    t = fn.blocks[b]["term"]
    if t["k"] != "switch" or t["ty"] != "bool":
        return None
    vals, tg = t["vals"], t["tgts"]
    if vals == [0]:
        return tg[1], tg[0]
    if vals == [1]:
        return tg[0], tg[1]
    if vals == [0, 1]:
        return tg[1], tg[0]
    return None


def compares(fn):
    """Every bool switch whose discriminant resolves to a binary comparison:
    yields dict(b, op, a, b_, ra, rb, t, f)."""
    for b in sorted(fn.live_blocks):
        t = fn.blocks[b]["term"]
        if t["k"] != "switch" or t["ty"] != "bool":
            continue
        e = switch_edges(fn, b)
        if e is None:
            continue
        tt, ff = e
        sym = fn.sym_operand(t["o"])
        only = _single_reaching_def(fn, t["o"], b)
        if only is not None:
            sym = only
        neg = False
        while sym[0] == "un" and sym[1] == "Not":
            sym = sym[2]
            neg = not neg
        if neg:
            tt, ff = ff, tt
        if sym[0] == "bin" and sym[1] in ("Gt", "Ge", "Lt", "Le", "Eq", "Ne"):
            yield dict(block=b, op=sym[1], lhs=sym[2], rhs=sym[3], rl=render(sym[2]), rr=render(sym[3]), t=tt, f=ff, ln=t.get("ln"))


def under_true_edge(fn, pred, x):
    """block x is reached only through the true edge of a bool switch whose (shallow) symbolic
    condition satisfies pred."""
    for b, sym, tt, ff in bool_switches(fn):
        if pred(sym) and fn.edge_dominates(b, tt, x):
            return True
    return False


def bool_switches(fn):
    """Every bool switch: (block, sym, true_target, false_target) with negations normalised."""
    for b in sorted(fn.live_blocks):
        t = fn.blocks[b]["term"]
        if t["k"] != "switch" or t["ty"] != "bool":
            continue
        e = switch_edges(fn, b)
        if e is None:
            continue
        tt, ff = e
        sym = fn.sym_operand(t["o"])
        only = _single_reaching_def(fn, t["o"], b)
        if only is not None:
            sym = only
        while sym[0] == "un" and sym[1] == "Not":
            sym = sym[2]
            tt, ff = ff, tt
        yield b, sym, tt, ff


def _single_reaching_def(fn, operand, b):
    """a switch on a bool local with several definitions (a named condition: `let c = x && y;`, constants on the failing
    arms) of which only one can still reach the switch (the constant arms were threaded to their targets by the
    normalisation) and dominates it: the value switched on is that definition's"""
    pl = operand.get("mv") or operand.get("cp")
    if pl is None or pl["pr"] or pl["l"] <= fn.nargs:
        return None
    # `_t = copy c; switchInt(move _t)`: look through the copy made in the switch's own block
    for s_ in reversed(fn.blocks[b]["stmts"]):
        if s_["k"] == "assign" and not s_["p"]["pr"] and s_["p"]["l"] == pl["l"] and s_["rv"]["k"] == "use":
            q = s_["rv"]["o"].get("mv") or s_["rv"]["o"].get("cp")
            if q is not None and not q["pr"] and q["l"] > fn.nargs:
                pl = q
    ds = [x for x in fn.defs.get(pl["l"], []) if x[2] != "partial"]
    if len(ds) < 2 or any(x[2] == "partial" for x in fn.defs.get(pl["l"], [])):
        return None
    # reaching definitions: a definition reaches the switch if some path from it gets there without passing another
    # definition of the same local (a loop around the whole thing does not make a killed constant reach again)
    defblocks = {x[0] for x in ds}
    reaching = []
    for x in ds:
        if x[0] == b:
            reaching.append(x)
            continue
        seen, st = set(), list(fn.succ[x[0]])
        hit = False
        while st:
            y = st.pop()
            if y in seen:
                continue
            seen.add(y)
            if y == b:
                hit = True
                break
            if y in defblocks:
                continue
            st.extend(fn.succ[y])
        if hit:
            reaching.append(x)
    if len(reaching) != 1 or not fn.dominates(reaching[0][0], b):
        return None
    blk, i, kind, payload = reaching[0]
    return fn.sym_rvalue(payload) if kind == "assign" else fn.sym_call(payload, blk)


def aggregates(fn, blocks=None):
    """(block, idx, adt, variant, field names, op syms) for every ADT aggregate."""
    for b, i, s_ in fn.stmts():
        if blocks is not None and b not in blocks:
            continue
        if s_["k"] == "assign" and s_["rv"]["k"] == "aggr" and s_["rv"]["ak"] == "adt":
            rv = s_["rv"]
            yield b, i, norm(rv["adt"]), rv["variant"], rv.get("fields", []), [fn.sym_operand(o) for o in rv["ops"]], s_


def must_pass(fn, start_blocks, through_blocks, to_blocks=None):
    """True iff every path from any start block to a return (or `to_blocks`) passes through one
    of `through_blocks`.  A start block that is itself a through block counts as passing."""
    through = set(through_blocks)
    starts = [s_ for s_ in start_blocks if s_ not in through]
    reach = fn.reachable(starts, avoid=through)
    goal = set(fn.return_blocks()) if to_blocks is None else set(to_blocks)
    return not (reach & goal)


def err_return_blocks(fn):
    """Blocks that assign `_0 = Result::Err{..}` (direct error construction)."""
    out = set()
    for b, i, s_ in fn.stmts():
        if s_["k"] == "assign" and s_["p"]["l"] == 0 and not s_["p"]["pr"]:
            rv = s_["rv"]
            if rv["k"] == "aggr" and rv.get("adt", "").endswith("Result") and rv.get("variant") == "Err":
                out.add(b)
    # `?`-propagation: _0 = from_residual(..)
    for b, t in fn.calls():
        if t["dest"]["l"] == 0 and not t["dest"]["pr"]:
            c = norm(t["f"].get("res") or t["f"].get("path", ""))
            if c.endswith("from_residual"):
                out.add(b)
    return out


def ok_return_blocks(fn):
    out = set()
    for b, i, s_ in fn.stmts():
        if s_["k"] == "assign" and s_["p"]["l"] == 0 and not s_["p"]["pr"]:
            rv = s_["rv"]
            if rv["k"] == "aggr" and rv.get("adt", "").endswith("Result") and rv.get("variant") == "Ok":
                out.add(b)
    return out


def writes_in(fn, fx, blocks=None, depth=0, _stack=None):
    """Field paths (rendered, rooted at an argument name) written in `fn` within `blocks`:
    direct assignments, call destinations, `&mut place` borrows (conservatively a write), and
    — for crate-local callees receiving `&mut root.path` or a reborrow of an argument — the
    callee's own write summary re-rooted at that path.  Returns {path: [where,...]}."""
    _stack = _stack or ()
    out = {}
    live = fn.live_blocks if blocks is None else set(blocks)

    def add(p, b, ln):
        if p is None:
            return
        out.setdefault(p, []).append("%s:%s" % (fn.npath, ln))

    for b in sorted(live):
        blk = fn.blocks[b]
        for s_ in blk["stmts"]:
            if s_["k"] == "assign":
                if s_["p"]["pr"]:
                    add(fieldpath(fn.sym_place(s_["p"])), b, s_.get("ln"))
            elif s_["k"] == "setdiscr":
                add(fieldpath(fn.sym_place(s_["p"])), b, s_.get("ln"))
        t = blk["term"]
        if t["k"] == "call":
            if t["dest"]["pr"]:
                add(fieldpath(fn.sym_place(t["dest"])), b, t.get("ln"))
            callee = fx.local_callee(t)
            for ai, a in enumerate(t["args"]):
                sym = fn.sym_operand(a)
                is_mut = False
                # find the defining ref to know mutability
                pl = a.get("mv") or a.get("cp")
                if pl is not None and not pl["pr"]:
                    ty = fn.local_ty(pl["l"])
                    is_mut = bool(re.match(r"^&('[A-Za-z_{}0-9]+ )?mut ", ty))
                if not is_mut:
                    continue
                fp = fieldpath(sym)
                if fp is None:
                    continue
                if callee is not None and callee.npath not in _stack and depth < 6 and ai < callee.nargs:
                    sub = writes_in(callee, fx, None, depth + 1, _stack + (fn.npath,))
                    pname = callee.local_name(ai + 1) or "_%d" % (ai + 1)
                    hit = False
                    for sp, wh in sub.items():
                        if sp == pname or sp.startswith(pname + "."):
                            out.setdefault(fp + sp[len(pname):], []).extend(wh)
                            hit = True
                    if not hit:
                        pass  # callee does not write through this parameter
                else:
                    add(fp, b, t.get("ln"))
    return out


RESET_CALLS = ("clear",)


def resets_in(fn, fx, blocks=None, depth=0, _stack=()):
    """Like writes_in, but only *clearing* writes: assignment of a constant / empty aggregate,
    a `clear()` on `&mut path`, or a crate-local callee that clears through the parameter."""
    out = {}
    live = fn.live_blocks if blocks is None else set(blocks)
    for b in sorted(live):
        blk = fn.blocks[b]
        for s_ in blk["stmts"]:
            if s_["k"] == "assign" and s_["p"]["pr"]:
                v = fn.sym_rvalue(s_["rv"])
                if v[0] == "const" or (v[0] == "aggr" and not v[4]):
                    fp = fieldpath(fn.sym_place(s_["p"]))
                    if fp:
                        out.setdefault(fp, []).append("%s:%s" % (fn.npath, s_.get("ln")))
        t = blk["term"]
        if t["k"] != "call":
            continue
        callee = fx.local_callee(t)
        cname = last_seg(fx.callee(t)) if "path" in t["f"] else ""
        for ai, a in enumerate(t["args"]):
            pl = a.get("mv") or a.get("cp")
            if pl is None or pl["pr"]:
                continue
            if not re.match(r"^&('[A-Za-z_{}0-9]+ )?mut ", fn.local_ty(pl["l"])):
                continue
            fp = fieldpath(fn.sym_operand(a))
            if fp is None:
                continue
            if callee is not None:
                if callee.npath in _stack or depth > 6 or ai >= callee.nargs:
                    continue
                sub = resets_in(callee, fx, None, depth + 1, _stack + (fn.npath,))
                pname = callee.local_name(ai + 1) or "_%d" % (ai + 1)
                for sp, wh in sub.items():
                    if sp == pname or sp.startswith(pname + "."):
                        out.setdefault(fp + sp[len(pname):], []).extend(wh)
            elif cname in RESET_CALLS and ai == 0:
                out.setdefault(fp, []).append("%s:%s" % (fn.npath, t.get("ln")))
    return out


# ---------------------------------------------------------------------------------------------
# DISCARD — error discipline


def _places_in_operand(o):
    if "cp" in o:
        yield o["cp"]
    elif "mv" in o:
        yield o["mv"]


def _places_in_rvalue(rv):
    k = rv["k"]
    if k in ("use", "un", "cast", "repeat"):
        yield from _places_in_operand(rv["o"])
    elif k in ("ref", "rawptr", "discr"):
        yield rv["p"]
    elif k == "bin":
        yield from _places_in_operand(rv["a"])
        yield from _places_in_operand(rv["b"])
    elif k == "aggr":
        for o in rv["ops"]:
            yield from _places_in_operand(o)


def local_uses(fn, l):
    """Reads of local `l` (any projection) in live blocks, excluding drops: [(block, what)]."""
    out = []
    for b in sorted(fn.live_blocks):
        blk = fn.blocks[b]
        for s_ in blk["stmts"]:
            if s_["k"] == "assign":
                for p in _places_in_rvalue(s_["rv"]):
                    if p["l"] == l:
                        out.append((b, "stmt"))
                # a projection write *through* l (e.g. (*l).x = ..) reads l
                if s_["p"]["l"] == l and s_["p"]["pr"]:
                    out.append((b, "projwrite"))
                for e in s_["p"]["pr"]:
                    if isinstance(e, dict) and e.get("ix") == l:
                        out.append((b, "index"))
        t = blk["term"]
        k = t["k"]
        if k == "call":
            for a in t["args"]:
                for p in _places_in_operand(a):
                    if p["l"] == l:
                        out.append((b, "callarg"))
            if "ptr" in t["f"]:
                for p in _places_in_operand(t["f"]["ptr"]):
                    if p["l"] == l:
                        out.append((b, "callee"))
        elif k == "switch":
            for p in _places_in_operand(t["o"]):
                if p["l"] == l:
                    out.append((b, "switch"))
        elif k == "assert":
            for p in _places_in_operand(t["cond"]):
                if p["l"] == l:
                    out.append((b, "assert"))
    return out


ERR_TYPES = ("de_error::Error", "ser_error::Error", "ser::Error", "std::fmt::Error", "std::io::Error",
             "budget::BudgetBreach", "saphyr_parser_bw::ScanError")


def result_err_type(ty):
    """`E` of `std::result::Result<T, E>` (top-level split), else None."""
    pre = "std::result::Result<"
    if not ty.startswith(pre) or not ty.endswith(">"):
        return None
    inner = ty[len(pre):-1]
    depth = 0
    last = -1
    for i, ch in enumerate(inner):
        if ch in "<([":
            depth += 1
        elif ch in ">)]" and not (ch == ">" and i > 0 and inner[i - 1] == "-"):
            depth -= 1
        elif ch == "," and depth == 0:
            last = i
    if last < 0:
        return None
    return inner[last + 1:].strip()


def discards(fn, fx):
    """Calls whose fallible result is never read: [(block, term, err_type, via)]."""
    out = []
    for b, t in fn.calls():
        d = t["dest"]
        if d["pr"] or t.get("t") is None:
            continue
        ty = fn.local_ty(d["l"])
        e = result_err_type(ty)
        if e is None or not any(x in e for x in ERR_TYPES):
            continue
        if d["l"] == 0:
            continue
        uses = local_uses(fn, d["l"])
        if not uses:
            out.append((b, t, e, "unused"))
            continue
        # `.ok()` / `.err()` whose own result is unused
        if len(uses) == 1 and uses[0][1] == "callarg":
            ub = uses[0][0]
            ut = fn.blocks[ub]["term"]
            c = fx.callee(ut)
            if c in ("std::result::Result::ok", "std::result::Result::err", "std::result::Result::is_ok", "std::result::Result::is_err") and not ut["dest"]["pr"]:
                if not local_uses(fn, ut["dest"]["l"]) and ut["dest"]["l"] != 0:
                    out.append((b, t, e, c.rsplit("::", 1)[-1]))
    return out


# ---------------------------------------------------------------------------------------------
# LIMIT — generic counter/limit/breach pairing


def limit_rule(ctx, fx, fns, table, breach_adt, config, is_limit=None, rule="LIMIT", counter_ok=None):
    """table: limit rendering -> dict(counter=<deep rendering or predicate>, variant=<breach variant>, floor=n).
    For every bool switch on a comparison one side of which renders to a table limit: the other
    side must be the paired counter, the form must reject exactly when counter > limit, and the
    reject edge must construct breach_adt::variant on every path.  Unknown limits (is_limit)
    are violations.  Returns {limit: [(fn, compare dict, reject edge)]}."""
    seen = {k: [] for k in table}
    for f in fns:
        ctx.saw(f)
        with f.deep():
            cmps = list(compares(f))
        for c in cmps:
            if c["rl"] in table:
                side = "l"
            elif c["rr"] in table:
                side = "r"
            elif is_limit and (is_limit(c["rl"]) or is_limit(c["rr"])):
                ctx.bad(rule, "%s:%s:%s:unknown-limit:%s~%s" % (ctx.prop, rule, f.npath, c["rl"], c["rr"]),
                        "comparison against a limit that is not in the reviewed table", config, ctx.where(f, ln=c["ln"]))
                continue
            else:
                continue
            limit = c["rl"] if side == "l" else c["rr"]
            counter = c["rr"] if side == "l" else c["rl"]
            row = table[limit]
            key = "%s:%s:%s:%s" % (ctx.prop, rule, f.npath, limit.rsplit(".", 1)[-1])
            where = ctx.where(f, ln=c["ln"])
            exp = row["counter"]
            okc = exp(counter) if callable(exp) else counter == exp
            if not okc:
                ctx.bad(rule, key + ":counter", "limit %s is compared with `%s`, expected %s" % (limit, counter, row.get("counter_desc", exp)), config, where)
                continue
            form = (c["op"], side == "r")
            if form not in STRICT_REJECT_FORMS:
                ctx.bad(rule, key + ":strict", "comparison `%s %s %s` does not reject exactly when count > limit (off-by-one or inverted)" % (c["rl"], c["op"], c["rr"]), config, where)
                continue
            reject = c["t"] if STRICT_REJECT_FORMS[form] else c["f"]
            agg_blocks = [b for b, i, adt, var, fields, ops, s_ in aggregates(f) if adt == breach_adt and var == row["variant"]]
            okb = bool(agg_blocks) and must_pass(f, [reject], agg_blocks)
            ctx.check(okb, rule, key + ":breach", "reject edge constructs %s::%s" % (breach_adt, row["variant"]),
                      "the reject edge of `%s > %s` does not (always) construct %s::%s" % (counter, limit, breach_adt, row["variant"]), config, where)
            ctx.ok(rule, key + ":strict", "`%s %s %s` rejects exactly when count > limit" % (c["rl"], c["op"], c["rr"]), config, where)
            seen[limit].append((f, c, reject))
    for limit, row in table.items():
        ctx.floor("%s.%s" % (rule, limit.rsplit(".", 1)[-1]), len(seen[limit]), row.get("floor", 1), config)
    return seen


# ---------------------------------------------------------------------------------------------
# TABLE helpers — constants compared / mentioned in a function


def _walk_consts(d, out):
    if isinstance(d, dict):
        if d.get("k") == "switch" and "vals" in d:
            for v in d["vals"]:
                if isinstance(v, int):
                    out.append((v, d.get("ty", "int")))
        c = d.get("c")
        if isinstance(c, dict) and "v" in c:
            out.append((c["v"], c["ty"]))
        for v in d.values():
            _walk_consts(v, out)
    elif isinstance(d, list):
        for v in d:
            _walk_consts(v, out)


def consts_of(fn, with_promoted=True):
    """All evaluated constants (value, type) appearing as operands in fn (and its promoteds)."""
    out = []
    _walk_consts(fn.blocks, out)
    if with_promoted:
        for p in fn.d.get("promoted", []) or []:
            _walk_consts(p.get("blocks", []), out)
    return out


def str_consts(fn):
    return {v for v, ty in consts_of(fn) if isinstance(v, str) and ("str" in ty)}


def char_consts(fn):
    """character constants: operands of type char and the values of `match ch {..}` switches."""
    out = set()
    for v, ty in consts_of(fn):
        if ty == "char":
            if isinstance(v, int) and not isinstance(v, bool):
                try:
                    out.add(chr(v))
                except (ValueError, OverflowError):
                    pass
            elif isinstance(v, str):
                out.add(v)
    return out


def int_consts(fn):
    return {v for v, ty in consts_of(fn) if isinstance(v, int) and not isinstance(v, bool) and ty != "char"}


def calls_to(fn, fx, pred):
    """(block, term) of calls whose normalised callee satisfies pred."""
    return [(b, t) for b, t in fn.calls() if pred(fx.callee(t))]


def str_compare_consts(fn, fx):
    """string literals that fn compares a value against (eq / eq_ignore_ascii_case / starts_with /
    strip_prefix / ends_with / match on str)."""
    out = {}
    for b, t in fn.calls():
        c = last_seg(fx.callee(t))
        if c in ("eq", "ne", "eq_ignore_ascii_case", "starts_with", "ends_with", "strip_prefix", "strip_suffix", "contains"):
            with fn.deep():
                for a in t["args"]:
                    s_ = fn.sym_operand(a)
                    while s_[0] in ("ref", "deref"):
                        s_ = s_[1]
                    if s_[0] == "const" and isinstance(s_[1], str):
                        out.setdefault(c, set()).add(s_[1])
    return out


def through_flag(fn, yes, no):
    """`matches!(x, P)` lowers to arms that only set a bool temp and join on a switch over it;
    follow that: returns the (yes, [no...]) edges *after* the flag switch when the shape matches."""
    blk = fn.blocks[yes]
    if len(blk["stmts"]) == 1 and blk["term"]["k"] == "goto":
        s_ = blk["stmts"][0]
        if s_["k"] == "assign" and not s_["p"]["pr"] and s_["rv"]["k"] == "use" and "c" in s_["rv"]["o"] and isinstance(s_["rv"]["o"]["c"].get("v"), bool):
            j = blk["term"]["t"]
            jt = fn.blocks[j]["term"]
            if jt["k"] == "switch" and not fn.blocks[j]["stmts"]:
                pl = jt["o"].get("mv") or jt["o"].get("cp")
                if pl and pl["l"] == s_["p"]["l"] and not pl["pr"]:
                    e = switch_edges(fn, j)
                    if e:
                        val = s_["rv"]["o"]["c"]["v"]
                        return (e[0], [e[1]]) if val else (e[1], [e[0]])
    return yes, no


# ---------------------------------------------------------------------------------------------
# BALANCE b1 — depth automata over Ev-kind switches


def ev_switches(fn, ty_prefix="de::Ev<"):
    """(block, term, place sym) of switches on the discriminant of an `Ev` value."""
    out = []
    for b in sorted(fn.live_blocks):
        blk = fn.blocks[b]
        t = blk["term"]
        if t["k"] != "switch":
            continue
        pl = t["o"].get("mv") or t["o"].get("cp")
        if pl is None:
            continue
        dst = None
        for s_ in blk["stmts"]:
            if s_["k"] == "assign" and s_["p"] == pl and s_["rv"]["k"] == "discr":
                dst = s_["rv"]["p"]
        if dst is None:
            continue
        ty = fn.local_ty(dst["l"])
        for e in dst["pr"]:
            if e == "*":
                ty = ty.lstrip("&")
                if ty.startswith("mut "):
                    ty = ty[4:]
            elif isinstance(e, dict) and "ty" in e:
                ty = e["ty"]
        ty = ty.lstrip("&")
        if ty.startswith("mut "):
            ty = ty[4:]
        if ty.startswith(ty_prefix):
            out.append((b, t))
    return out


def depth_effects(fn, counter_pred):
    """{block: effect} for assignments to a counter place satisfying counter_pred(rendered place):
    effect is '+1', '-1', '=N' or '?'."""
    out = {}
    for b, i, s_ in fn.stmts():
        if s_["k"] != "assign":
            continue
        r = render(fn.sym_place(s_["p"])) if s_["p"]["pr"] else (fn.local_name(s_["p"]["l"]) or "")
        if not r or not counter_pred(r):
            continue
        with fn.deep():
            v = render(fn.sym_rvalue(s_["rv"]))
        base = r
        if v in ("Add(%s, 1)" % base, "Add(1, %s)" % base) or (v.startswith("Add(") and v.endswith(", 1)")):
            eff = "+1"
        elif v == "Sub(%s, 1)" % base or (v.startswith("Sub(") and v.endswith(", 1)")):
            eff = "-1"
        elif v.lstrip("-").isdigit():
            eff = "=" + v
        else:
            eff = "?"
        out.setdefault(b, []).append(eff)
    return out


def arm_effects(fn, start, effects, stop_blocks):
    """set of effect sequences along paths from `start` until a stop block / return (bounded)."""
    res = set()
    seen = set()
    st = [(start, ())]
    while st:
        b, acc = st.pop()
        if (b, acc) in seen or len(acc) > 3:
            continue
        seen.add((b, acc))
        acc2 = acc + tuple(effects.get(b, ()))
        if b in stop_blocks and b != start or fn.blocks[b]["term"]["k"] == "return" or not fn.succ[b]:
            res.add(acc2 if b not in stop_blocks else acc)
            continue
        for s2 in fn.succ[b]:
            st.append((s2, acc2))
    return res



def lifted(fx, f, pred, depth=2, same_adt=None):
    """Blocks of `f` that *do* what `pred(fn, block, term)` describes — directly, or by calling a crate-local helper in which
    doing it is unavoidable (every path from the helper's entry to a return passes a block that does it, or an error return).
    This is what lets a rule stated over `f` survive the extraction of a piece of `f` into a helper."""
    out = []
    for b, t in f.calls():
        if pred(f, b, t):
            out.append(b)
            continue
        if depth <= 0:
            continue
        h = fx.local_callee(t)
        if h is None or h is f:
            continue
        if same_adt is not None and h.d.get("impl_adt") != same_adt:
            continue
        inner = lifted(fx, h, pred, depth - 1, same_adt)
        if inner and must_pass(h, [0], inner + list(err_return_blocks(h))):
            out.append(b)
    return out


def lifted_stmt_blocks(fx, f, stmt_pred, depth=2, same_adt=None):
    """like `lifted`, for a statement predicate `stmt_pred(fn, stmt)` (e.g. "assigns field X")"""
    direct = [b for b, i, s_ in f.stmts() if stmt_pred(f, s_)]
    out = list(dict.fromkeys(direct))
    if depth > 0:
        for b, t in f.calls():
            h = fx.local_callee(t)
            if h is None or h is f or (same_adt is not None and h.d.get("impl_adt") != same_adt):
                continue
            inner = lifted_stmt_blocks(fx, h, stmt_pred, depth - 1, same_adt)
            if inner and must_pass(h, [0], inner + list(err_return_blocks(h))):
                out.append(b)
    return out
