"""Normalisation of the fact base against the tree the rules were confirmed on.

The rules of `props/Cxx.py` are instances confirmed by reading one tree: they speak about `next_impl`, `observe`,
`next_key_seed` … and about the steps those functions take.  A behaviour-preserving refactoring that moves some of those
steps into a *new* private helper changes none of the properties, but a rule stated over the old function body no longer
finds the step.  Rather than teaching every rule to follow helpers, the fact base is normalised once: every call from a
function that existed on the confirmed tree (`tables/known_fns.json`) to a crate-local function that did **not** exist there
is inlined into the caller's MIR (locals and blocks renumbered, arguments assigned to the callee's parameters, `return`
replaced by an assignment of the result and a jump to the call's continuation), recursively, with a size bound.  On the
confirmed tree itself there is no unknown function and the normalisation is the identity.

The unknown helpers stay in the fact base as functions of their own (whole-crate rules such as the C01 census see them).
Closures are not inlined (their bodies stay functions of their own, as in rustc's MIR)."""
import json
import os

from .mir import norm

MAX_DEPTH = 4
MAX_BLOCKS = 6000
_KNOWN = None
_VARIANTS = {}


_HASHES = None


def known_hashes():
    global _HASHES
    if _HASHES is None:
        p = os.path.join(os.path.dirname(os.path.abspath(__file__)), "tables", "known_fns.json")
        with open(p) as fh:
            _HASHES = {k: set(v) for k, v in (json.load(fh).get("hashes") or {}).items()}
    return _HASHES


def known_fns():
    global _KNOWN
    if _KNOWN is None:
        p = os.path.join(os.path.dirname(os.path.abspath(__file__)), "tables", "known_fns.json")
        with open(p) as fh:
            _KNOWN = set(json.load(fh)["fns"])
    return _KNOWN


def _remap(x, L0, P0):
    if isinstance(x, dict):
        if "l" in x and "pr" in x and isinstance(x["l"], int):
            out = dict(x)
            out["l"] = x["l"] + L0
            out["pr"] = [({"ix": e["ix"] + L0} if isinstance(e, dict) and "ix" in e else e) for e in x["pr"]]
            return out
        out = {}
        for k, v in x.items():
            if k == "c" and isinstance(v, dict) and "promoted" in v:
                out[k] = dict(v, promoted=v["promoted"] + P0)
            else:
                out[k] = _remap(v, L0, P0)
        return out
    if isinstance(x, list):
        return [_remap(v, L0, P0) for v in x]
    return x


def _subst_local(x, a, b):
    """replace local `a` by local `b` in a (freshly copied) fragment, in place"""
    if isinstance(x, dict):
        if "l" in x and "pr" in x and x["l"] == a:
            x["l"] = b
        for v in x.values():
            _subst_local(v, a, b)
    elif isinstance(x, list):
        for v in x:
            _subst_local(v, a, b)


def _result_copy(dest, ret, ln):
    """`dest = move ret` — nothing when the callee's result was written into the destination local directly"""
    if not dest["pr"] and dest["l"] == ret:
        return []
    return [{"k": "assign", "p": dest, "rv": {"k": "use", "o": {"mv": {"l": ret, "pr": []}}}, "ln": ln}]


def _remap_term(t, L0, P0, B0, cont):
    k = t["k"]
    if k == "return":
        if cont is None:
            return {"k": "unreachable", "ln": t.get("ln")}
        return {"k": "goto", "t": cont, "ln": t.get("ln"), "inl_return": True}
    out = _remap(t, L0, P0)
    if isinstance(out.get("t"), int):
        out["t"] = out["t"] + B0
    if isinstance(out.get("uw"), int):
        out["uw"] = out["uw"] + B0
    if "tgts" in out:
        out["tgts"] = [x + B0 for x in out["tgts"]]
    return out


def _preds(d):
    preds = {}
    for i, blk in enumerate(d["blocks"]):
        t = blk["term"]
        outs = []
        if t["k"] == "goto":
            outs = [t["t"]]
        elif t["k"] == "switch":
            outs = list(t["tgts"])
        elif t.get("t") is not None:
            outs = [t["t"]]
        for o in outs:
            preds.setdefault(o, []).append(i)
    return preds


def _value_in_block(blk, ret_local):
    """the constant / enum variant the block assigns last to the callee's return place: ("const", v) / ("variant", name, adt),
    "unknown" if it assigns something else, None if it does not assign it"""
    for s_ in reversed(blk["stmts"]):
        if s_["k"] == "assign" and s_["p"]["l"] == ret_local:
            if s_["p"]["pr"]:
                return "unknown"
            rv = s_["rv"]
            if rv["k"] == "use" and "c" in rv["o"] and isinstance(rv["o"]["c"].get("v"), (bool, int)):
                return ("const", int(rv["o"]["c"]["v"]))
            if rv["k"] == "aggr" and rv.get("ak") == "adt" and rv.get("variant") is not None:
                return ("variant", rv["variant"], rv.get("adt"))
            return "unknown"
    return None


def _region(d, start, rb, ret_local, lo, hi):
    """the blocks between `start` and the return block `rb` of an inlined body, if that tail is pure: only gotos, switches
    and drops (drop elaboration of the values the callee consumed sits between `Ok(..)` / `Err(..)` and the return), no
    call, and no further assignment of the return place.  None if the tail is not of that kind."""
    seen, st = [], [start]
    while st:
        x = st.pop()
        if x == rb or x in seen:
            continue
        if not (lo <= x < hi):
            return None
        blk = d["blocks"][x]
        if _value_in_block(blk, ret_local) is not None or any(s_["k"] != "assign" for s_ in blk["stmts"]):
            return None
        t = blk["term"]
        if t["k"] == "goto":
            nxt = [t["t"]]
        elif t["k"] == "switch":
            nxt = list(t["tgts"])
        elif t["k"] == "drop":
            nxt = [t["t"]] if t.get("t") is not None else []
        elif t["k"] == "unreachable":
            nxt = []
        else:
            return None
        seen.append(x)
        if len(seen) > 16:
            return None
        st.extend(nxt)
    return seen


def _return_sources(d, rb, ret_local, lo, hi):
    """[(block, value, region)]: the blocks of the inlined body (indices lo..hi) that decide the returned value with a known
    constant / variant and reach the return block `rb` through a pure tail (`_region`)"""
    out = []
    ty = str(d["locals"][ret_local].get("ty", ""))
    for b in range(lo, hi):
        blk = d["blocks"][b]
        t = blk["term"]
        v = _value_in_block(blk, ret_local)
        if v == "unknown":
            continue
        if v is None:
            if t["k"] == "call" and t.get("t") is not None and not t["dest"]["pr"] and t["dest"]["l"] == ret_local \
                    and str((t.get("f") or {}).get("path", "")).endswith("FromResidual::from_residual"):
                # `return Err(From::from(e))` of an inner `?`: the residual side
                v = ("variant", "None" if "option::Option<" in ty else "Err", None)
            else:
                continue
        elif t["k"] not in ("goto", "drop") or t.get("t") is None:
            continue
        if b == rb:
            out.append((b, v, []))
            continue
        region = _region(d, t["t"], rb, ret_local, lo, hi)
        if region is not None:
            out.append((b, v, region))
    return out


def _redirect(d, src, region, rb, tail):
    """give `src` its own copy of the tail `region` + `rb`, ending in a jump to block `tail`"""
    if src == rb:
        d["blocks"][src]["term"] = dict(d["blocks"][src]["term"], t=tail)
        return
    allb = list(region) + [rb]
    base = len(d["blocks"])
    m = {x: base + i for i, x in enumerate(allb)}
    for x in allb:
        blk = json.loads(json.dumps(d["blocks"][x]))
        if x == rb:
            blk["term"] = {"k": "goto", "t": tail, "ln": blk["term"].get("ln"), "threaded": True}
        else:
            t = blk["term"]
            if isinstance(t.get("t"), int) and t["t"] in m:
                t["t"] = m[t["t"]]
            if "tgts" in t:
                t["tgts"] = [m.get(y, y) for y in t["tgts"]]
        d["blocks"].append(blk)
    st = d["blocks"][src]["term"]
    d["blocks"][src]["term"] = dict(st, t=m[st["t"]])


def _thread_through_try(d, t, tb, tt, L0, B0, nb):
    """the `?` form: the continuation calls `Try::branch(result)` and then switches on Continue / Break.  A return site of the
    callee that builds `Ok(..)` / `Some(..)` goes to the Continue arm, one that builds `Err(..)` / `None` to the Break arm (the
    `branch` call is kept — its result is used by both arms — only the edge that cannot be taken is cut)."""
    f = tt.get("f") or {}
    if not str(f.get("path", "")).endswith("Try::branch") and not str(f.get("res", "")).endswith("::branch"):
        return
    dest = t["dest"]
    a0 = tt["args"][0] if tt.get("args") else {}
    pl = a0.get("mv") or a0.get("cp")
    if pl is None or pl["pr"] or pl["l"] != dest["l"] or tt.get("t") is None or tt["dest"]["pr"]:
        return
    T2 = tt["t"]
    tb2 = d["blocks"][T2]
    t2 = tb2["term"]
    if t2["k"] != "switch" or any(s_["k"] != "assign" for s_ in tb2["stmts"]):
        return
    sw = t2["o"].get("mv") or t2["o"].get("cp")
    if sw is None or sw["pr"]:
        return
    is_discr = any(s_["p"]["l"] == sw["l"] and not s_["p"]["pr"] and s_["rv"]["k"] == "discr" and s_["rv"]["p"]["l"] == tt["dest"]["l"] and not s_["rv"]["p"]["pr"] for s_ in tb2["stmts"])
    if not is_discr:
        return
    arm = {"Ok": 0, "Some": 0, "Continue": 0, "Err": 1, "None": 1, "Break": 1}
    for rb in range(B0, B0 + nb):
        if not d["blocks"][rb]["term"].get("inl_return"):
            continue
        for src, kv, region in _return_sources(d, rb, L0, B0, B0 + nb):
            if kv[0] != "variant" or kv[1] not in arm:
                continue
            v = arm[kv[1]]
            tgt = t2["tgts"][t2["vals"].index(v)] if v in t2["vals"] else t2["tgts"][-1]
            n0 = len(d["blocks"])
            # block 1: the assignment of the result and the `branch` call; block 2: the switch's own statements, then the arm
            d["blocks"].append({"cleanup": False, "inl": d["blocks"][src].get("inl"),
                                "stmts": _result_copy(dest, L0, t.get("ln")) + [dict(x) for x in tb["stmts"]],
                                "term": dict(tt, t=n0 + 1, threaded=True)})
            d["blocks"].append({"cleanup": False, "inl": d["blocks"][src].get("inl"), "stmts": [dict(x) for x in tb2["stmts"]],
                                "term": {"k": "goto", "t": tgt, "ln": t2.get("ln"), "threaded": True}})
            _redirect(d, src, region, rb, n0)


def _thread_returns(d, t, L0, B0, nb, cont):
    """jump threading over the inlined call: when a return site of the callee assigns a known constant / variant and the
    caller's continuation does nothing but branch on that value (`if helper(..)`, `match helper(..) { Some(x) => .. }`), the
    return site jumps straight to the branch it selects.  A computed condition moved into a helper then dominates what it
    guards exactly as it did inline."""
    T = t["t"]
    tb = d["blocks"][T]
    tt = tb["term"]
    dest = t["dest"]
    if dest["pr"] or any(s_["k"] != "assign" for s_ in tb["stmts"]):
        return
    if tt["k"] == "call":
        _thread_through_try(d, t, tb, tt, L0, B0, nb)
        return
    if tt["k"] != "switch":
        return
    # the switch operand: the destination itself (bool / integer) or `discriminant(dest)` computed in T
    pl = tt["o"].get("mv") or tt["o"].get("cp")
    if pl is None or pl["pr"]:
        return
    mode = None
    if pl["l"] == dest["l"]:
        mode = "value"
    else:
        for s_ in tb["stmts"]:
            if s_["p"]["l"] == pl["l"] and not s_["p"]["pr"] and s_["rv"]["k"] == "discr" and s_["rv"]["p"]["l"] == dest["l"] and not s_["rv"]["p"]["pr"]:
                mode = "discr"
    if mode is None:
        return
    order = {"None": 0, "Some": 1, "Ok": 0, "Err": 1, "Continue": 0, "Break": 1}
    for rb in range(B0, B0 + nb):
        if not d["blocks"][rb]["term"].get("inl_return"):
            continue
        for src, kv, region in _return_sources(d, rb, L0, B0, B0 + nb):
            if mode == "value" and kv[0] == "const":
                v = kv[1]
            elif mode == "discr" and kv[0] == "variant":
                v = kv[1]
                if not isinstance(v, int):
                    # variant given by name: its index in declaration order (the discriminant of an enum without explicit values)
                    names = _VARIANTS.get(norm(kv[2] or ""))
                    if names is not None and v in names:
                        v = names.index(v)
                    elif v in order:
                        v = order[v]
                    else:
                        continue
            else:
                continue
            tgt = tt["tgts"][tt["vals"].index(v)] if v in tt["vals"] else tt["tgts"][-1]
            n0 = len(d["blocks"])
            d["blocks"].append({"cleanup": False, "inl": d["blocks"][src].get("inl"),
                                "stmts": _result_copy(dest, L0, t.get("ln")) + [dict(x) for x in tb["stmts"]],
                                "term": {"k": "goto", "t": tgt, "ln": tt.get("ln"), "threaded": True}})
            _redirect(d, src, region, rb, n0)


def _inline_call(d, b, callee):
    """replace the call terminator of block `b` of `d` by the body of `callee`"""
    t = d["blocks"][b]["term"]
    L0 = len(d["locals"])
    P0 = len(d.get("promoted") or [])
    B0 = len(d["blocks"])
    d["locals"].extend(dict(x) for x in callee["locals"])
    if callee.get("promoted"):
        d.setdefault("promoted", [])
        d["promoted"].extend(callee["promoted"])
    nb = len(callee["blocks"])
    cont = (B0 + nb) if t.get("t") is not None else None
    # the callee's return place: the destination local itself when the call assigns a whole local (so that `Ok(..)` built in
    # the helper is, as before the extraction, an assignment to the caller's own result), else a fresh local
    ret = t["dest"]["l"] if not t["dest"]["pr"] else L0
    for cb in callee["blocks"]:
        nbk = {"cleanup": cb.get("cleanup", False), "stmts": _remap(cb["stmts"], L0, P0),
               "term": _remap_term(cb["term"], L0, P0, B0, cont), "inl": callee["path"]}
        if ret != L0:
            _subst_local(nbk, L0, ret)
        d["blocks"].append(nbk)
    if cont is not None:
        d["blocks"].append({"cleanup": False, "inl": callee["path"],
                            "stmts": _result_copy(t["dest"], ret, t.get("ln")),
                            "term": {"k": "goto", "t": t["t"], "ln": t.get("ln")}})
        _thread_returns(d, t, ret, B0, nb, cont)
    blk = d["blocks"][b]
    for i, a in enumerate(t["args"]):
        blk["stmts"].append({"k": "assign", "p": {"l": L0 + i + 1, "pr": []}, "rv": {"k": "use", "o": a}, "ln": t.get("ln")})
    blk["term"] = {"k": "goto", "t": B0, "ln": t.get("ln"), "inl_call": callee["path"]}
    return range(B0, B0 + nb)


def _fn_consts(x, acc, by_norm):
    """functions named as values (`map_err(Error::from_scan_error)`): they are still referenced"""
    if isinstance(x, dict):
        c = x.get("c")
        if isinstance(c, dict) and "fn" in c:
            for d in by_norm.get(norm(c["fn"]), []):
                acc.add(d["path"])
        for v in x.values():
            _fn_consts(v, acc, by_norm)
    elif isinstance(x, list):
        for v in x:
            _fn_consts(v, acc, by_norm)


def _same_home(caller, callee):
    """a piece of a function moved into a helper stays with it: a method of the same type, or a free function.  A new function on *another* type is new API of that type, not a piece of the caller — it is
    left alone, and the rules that scan that type's functions see it as one of them."""
    a, b = caller.get("impl_adt"), callee.get("impl_adt")
    if b:
        return a == b
    return True


def thread_bool_temps(d):
    """`let c = a && b;` / `matches!(..)` lower to arms that set a bool local to a constant and join on a switch over it
    (possibly through a copy into a temporary: `_t = copy c; switchInt(move _t)`).  An arm that assigns a constant goes
    straight to the branch that constant selects, so that what the condition guards is dominated by the tests that make
    it true.  Applied to functions whose body differs from the confirmed tree only."""
    n = 0
    preds = _preds(d)
    for j, blk in enumerate(list(d["blocks"])):
        t = blk["term"]
        if t["k"] != "switch" or any(s_["k"] != "assign" or s_["rv"]["k"] != "use" or s_["p"]["pr"] for s_ in blk["stmts"]):
            continue
        pl = t["o"].get("mv") or t["o"].get("cp")
        if pl is None or pl["pr"]:
            continue
        # resolve the switched local through the block's own copies
        src = pl["l"]
        for s_ in reversed(blk["stmts"]):
            o = s_["rv"]["o"]
            q = o.get("mv") or o.get("cp")
            if s_["p"]["l"] == src and q is not None and not q["pr"]:
                src = q["l"]
        for p in preds.get(j, []):
            pb = d["blocks"][p]
            if pb["term"]["k"] != "goto" or pb["term"].get("t") != j:
                continue
            v = None
            for s_ in reversed(pb["stmts"]):
                if s_["k"] == "assign" and s_["p"]["l"] == src:
                    rv = s_["rv"]
                    if not s_["p"]["pr"] and rv["k"] == "use" and "c" in rv["o"] and isinstance(rv["o"]["c"].get("v"), (bool, int)):
                        v = int(rv["o"]["c"]["v"])
                    break
            if v is None:
                continue
            tgt = t["tgts"][t["vals"].index(v)] if v in t["vals"] else t["tgts"][-1]
            if blk["stmts"]:
                d["blocks"].append({"cleanup": blk.get("cleanup", False), "stmts": [dict(x) for x in blk["stmts"]], "term": {"k": "goto", "t": tgt, "ln": t.get("ln"), "threaded": True}})
                tgt = len(d["blocks"]) - 1
            pb["term"] = dict(pb["term"], t=tgt, threaded=True)
            n += 1
    return n


def body_hash(d):
    """a hash of a function's MIR that ignores line numbers (code above it may move)"""
    import hashlib

    def strip(x):
        if isinstance(x, dict):
            return {k: strip(v) for k, v in x.items() if k not in ("ln", "fln", "mac")}
        if isinstance(x, list):
            return [strip(v) for v in x]
        return x
    import re
    text = json.dumps(strip(d.get("blocks") or []), sort_keys=True)
    text = re.sub(r"@[\w/.\-]+\.rs:\d+:\d+: \d+:\d+", "@", text)  # closure types carry their source position
    return hashlib.sha1(text.encode()).hexdigest()[:16]


def apply(data):
    """inline calls from known functions to unknown crate-local functions; returns (calls inlined, distinct callees)"""
    known = known_fns()
    _VARIANTS.clear()
    for a in list(data.get("adts", [])) + list(data.get("foreign_adts", [])):
        if a.get("kind") == "enum" or len(a.get("variants", [])) > 1:
            _VARIANTS[norm(a["path"])] = [v["name"] for v in a["variants"]]
    fns = {d["path"]: d for d in data["fns"]}
    by_norm = {}
    for d in data["fns"]:
        by_norm.setdefault(norm(d["path"]), []).append(d)

    def is_known(d):
        if d["kind"] == "closure":
            root = d.get("root")
            r = fns.get(root) if root else None
            return r is None or norm(r["path"]) in known
        return norm(d["path"]) in known

    def resolve(t, any_kind=False):
        f = t.get("f") or {}
        if "path" not in f:
            return None
        if f.get("res_kind") != "item" and not any_kind:
            return None  # a virtual (or unresolved) call: the body that runs is not known statically
        p = f.get("res") or f["path"]
        g = fns.get(p)
        if g is None:
            c = by_norm.get(norm(p), [])
            g = c[0] if len(c) == 1 else None
        return g
    # functions whose body differs from the confirmed tree get their bool temporaries threaded (identity on that tree)
    hashes = known_hashes()
    edited = 0
    for d in data["fns"]:
        if d.get("blocks") and d["kind"] != "closure":
            hs = hashes.get(norm(d["path"]))
            if hs is not None and body_hash(d) not in hs:
                thread_bool_temps(d)
                edited += 1
    data["_edited_fns"] = edited
    unknown = {p for p, d in fns.items() if d["kind"] != "closure" and norm(p) not in known and d.get("blocks")}
    if not unknown:
        return 0, 0
    originals = {p: json.loads(json.dumps(fns[p])) for p in unknown}  # pristine copies to inline from
    n, callees = 0, set()
    inlined_total = set()
    inlined_into = {}
    for d in data["fns"]:
        if not is_known(d) or not d.get("blocks"):
            continue
        home = d if d["kind"] != "closure" else (fns.get(d.get("root")) or d)
        depth = {b: 0 for b in range(len(d["blocks"]))}
        stack = {b: () for b in range(len(d["blocks"]))}
        work = list(range(len(d["blocks"])))
        while work:
            b = work.pop()
            t = d["blocks"][b]["term"]
            if t["k"] != "call":
                continue
            g = resolve(t)
            if g is None or g["path"] not in unknown or g["path"] == d["path"]:
                continue
            if depth[b] >= MAX_DEPTH or g["path"] in stack[b] or len(d["blocks"]) + len(g["blocks"]) > MAX_BLOCKS:
                continue
            if not _same_home(home, g):
                continue
            new = _inline_call(d, b, originals[g["path"]])
            n += 1
            callees.add(g["path"])
            inlined_total.add(g["path"])
            inlined_into.setdefault(g["path"], home["path"])
            for x in range(new.start, len(d["blocks"])):
                depth[x] = depth[b] + 1
                stack[x] = stack[b] + (g["path"],)
            work.extend(new)
    # an unknown helper every call of which was inlined is no function of the normalised program any more (whole-crate
    # scans would otherwise meet its body twice); one that is still called somewhere (beyond the bounds above, from another
    # unknown function that survives, or through a function pointer) stays
    if callees:
        while True:
            called = set()
            for d in data["fns"]:
                for blk in d.get("blocks") or []:
                    t = blk["term"]
                    if t["k"] == "call":
                        g = resolve(t, any_kind=True)
                        if g is not None:
                            called.add(g["path"])
                    for s_ in blk["stmts"]:
                        if s_["k"] == "assign":
                            _fn_consts(s_["rv"], called, by_norm)
                    if t["k"] == "call":
                        for a in t["args"]:
                            _fn_consts(a, called, by_norm)
            drop = {p for p in callees if p not in called}
            if not drop:
                break
            # (the helper's closures stay: the inlined copies still name them; they now belong to the function the helper
            # was inlined into)
            for d in data["fns"]:
                if d["kind"] == "closure" and d.get("root") in drop and d.get("root") in inlined_into:
                    d["root"] = inlined_into[d["root"]]
            data["fns"] = [d for d in data["fns"] if d["path"] not in drop]
            callees -= drop
    return n, len(inlined_total)
