"""Fact acquisition: run the ssfacts rustc driver over /repo's *current working tree* for a
feature configuration and load the JSON it writes.  Facts are cached by a hash of the tree
(src/**, Cargo.toml, Cargo.lock) so that repeated checks of an unchanged tree are cheap, and
re-extracted whenever anything changes.  See DESIGN.md §2.1."""
import fcntl
import hashlib
import json
import os
import shutil
import subprocess
import sys
import time
import uuid

VERIF = os.path.dirname(os.path.dirname(os.path.abspath(__file__)))
REPO = os.environ.get("SS_REPO", "/repo")
CACHE = os.environ.get("SS_CACHE", os.path.join(VERIF, ".cache"))
DRIVER = os.path.join(VERIF, "ssfacts", "target", "release", "ssfacts")

CONFIGS = {
    "default": [],
    "full": ["garde", "validator", "miette", "figment", "robotics"],
    "robotics": ["robotics"],
    "garde": ["garde"],
    "validator": ["validator"],
    "miette": ["miette"],
    "huge_documents": ["huge_documents"],
}
QUICK_CONFIGS = ["default", "full"]
THOROUGH_CONFIGS = ["default", "full", "robotics", "garde", "validator", "miette", "huge_documents"]

# Dependency functions whose MIR the table rules read (parser alphabets are extracted, never
# hard-coded; a missing body fails closed in the rule that needs it).
FOREIGN = [
    "saphyr_parser_bw::input::is_break",
    "saphyr_parser_bw::input::is_blank",
    "saphyr_parser_bw::input::is_breakz",
    "saphyr_parser_bw::input::is_blank_or_breakz",
    "saphyr_parser_bw::input::is_flow",
    "saphyr_parser_bw::Input::next_is_document_indicator",
    "saphyr_parser_bw::char_traits::is_bom",
]


FOREIGN_ADTS = ["std::io::ErrorKind"]


def tree_hash(repo=None):
    repo = repo or REPO
    h = hashlib.sha256()
    paths = []
    for root, dirs, files in os.walk(os.path.join(repo, "src")):
        dirs.sort()
        for f in sorted(files):
            paths.append(os.path.join(root, f))
    for f in ("Cargo.toml", "Cargo.lock"):
        p = os.path.join(repo, f)
        if os.path.exists(p):
            paths.append(p)
    for p in paths:
        h.update(os.path.relpath(p, repo).encode())
        h.update(b"\0")
        with open(p, "rb") as fh:
            h.update(fh.read())
        h.update(b"\0")
    # the driver itself is part of the key: a rebuilt driver invalidates cached facts
    try:
        st = os.stat(DRIVER)
        h.update(("%d:%d" % (st.st_size, int(st.st_mtime))).encode())
    except OSError:
        pass
    return h.hexdigest()[:20]


def sysroot():
    return subprocess.check_output(["rustc", "+nightly", "--print", "sysroot"], text=True).strip()


def ensure_driver():
    if os.path.exists(DRIVER):
        return
    subprocess.check_call(
        ["cargo", "build", "--release", "--offline"],
        cwd=os.path.join(VERIF, "ssfacts"),
        env=dict(os.environ, CARGO_NET_OFFLINE="true"),
    )


class ExtractionError(Exception):
    pass


def extract(config, repo=None, quiet=True):
    """Return path of the fact file for (config, current tree); extract if not cached."""
    repo = repo or REPO
    ensure_driver()
    th = tree_hash(repo)
    fdir = os.path.join(CACHE, "facts")
    os.makedirs(fdir, exist_ok=True)
    out = os.path.join(fdir, "facts-%s-%s.json" % (config, th))
    if os.path.exists(out):
        return out
    lockp = os.path.join(CACHE, "lock-%s" % config)
    with open(lockp, "w") as lk:
        fcntl.flock(lk, fcntl.LOCK_EX)
        if os.path.exists(out):
            return out
        target = os.path.join(CACHE, "target-%s" % config)
        # cargo's freshness cache would silently skip the wrapper: drop the member's fingerprint
        fp = os.path.join(target, "debug", ".fingerprint")
        if os.path.isdir(fp):
            for d in os.listdir(fp):
                if d.startswith("serde-saphyr-"):
                    shutil.rmtree(os.path.join(fp, d), ignore_errors=True)
        nonce = uuid.uuid4().hex
        tmp = out + ".tmp." + nonce
        env = dict(os.environ)
        env.update(
            CARGO_NET_OFFLINE="true",
            LD_LIBRARY_PATH=os.path.join(sysroot(), "lib"),
            RUSTFLAGS="-Zmir-opt-level=0 -Zalways-encode-mir -Awarnings",
            RUSTC_WORKSPACE_WRAPPER=DRIVER,
            CARGO_TARGET_DIR=target,
            SSFACTS_OUT=tmp,
            SSFACTS_NONCE=nonce,
            SSFACTS_CONFIG=config,
            SSFACTS_FEATURES=",".join(CONFIGS[config]),
            SSFACTS_FOREIGN=",".join(FOREIGN),
            SSFACTS_FOREIGN_ADTS=",".join(FOREIGN_ADTS),
        )
        env.pop("RUSTC_WRAPPER", None)
        cmd = ["cargo", "+nightly", "check", "--offline", "--lib", "--message-format", "short"]
        if CONFIGS[config]:
            cmd += ["--features", ",".join(CONFIGS[config])]
        t0 = time.time()
        p = subprocess.run(cmd, cwd=repo, env=env, stdout=subprocess.PIPE, stderr=subprocess.STDOUT, text=True)
        if p.returncode != 0 or not os.path.exists(tmp):
            sys.stderr.write(p.stdout[-6000:])
            raise ExtractionError("fact extraction failed for config %s (exit %s): /repo does not build?" % (config, p.returncode))
        with open(tmp) as fh:
            head = fh.read(200)
        if nonce not in head:
            raise ExtractionError("stale fact file (nonce mismatch) for config %s" % config)
        os.replace(tmp, out)
        # keep the cache small: drop fact files of other tree hashes for this config
        for f in os.listdir(fdir):
            if f.startswith("facts-%s-" % config) and f != os.path.basename(out):
                try:
                    os.remove(os.path.join(fdir, f))
                except OSError:
                    pass
        if not quiet:
            print("extracted %s in %.1fs" % (config, time.time() - t0))
    return out


_SERDE_ALIAS = None


def load(config, repo=None):
    """Load the fact file.  rustc prints serde items through the first *visible* path, which in
    this crate is a derive's hidden `extern crate serde as _serde` (e.g.
    `budget::_::_serde::de::Visitor`); canonicalise those to `serde::…`."""
    import re
    p = extract(config, repo)
    with open(p) as fh:
        text = fh.read()
    text = re.sub(r"(?:[A-Za-z_][A-Za-z_0-9]*::)+_::_serde::", "serde::", text)
    # likewise `core` / `alloc` / `std` reached through a dependency's public re-export
    # (e.g. `garde::external::compact_str::core::num::checked_add` in the garde-only configuration)
    text = re.sub(r"(?<![A-Za-z0-9_:])(?:[A-Za-z_][A-Za-z_0-9]*::)+(core|alloc|std)::(?=[a-z_]+::)", r"\1::", text)
    return json.loads(text)
