"""PROTO — entry-point protocol rules (DESIGN.md §3 PROTO), shared by C05, C07, C09, C10, C11,
C15, C18.  Entry points are *discovered*: every function whose body constructs the event
source (`LiveEvents::from_str` / `from_reader`)."""
from .mir import norm, fieldpath, sym_contains
from .rules import render, must_pass, bool_switches

CTOR_STR = "live_events::LiveEvents::from_str"
CTOR_READER = "live_events::LiveEvents::from_reader"
FINISH = "live_events::LiveEvents::finish"
SCOPE = "anchor_store::with_document_scope"
PEEK = "<live_events::LiveEvents as de::Events>::peek"
NEXT = "<live_events::LiveEvents as de::Events>::next"
SKIP = "live_events::LiveEvents::skip_to_next_document"
MULTI_ERR = "de_error::Error::multiple_documents"
# option component -> constructor argument index
OPT_ARGS = {1: "budget", 2: "budget_report", 3: "budget_report_cb", 4: "alias_limits"}


class Entry:
    def __init__(self, fn, b, term, kind):
        self.fn = fn
        self.block = b
        self.term = term
        self.kind = kind  # 'str' | 'reader'

    def __repr__(self):
        return "Entry(%s,%s)" % (self.fn.npath, self.kind)


def entries(fx):
    out = []
    for f in fx.fns.values():
        for b, t in f.calls():
            c = fx.callee(t)
            if c == CTOR_STR:
                out.append(Entry(f, b, t, "str"))
            elif c == CTOR_READER:
                out.append(Entry(f, b, t, "reader"))
    out.sort(key=lambda e: e.fn.npath)
    return out


def options_param(fn):
    for i in range(1, fn.nargs + 1):
        if "options::Options" in fn.local_ty(i):
            return fn.local_name(i) or "_%d" % i
    return None


def check_p1(ctx, fx, config):
    """p1: every option component is threaded, each from its same-named field."""
    n = 0
    for e in entries(fx):
        ctx.saw(e.fn)
        opt = options_param(e.fn)
        for idx, field in OPT_ARGS.items():
            n += 1
            key = "%s:PROTO.p1:%s:%s" % (ctx.prop, e.fn.npath, field)
            if opt is None:
                ctx.bad("PROTO.p1", key, "constructor of the event source is called in a function without an Options parameter", config, ctx.where(e.fn, e.block))
                continue
            got = render(e.fn.sym_operand(e.term["args"][idx]))
            ctx.check(got == "%s.%s" % (opt, field), "PROTO.p1", key,
                      "constructor argument #%d is %s" % (idx, got),
                      "constructor argument #%d (%s) is `%s`, expected `%s.%s` — the option component is not threaded to the event source" % (idx, field, got, opt, field),
                      config, ctx.where(e.fn, e.block))
    return n


def finishing_set(fx):
    """FINISH plus every crate-local helper all of whose success results are derived from a
    finishing call (e.g. `enforce_single_document_and_finish`)."""
    fin = {FINISH}
    changed = True
    while changed:
        changed = False
        for f in fx.fns.values():
            if f.npath in fin or f.kind == "closure":
                continue
            if not any(fx.callee(t) in fin for _b, t in f.calls()):
                continue
            if not f.d.get("sig", "").split("->")[-1].strip().startswith("std::result::Result"):
                continue
            if unfinished_ok_sources(fx, f, fin) == []:
                fin.add(f.npath)
                changed = True
    return fin


def ok_sources(fn):
    """Blocks in which the return place receives a value that may be a success: everything
    assigned to _0 except `Err{..}` aggregates and `?`-residual conversions."""
    out = []
    for b in sorted(fn.live_blocks):
        blk = fn.blocks[b]
        for s_ in blk["stmts"]:
            if s_["k"] == "assign" and s_["p"]["l"] == 0 and not s_["p"]["pr"]:
                rv = s_["rv"]
                if rv["k"] == "aggr" and norm(rv.get("adt", "")).endswith("Result") and rv.get("variant") == "Err":
                    continue
                out.append((b, fn.sym_rvalue(rv), s_.get("ln")))
        t = blk["term"]
        if t["k"] == "call" and t["dest"]["l"] == 0 and not t["dest"]["pr"]:
            c = norm(t["f"].get("res") or t["f"].get("path", ""))
            if c.endswith("from_residual"):
                continue
            out.append((b, fn.sym_call(t, b), t.get("ln")))
    return out


def unfinished_ok_sources(fx, fn, fin):
    fin_blocks = [b for b, t in fn.calls() if fx.callee(t) in fin]
    bad = []
    for b, sym, ln in ok_sources(fn):
        if any(fn.dominates(fb, b) and fb != b for fb in fin_blocks):
            continue
        with fn.deep():
            # re-resolve deeply: is the value itself derived from a finishing call?
            pass
        if sym_contains(sym, lambda s_: s_[0] == "call" and s_[1] in fin):
            continue
        # deep resolution of locals inside sym
        deep_hit = False
        if sym[0] in ("local",):
            with fn.deep():
                ds = fn.sym_local(sym[1])
            deep_hit = sym_contains(ds, lambda s_: s_[0] == "call" and s_[1] in fin)
        if deep_hit:
            continue
        bad.append((b, ln))
    return bad


def is_iterator_next(fn):
    return fn.d.get("impl_trait") == "std::iter::Iterator" and fn.name == "next"


def check_p4(ctx, fx, config):
    """p4: no success result of an entry point without the finishing call."""
    fin = finishing_set(fx)
    n = 0
    roots = {}
    for e in entries(fx):
        roots[e.fn.npath] = e.fn
    for name, f in sorted(roots.items()):
        sig = f.d.get("sig", "")
        ret = sig.split("->")[-1].strip() if "->" in sig else ""
        if not ret.startswith("std::result::Result"):
            continue  # iterator constructors: handled by check_p4_iter
        ctx.saw(f)
        n += 1
        bad = unfinished_ok_sources(fx, f, fin)
        key = "%s:PROTO.p4:%s" % (ctx.prop, f.npath)
        ctx.check(not bad, "PROTO.p4", key,
                  "every success result is dominated by / derived from a finishing call (%s)" % ", ".join(sorted(x.rsplit("::", 1)[-1] for x in fin)),
                  "success result assigned at line(s) %s without passing LiveEvents::finish: the stored I/O error, the delayed budget breach and the report callbacks are skipped" % [ln for _b, ln in bad],
                  config, ctx.where(f, bad[0][0] if bad else None))
    return n


def iterator_nexts(fx):
    out = []
    for f in fx.fns.values():
        if is_iterator_next(f) and any(fx.callee(t) in (FINISH, PEEK, SKIP) for _b, t in f.calls()):
            out.append(f)
    out.sort(key=lambda f: f.npath)
    return out


def check_p4_iter(ctx, fx, config):
    """Iterator form of p4: every `None` is dominated by the finishing call or by the true edge
    of the `finished` test; every `finished = true` is followed by the finishing call on all
    paths, or sits under a `res.is_err()` test (the item returned is then an error)."""
    n = 0
    for f in iterator_nexts(fx):
        ctx.saw(f)
        fin_blocks = [b for b, t in f.calls() if fx.callee(t) == FINISH]
        # the finished test
        fin_true = None
        fin_blk = None
        for b, sym, tt, ff in bool_switches(f):
            if render(sym) == "self.finished":
                fin_true = tt
                fin_blk = b
        key0 = "%s:PROTO.p4iter:%s" % (ctx.prop, f.npath)
        n += 1
        if not ctx.check(fin_true is not None and f.blocks[0]["term"]["k"] == "switch" and render(f.sym_operand(f.blocks[0]["term"]["o"])) == "self.finished",
                         "PROTO.p4iter", key0 + ":finished-test-first",
                         "the function starts with the `finished` test", "the iterator does not start with the `finished` test: it may pull from an ended source", config, ctx.where(f)):
            continue
        for b, i, s_ in f.stmts():
            if s_["k"] != "assign" or s_["p"]["l"] != 0 or s_["p"]["pr"]:
                continue
            rv = s_["rv"]
            if rv["k"] == "aggr" and rv.get("variant") == "None" and norm(rv.get("adt", "")).endswith("Option"):
                n += 1
                okd = any(f.dominates(fb, b) for fb in fin_blocks) or f.edge_dominates(fin_blk, fin_true, b)
                ctx.check(okd, "PROTO.p4iter", key0 + ":none",
                          "`None` is returned only after finish() or under the finished flag",
                          "the iterator can end (`None`, line %s) without finish(): a stored I/O error or delayed budget breach is lost" % s_.get("ln"),
                          config, ctx.where(f, ln=s_.get("ln")))
        # finished = true writes
        is_err_true = []
        for b, sym, tt, ff in bool_switches(f):
            if sym[0] == "call" and sym[1].endswith("Result::is_err"):
                is_err_true.append((b, tt))
        k = 0
        for b, i, s_ in f.stmts():
            if s_["k"] == "assign" and s_["p"]["pr"] and render(f.sym_place(s_["p"])) == "self.finished":
                v = f.sym_rvalue(s_["rv"])
                if v[0] == "const" and v[1] is True:
                    n += 1
                    k += 1
                    okf = must_pass(f, [b], fin_blocks) or any(f.edge_dominates(sb, tt, b) for sb, tt in is_err_true) or returns_only_err_items(f, b)
                    ctx.check(okf, "PROTO.p4iter", key0 + ":finished-set#%d" % k,
                              "`finished = true` is followed by finish() on every path (or the item is the document's own error)",
                              "`finished = true` (line %s) can reach a return without finish()" % s_.get("ln"), config, ctx.where(f, ln=s_.get("ln")))
    return n


def returns_only_err_items(f, start):
    """every value assigned to the return place after `start` (before any other such
    assignment) is `Some(Err(..))`."""
    assigns = {}
    for b, i, s_ in f.stmts():
        if s_["k"] == "assign" and s_["p"]["l"] == 0 and not s_["p"]["pr"]:
            assigns.setdefault(b, []).append(s_)
    reach = f.reachable([start], avoid=[b for b in assigns if b != start])
    front = [b for b in assigns if b == start or any(p in reach for p in f.pred[b])]
    if not front:
        return False
    for b in front:
        for s_ in assigns[b]:
            rv = s_["rv"]
            if not (rv["k"] == "aggr" and rv.get("variant") == "Some"):
                return False
            with f.deep():
                v = f.sym_operand(rv["ops"][0])
            if not (v[0] == "aggr" and v[2] == "Err"):
                return False
    return True


def scope_closures(fx, fam):
    """closure paths passed to with_document_scope inside the function family."""
    out = set()
    for g in fam:
        for b, t in g.calls():
            if fx.callee(t) == SCOPE:
                for a in t["args"]:
                    with g.deep():
                        sym = g.sym_operand(a)
                    if sym[0] == "mkclosure":
                        out.add(sym[1])
                    elif sym[0] in ("arg", "upvar", "local"):
                        out.add("<param>")
    return out


def consumer_calls(fx, g):
    """calls that hand a *root* YamlDeserializer (freshly built over the event source) to user code."""
    for b, t in g.calls():
        c = fx.callee(t)
        if c.startswith("de::YamlDeserializer::"):
            continue
        for a in t["args"]:
            pl = a.get("mv") or a.get("cp")
            if pl is None or pl["pr"]:
                continue
            if "de::YamlDeserializer" not in g.local_ty(pl["l"]):
                continue
            with g.deep():
                sym = g.sym_operand(a)
            if sym_contains(sym, lambda c_: c_[0] == "call" and c_[1].startswith("de::YamlDeserializer::new") and sym_contains(
                    c_, lambda s_: s_[0] == "cast" and "live_events::LiveEvents" in str(s_[4] or ""))):
                yield b, t
                break


def check_p3(ctx, fx, config):
    """p3: user `Deserialize` code only ever runs inside a document scope."""
    n = 0
    seen_roots = set()
    for e in entries(fx):
        if e.fn.npath in seen_roots:
            continue
        seen_roots.add(e.fn.npath)
    # every consumer call in the crate
    for g in fx.fns.values():
        for b, t in consumer_calls(fx, g):
            n += 1
            ctx.saw(g)
            key = "%s:PROTO.p3:%s" % (ctx.prop, g.npath)
            okc = False
            if g.kind == "closure":
                parent_path = g.path.rsplit("::", 1)[0]
                parent = fx.fns.get(parent_path)
                fam = [parent] if parent else []
                if parent:
                    okc = g.path in scope_closures(fx, fam)
            ctx.check(okc, "PROTO.p3", key,
                      "the call handing the deserializer to user code is inside a closure passed to with_document_scope",
                      "user Deserialize code is run on the event source outside anchor_store::with_document_scope: the anchor identity table is neither fresh nor reset afterwards",
                      config, ctx.where(g, b))
    return n
