"""PANIC — census of panic-capable constructs with tiered discharge (DESIGN §3 PANIC)."""
import json
import os
import re

from .mir import norm, sym_contains
from .rules import render, last_seg, bool_switches, compares, switch_edges

# files whose code only runs when *serializing* (outside C01's statement)
SER_FILES = ("ser.rs", "ser_quoting.rs", "wrapping.rs", "zmij_format.rs", "long_strings.rs", "figment.rs", "main.rs",
             "serializer_options.rs", "ser_error.rs", "macros.rs")

PANIC_CALLS = re.compile(
    r"(panicking::|(^|::)panic(_fmt|_display|_str|_nounwind|_explicit|_any)?$|(^|::)(unwrap|expect|unwrap_err|expect_err)$|RefCell::(borrow|borrow_mut)$|"
    r"Vec::(remove|swap_remove|insert|drain|split_off)$|String::(remove|insert|insert_str|drain|split_off|replace_range|truncate)$|"
    r"slice::(copy_from_slice|clone_from_slice|split_at|split_at_mut|chunks|chunks_exact|windows|swap|rotate_left|rotate_right|copy_within)$|"
    r"str::split_at$|VecDeque::(remove|insert|swap)$|unreachable|unwrap_unchecked|LocalKey::with$|Regex::new$|"
    r"(^|::)(abs|pow|div_euclid|rem_euclid|next_power_of_two)$|assert_failed|begin_panic|slice_index|::from_digit$)")


def in_scope(f):
    if f.file.endswith(SER_FILES):
        return False
    if "::_::" in f.npath or f.d.get("impl_trait") in ("serde::Serialize",):
        return False  # serde-derive output for Serialize (serialization side)
    if f.file.endswith("lib.rs") and (f.name.startswith("to_") or "::to_" in f.npath or f.npath.startswith("to_") or "to_io_writer" in f.npath or "to_fmt" in f.npath or "to_string" in f.npath):
        return False
    if not f.file.startswith("src/"):
        return False
    return True


class Site:
    def __init__(self, f, b, t, kind, ops, deep_ops):
        self.f, self.b, self.t, self.kind, self.ops, self.deep_ops = f, b, t, kind, ops, deep_ops

    def key(self, ordinal):
        return "%s|%s|%s%s" % (self.f.npath, self.kind, " , ".join(self.ops), "#%d" % ordinal if ordinal > 1 else "")


def sites(fx):
    out = []
    for f in sorted(fx.fns.values(), key=lambda f: f.npath):
        if not in_scope(f):
            continue
        for b in sorted(f.live_blocks):
            t = f.blocks[b]["term"]
            if t["k"] == "assert":
                ops, dops = [], []
                for k in ("a", "b", "index", "len"):
                    if k in t:
                        ops.append(render(f.sym_operand(t[k]))[:70])
                        with f.deep():
                            dops.append(f.sym_operand(t[k]))
                if not ops:
                    with f.deep():
                        c = f.sym_operand(t["cond"])
                    dops = [c]
                    ops = [render(f.sym_operand(t["cond"]))[:70]]
                out.append(Site(f, b, t, t["ak"], ops, dops))
            elif t["k"] == "call":
                c = fx.callee(t)
                cd = fx.callee_decl(t)
                tr = str(t["f"].get("trait"))
                is_index = tr in ("std::ops::Index", "std::ops::IndexMut")
                if not (is_index or PANIC_CALLS.search(c) or PANIC_CALLS.search(cd)):
                    continue
                if t.get("mac", "").startswith(("format", "write", "print")) and not re.search(r"panic", c):
                    continue
                ops = [render(f.sym_operand(a))[:70] for a in t["args"]]
                with f.deep():
                    dops = [f.sym_operand(a) for a in t["args"]]
                kind = "call:" + ("index" if is_index else re.sub(r"^.*::(\w+::\w+)$", r"\1", c))
                out.append(Site(f, b, t, kind, ops, dops))
    return out


# ---------------------------------------------------------------------------------------------
# tier 1: generic guards

SMALL = 1 << 16


def _const_int(sym):
    return sym[1] if sym and sym[0] == "const" and isinstance(sym[1], int) and not isinstance(sym[1], bool) else None


def _ty_of_assert(site):
    """type of the arithmetic: from the local that receives the checked result"""
    f, b = site.f, site.b
    pl = site.t["cond"].get("mv") or site.t["cond"].get("cp")
    if pl is None:
        return ""
    ty = f.local_ty(pl["l"])
    m = re.match(r"^\((\w+), bool\)$", ty)
    return m.group(1) if m else ty


def guard_edges(f):
    """facts established on CFG edges by comparisons: list of (block, target, fact) with fact = (op, lhs, rhs) rendered shallow AND deep"""
    out = []
    for deep in (False, True):
        ctxm = f.deep() if deep else None
        if ctxm:
            ctxm.__enter__()
        try:
            for c in compares(f):
                out.append((c["block"], c["t"], (c["op"], c["rl"], c["rr"])))
                neg = {"Lt": "Ge", "Ge": "Lt", "Gt": "Le", "Le": "Gt", "Eq": "Ne", "Ne": "Eq"}[c["op"]]
                out.append((c["block"], c["f"], (neg, c["rl"], c["rr"])))
            for b, sym, tt, ff in bool_switches(f):
                if sym[0] == "call" and last_seg(sym[1]) == "is_empty" and sym[2]:
                    x = render(sym[2][0])
                    out.append((b, tt, ("Eq", "len(%s)" % x, "0")))
                    out.append((b, ff, ("Ne", "len(%s)" % x, "0")))
        finally:
            if ctxm:
                ctxm.__exit__(None, None, None)
    return out


def implies_lt(fact, a, b_):
    """does fact imply a < b_ ?"""
    op, l, r = fact
    return (op == "Lt" and l == a and r == b_) or (op == "Gt" and l == b_ and r == a)


def implies_ge(fact, a, b_):
    op, l, r = fact
    if (op in ("Ge", "Gt") and l == a and r == b_) or (op in ("Le", "Lt") and l == b_ and r == a):
        return True
    if b_ == "1" and ((op == "Ne" and l == a and r == "0") or (op == "Gt" and l == a and r == "0")):
        return True
    if b_.isdigit() and op in ("Ge", "Gt") and l == a and r.isdigit() and int(r) + (1 if op == "Gt" else 0) >= int(b_):
        return True
    return False


def t1(site, fx, unsafe_forbidden, guards_cache):
    """returns a reason string if the site is discharged by a generic guard, else None"""
    f, b, t, kind = site.f, site.b, site.t, site.kind
    if kind in ("misaligned", "nullptr"):
        return "debug pointer check on a reference in a crate that forbids unsafe code" if unsafe_forbidden else None
    ge = guards_cache.setdefault(f.npath, guard_edges(f))

    def edge_fact(pred):
        return any(pred(fact) and f.edge_dominates(sb, tg, b) for sb, tg, fact in ge)
    if kind.startswith("overflow:") and len(site.deep_ops) == 2:
        a, c = site.deep_ops
        ca, cc = _const_int(a), _const_int(c)
        ty = _ty_of_assert(site)
        if ca is not None and cc is not None:
            return "both operands are constants (folded; an overflow would not compile)"
        op = kind.split(":")[1]
        if op == "Add" and ty in ("usize", "u64", "u128", "i128", "i64", "isize") and ((ca is not None and 0 <= ca <= SMALL) or (cc is not None and 0 <= cc <= SMALL)):
            return "counter / position of in-memory items plus a small constant in a 64-bit type"
        if op == "Add" and ty in ("usize", "u64"):
            # sum of two lengths / offsets of in-memory data
            ra, rc = render(a), render(c)
            if all(re.search(r"\b(len|count|find|position|PtrMetadata|char_indices|enumerate|read)\(", x) or x.isdigit() for x in (ra, rc)):
                return "sum of lengths / offsets of in-memory data (bounded by the address space)"
        if op == "Sub":
            ra, rc = site.ops[0], site.ops[1]
            da, dc = render(a), render(c)
            if edge_fact(lambda fact: implies_ge(fact, ra, rc) or implies_ge(fact, da, dc)):
                return "subtraction dominated by a comparison establishing minuend >= subtrahend"
        if op in ("Shl", "Shr") and cc is not None and 0 <= cc < 32:
            return "shift by a constant smaller than the operand width"
        if op == "Mul" and ((ca is not None and 0 <= ca <= 64) or (cc is not None and 0 <= cc <= 64)):
            ra, rc = render(a), render(c)
            if any(re.search(r"\b(len|count|Div)\(", x) for x in (ra, rc)):
                return "a length (or a fraction of it) times a small constant"
        return None
    if kind in ("div0", "rem0"):
        c = site.deep_ops[0]
        # cond = Eq(divisor, 0)
        if c[0] == "bin" and c[1] == "Eq":
            d = _const_int(c[2])
            if d is not None and d != 0:
                return "division by a non-zero constant"
            if c[2][0] in ("const?", "namedconst"):
                return "division by a named non-zero constant (array length)"
        return None
    if kind == "bounds":
        idx, ln = site.deep_ops
        ci, cl = _const_int(idx), _const_int(ln)
        if ci is not None and cl is not None and ci < cl:
            return "constant index below a constant length"
        ri, rl = site.ops[0], site.ops[1]
        if ri.startswith("Rem(") and ("?const?" in rl or "const" in rl):
            return "index reduced modulo the (constant) array length"
        di = render(idx)
        dl = render(ln)
        m = re.match(r"^PtrMetadata\((.*)\)$", dl)
        base = m.group(1) if m else None
        if base and edge_fact(lambda fact: implies_lt(fact, di, "len(%s)" % base) or implies_lt(fact, ri, "len(%s)" % base)):
            return "index dominated by a comparison with the slice length"
        return None
    if kind == "call:index" and len(site.ops) == 2:
        x, i = site.ops
        with f.deep():
            pass
        dx, di = render(site.deep_ops[0]), render(site.deep_ops[1])
        for X, I in ((x, i), (dx, di)):
            if edge_fact(lambda fact: implies_lt(fact, I, "len(%s)" % X)):
                return "index dominated by a comparison with the collection's length"
        return None
    return None


def load_reviewed():
    p = os.path.join(os.path.dirname(os.path.abspath(__file__)), "tables", "C01_reviewed.json")
    with open(p) as fh:
        return json.load(fh)
