"""E3 — compile-fail witnesses: build a copy of /verif/witness that path-depends on the tree
under analysis and run its doctests with `cargo +nightly test --doc`."""
import os
import re
import shutil
import subprocess

from . import facts as factsmod

SRC = os.path.join(factsmod.VERIF, "witness")


def run(names):
    """returns {witness name: {'compile_fail': bool|None, 'twin': bool|None}}, raw output"""
    repo = factsmod.REPO
    wdir = os.path.join(factsmod.CACHE, "witness-crate")
    os.makedirs(os.path.join(wdir, "src"), exist_ok=True)
    os.makedirs(os.path.join(wdir, ".cargo"), exist_ok=True)
    toml = open(os.path.join(SRC, "Cargo.toml")).read().replace('path = "/repo"', 'path = "%s"' % repo)
    open(os.path.join(wdir, "Cargo.toml"), "w").write(toml)
    shutil.copy2(os.path.join(SRC, "src", "lib.rs"), os.path.join(wdir, "src", "lib.rs"))
    shutil.copy2(os.path.join(repo, "Cargo.lock"), os.path.join(wdir, "Cargo.lock"))
    open(os.path.join(wdir, ".cargo", "config.toml"), "w").write("[net]\noffline = true\n")
    env = dict(os.environ, CARGO_NET_OFFLINE="true", CARGO_TARGET_DIR=os.path.join(factsmod.CACHE, "witness-target"))
    env.pop("RUSTC_WORKSPACE_WRAPPER", None)
    env.pop("RUSTFLAGS", None)
    p = subprocess.run(["cargo", "+nightly", "test", "--doc", "--offline"], cwd=wdir, env=env, stdout=subprocess.PIPE, stderr=subprocess.STDOUT, text=True)
    out = p.stdout
    res = {n: {"compile_fail": None, "twin": None} for n in names}
    for m in re.finditer(r"^test src/lib\.rs - (\w+) \(line \d+\)( - compile fail)? \.\.\. (\w+)", out, re.M):
        n, cf, status = m.group(1), m.group(2), m.group(3)
        if n in res:
            k = "compile_fail" if cf else "twin"
            prev = res[n][k]
            res[n][k] = (status == "ok") if prev is None else (prev and status == "ok")
    return res, out
