"""What is claimed, at which level, by which technique (MANIFEST.json is generated from this)."""
HOOK_COMMITS = []
WITNESS_PROPS = []
NOTES = ("Static analysis only: every check re-extracts MIR facts from /repo's current working tree "
         "(cached by tree hash) and decides necessary structural clauses of its property; see DESIGN.md "
         "for what each check does and does not decide.")
_NB = "rule family not built yet (DESIGN.md §8); not claimed through a weaker check"
CLAIMED = {}
NOT_APPLICABLE = {("C%02d" % i): _NB for i in range(1, 21)}
