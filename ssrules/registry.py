"""What is claimed, at which level, by which technique (MANIFEST.json is generated from this)."""
HOOK_COMMITS = []
WITNESS_PROPS = []
NOTES = ("Static analysis only: every check re-extracts MIR facts from /repo's current working tree "
         "(cached by tree hash) and decides necessary structural clauses of its property; see DESIGN.md "
         "for what each check does and does not decide.")
_NB = "rule family not built yet (DESIGN.md §8); not claimed through a weaker check"
CLAIMED = {}
_NOTE = ("Trusted base: rustc nightly's MIR construction and callee resolution; the reviewed tables in ssrules/props/*.py; "
         "dependencies (saphyr-parser, serde) behave as documented. A pass means the listed structural obligations hold on "
         "every path of the current tree in the analysed feature configurations, not that the behaviour holds for every input.")
CLAIMED["C07"] = dict(
    level=("Static decision, over every CFG path of the resolved MIR in 2 (quick) / 7 (thorough) feature configurations, of the "
           "necessary structural clauses of C07: strict counter/limit/breach pairing with write->compare coverage (9 limits + ratio "
           "heuristic), per-document reset completeness, observe-before-use of every pulled parser event, kind-preserving budget "
           "observation of replayed events, option threading and finish() on every success path of all entry points, callbacks "
           "before the delayed breach. Not decided: equality of the report with an independent count (runtime quantity)."),
    note=_NOTE,
    technique="static analysis: rustc_private MIR fact extraction + dominance / must-pass-through / counter-limit pairing / reset-completeness rules")

CLAIMED["C10"] = dict(
    level=("Static decision over every CFG path: every non-EOF `None` of the reader's char iterator is dominated by a store into the "
           "shared error cell (7 exits, 6 stores); the byte cap is compared strictly on a non-wrapping running total before "
           "delivery; one Rc cell is shared by iterator and event source; next/peek/finish check the cell first; every success path "
           "of every reader entry point (incl. the three iterators) passes finish(); no fallible result of the event source or of a "
           "writer is discarded on a path that can still succeed (crate-wide census); the io::Write adapter stores the error before "
           "failing and the entry point returns it. Not decided: prefix property of partial output, exact bytes pulled."),
    note=_NOTE,
    technique="static analysis: MIR dominance / must-pass-through / discard (unused fallible result) census / strict-compare rules")

CLAIMED["C08"] = dict(
    level=("Static decision over every CFG path of the event source: the three alias limits are compared strictly with their own "
           "counters and produce their own errors; the per-anchor and stack-depth checks dominate the replay-frame push; the "
           "total-replayed check and the budget observation dominate every replayed delivery; counters advance with checked / "
           "saturating adds and are written only by the pump and the document reset; only the event source constructs and pulls "
           "the parser. Not decided (declared n/a in DESIGN §4): peak heap and visitor-call scaling laws."),
    note=_NOTE, technique="static analysis: MIR counter/limit pairing, dominance, who-writes / who-calls census")
CLAIMED["C11"] = dict(
    level=("Static decision over every CFG path: every per-document field written by the event pump is cleared by the document "
           "reset, which runs on both boundary arms of the pump and of the skip path; user code runs in exactly one anchor scope "
           "per document, opened inside the document loop; every single-document entry point turns a second document into the "
           "multiple-documents error before finishing; the three streaming iterators test `finished` first, set it on every "
           "stream-ending path, skip only null-like roots and only failed documents, and every loop consumes an event. Not "
           "decided: equality with per-document deserialization, the exact resume position."),
    note=_NOTE, technique="static analysis: MIR reset-completeness, must-pass-through, loop-progress (SCC) and sibling-agreement rules")
CLAIMED["C02"] = dict(
    level=("Static decision over every CFG path of the event pump: a replay frame is pushed only after the anchor-exists and "
           "not-being-recorded checks (whose failing edges are the unknown-anchor / recursive-reference errors); every delivered "
           "event except the synthetic empty-document scalar is recorded into the open anchor frames with the depth bump before "
           "starts and the frame close after ends; buffers are stored at the node's own anchor id; the parser is pulled only when "
           "the replay stack is empty; anchors are cleared at every document boundary. Not decided: equality with the alias-free "
           "expansion (a statement about event sequences)."),
    note=_NOTE, technique="static analysis: MIR guard-dominance and must-pass-through rules over the alias/anchor state machine")

CLAIMED["C09"] = dict(
    level=("Static decision over every CFG path plus compile-fail witnesses: all entry points (6 default / 13 with features) thread "
           "the four option components and a Cfg derived from their own Options, run user code inside the document scope and "
           "finish; the string constructor is the only place a string parser is built and strips one leading U+FEFF for parser "
           "and borrow source alike, and snippet text agrees with parser text; every from_slice* validates UTF-8 with the "
           "dedicated error and delegates; the reader's decoder sniffs BOMs with no override; visit_borrowed_str only receives "
           "the payload of the parser's Cow::Borrowed; every exported io::Read entry bounds its output by DeserializeOwned or a "
           "higher-ranked closure, and three borrowed-from-reader programs fail to compile while their owned twins compile. "
           "Not decided: equality of values / error positions across chunkings."),
    note=_NOTE + " The witnesses additionally trust rustdoc's compile_fail doctest runner (nightly).",
    technique="static analysis: MIR protocol / sibling-agreement / provenance rules + rustdoc compile_fail witnesses with compiling twins")
WITNESS_PROPS.append("C09")

CLAIMED["C06"] = dict(
    level=("Static decision over the resolved MIR of the scalar layer: the five integer-parsing functions use only checked 128-bit "
           "arithmetic, widening casts and fallible TryFrom narrowing (every returned value derives from try_from); the 12 typed "
           "entry points call the parser instantiated at their own type, pass their own label and cfg switch, and hand the value "
           "to the matching visit_X; the bool / null / special-float literal sets, their polarity and the radix prefixes equal the "
           "documented tables; non-plain scalars are never null-like / number-like; Cfg::from_options wires each switch to its own "
           "option and each switch is read only in its documented functions; base64 padding masks, length and pad-position checks "
           "reject. Not decided: the mathematically exact value for every token, float parsing (core's str::parse)."),
    note=_NOTE, technique="static analysis: MIR arithmetic-discipline, literal-table extraction / agreement, option-wiring and guard-dominance rules")

CLAIMED["C12"] = dict(
    level=("Narrow static decision (TABLE agreement between reader and writer, extracted from the MIR of both and of the pinned "
           "parser): every plain-token class to which the reader gives a non-string meaning — null, true/false, YAML 1.1 bools, "
           "special floats, numeric prefixes / exponents / separators, the merge key, the parser's document indicators — is covered "
           "by the writer's must-quote predicates, which both the key and the value emitters consult and whose `unsafe` answer "
           "dominates every raw write; blank-at-either-end and leading-BOM guards are two-sided; the quoted emitters escape "
           "backslash, quote and every control character (⊇ break set); block-scalar headers are written only behind a guard that "
           "rejects every control character other than LF/TAB. Declared not applicable and NOT decided: round-trip identity of "
           "strings / floats / integers / bytes, float text grammar, block-scalar indentation and chomping."),
    note=_NOTE, technique="static analysis: literal-table / alphabet extraction from MIR (crate and dependency) and reader-writer agreement rules")
CLAIMED["C20"] = dict(
    level=("Static decision of the structural clauses: reserved wrapper names emitted by the wrappers' Serialize impls equal the names "
           "intercepted by the emitter per serde method (with agreeing tuple arities); inline-comment text neutralises ⊇ the parser's "
           "break set, is staged only outside flow context, cleared after the wrapped value on every non-error path and consumed "
           "only by the end-of-scalar writer outside flow; block-scalar headers and folded bodies are written only by the guarded "
           "emitter; the six wrappers' Deserialize impls hand the deserializer once, untouched, to the inner type and only wrap "
           "the result. Not decided: layout-only effect of options and wrappers on arbitrary values."),
    note=_NOTE, technique="static analysis: name-table agreement, sanitiser-alphabet inclusion, save/clear pairing and delegation-shape rules on MIR")

CLAIMED["C05"] = dict(
    level=("Static decision (BALANCE) over every CFG path of the streaming deserializer: a census of all functions that consume a "
           "container-start event, each held to its reviewed obligation — deserialize_seq / bytes / unit_struct / option succeed only "
           "through the edge on which the matching end event was seen; MapAccess answers None only after the MappingEnd, SeqAccess "
           "only at the SequenceEnd; next_value_seed is guarded by have_key; the four VariantAccess methods reach expect_map_end on "
           "every success path in `{Variant: payload}` mode and every unit_variant accepts only an absent / null-like payload; "
           "expect_*_start succeed only on their own event; single-document entries reject leftovers. Not decided: that every Rust "
           "position is filled from the corresponding node (semantics of arbitrary serde visitors)."),
    note=_NOTE, technique="static analysis: MIR edge-dominance (end-of-container verified before success), consumer census, sibling agreement")

CLAIMED["C03"] = dict(
    level=("Static decision of the structural clauses of C03: the merge-key predicate tests exactly {one event, plain, untagged, `<<`} "
           "and the budget's merge-key counter tests the same triple; both merge-value expanders agree per event kind on the "
           "outcome class (null → nothing, other scalar → merge-value error, mapping → entries, sequence → per-element expansion, "
           "ends / consumed → merge-value error, EOF → error) and the mapping collector rejects a non-mapping and recognises nested "
           "merges; merge expansion runs only for keys the predicate accepts and a merge entry is never delivered as a key; while "
           "flushing merges the duplicate-key policy is bypassed and already-seen keys are skipped silently. Deliberately not "
           "decided: the precedence order (a frozen-fragment rule) and equality with the explicitly merged mapping."),
    note=_NOTE, technique="static analysis: predicate-table agreement, sibling outcome-class agreement and guard-dominance rules on MIR")
CLAIMED["C04"] = dict(
    level=("Static decision of the structural clauses of C04: both policy-dispatch sites (buffered / live) agree per policy — Error ∧ "
           "duplicate must-pass the duplicate-key error located at the key node; FirstWins ∧ duplicate delivers nothing and, live, "
           "skips exactly one node (buffered: consumes nothing); LastWins has no duplicate test; the fingerprint is looked up and "
           "inserted before every delivery; the three node-skipping loops are balanced depth automata (+1 both starts, −1 both "
           "ends, 0 scalars, enter at 1, exit at 0); KeyFingerprint derives PartialEq/Eq/Hash together and its scalar variant "
           "carries the text, the tag kind and the text of an application tag — nothing positional. Not decided: equality of fingerprints for all structurally equal nodes; result equality "
           "with de-duplicated renderings."),
    note=_NOTE, technique="static analysis: sibling agreement of policy dispatch, depth-automaton abstraction of skipping loops, type-table rules on MIR / ADT facts")

CLAIMED["C17"] = dict(
    level=("Static decision (choke-point / who-may-call / local dataflow) that every byte of a rendered report passes a sanitiser: the "
           "Display and render* paths reach the renderers only through fmt_error_rendered, which writes exclusively through the "
           "TerminalSafe fmt::Write adapter (constructed nowhere else); the unsanitised renderers (7 default / 10 with features) are "
           "called only by each other and by the adapter's inner Display; the adapter forwards a chunk unchanged only on the `clean` "
           "edge of the predicate and otherwise forwards the sanitiser's output; predicate and sanitiser agree on C0 / DEL / C1 with "
           "exactly LF and TAB exempt; the miette adapter's source, messages and labels derive only from sanitised, constant or "
           "numeric text; the three window computations use the same two lines of context. Declared not applicable and not decided: "
           "horizontal cropping arithmetic and marker placement; panics in renderers are C01's."),
    note=_NOTE, technique="static analysis: call-graph choke-point (who-may-call) + backward value-provenance (taint) rules on MIR, sibling constant agreement")

CLAIMED["C15"] = dict(
    level=("Static census and guard discipline: every static / thread-local with interior mutability (4 logical items) is in a "
           "reviewed table and any addition is a violation; the anchor store is mutated only by 7 reviewed functions of its own "
           "module; with_document_scope takes the whole state out (mem::take at the state's own type), constructs a guard (whose Drop puts back what was taken with a whole-state mem::replace, handing the finished state out of the borrow) before "
           "the user closure, drops it on every normal path and on the unwind edge; with_anchor_context pushes and guards likewise; "
           "the fallback cell is written only by its guard, every guard is bound to a named local or the fallback_guard field and "
           "restores the saved value; no guard type is Clone / Copy and nothing calls mem::forget / ManuallyDrop::new / Box::leak "
           "(matcher self-checked); user code runs only inside a scope; every iteration over a randomly seeded hash collection is "
           "order-normalised or order-independent. Not decided: equality of results across call histories (runtime)."),
    note=_NOTE, technique="static analysis: hidden-state census over rustc's static tables, who-writes rules, guard construction / drop (incl. unwind-edge) dominance on MIR")

CLAIMED["C16"] = dict(
    level=("Static decision of the structural clauses: both mark-to-location constructors agree on line() unchanged, col() + 1 and "
           "index() as character offset, with byte info only from the parser's byte offsets; the span-carrying wrapper captures "
           "definition site and use site before the visitor runs; every element / value / variant-payload site (4 default, 7 with "
           "features) captures both locations before the nested deserialization and maps its error through "
           "attach_alias_locations_if_missing in (use-site, definition-site) order; for each of the 49 error variants carrying a "
           "location, with_location writes it and location() / locations() read it; serde's five static constructors attach the "
           "fallback location. Declared not applicable: that coordinates denote the same text position, span == node text, "
           "use/definition correctness through arbitrary nesting (runtime facts about parser marks)."),
    note=_NOTE, technique="static analysis: sibling agreement of constructors, capture-before-consume dominance, per-variant get/set table from MIR + ADT facts")

CLAIMED["C14"] = dict(
    level=("Static three-way table agreement for the eight anchor wrappers: reserved name passed to deserialize_newtype_struct ↔ the "
           "AnchorKind context the deserializer's arm for that name enters (with the node's own peeked anchor id) ↔ the anchor_store "
           "accessors the wrapper's visitor uses ↔ the kind literal / store field each accessor's body touches (16 accessors, each "
           "consistent with its name); strong wrappers store their allocation exactly once, weak wrappers never store and consume "
           "the replayed node; the serializer allocates ids from the captured pointer in a pointer-keyed table, stages the "
           "definition on first sight and the alias on later sights, and every wrapper writes the allocation's address (as_ptr) "
           "as its first field; one identity scope per document. Not decided: pointer-equality classes after a round trip."),
    note=_NOTE, technique="static analysis: multi-way name / kind / accessor / field table agreement extracted from MIR, define-then-alias dominance")

CLAIMED["C13"] = dict(
    level=("Narrow static decision (PAIR): the 12 save/restore pairs of emitter layout state in the serializer (a YamlSerializer field "
           "copied into a named local, swapped out through Option::replace / take, or bumped as a counter) are each written back on "
           "every non-error path from the save to a return on which the field was overwritten — decided by an explicit path search "
           "over the MIR CFG with same-predicate correlation; both *_with_options entry points validate and propagate "
           "options.consistent() before constructing the serializer. Declared not applicable and NOT decided: well-formedness of "
           "the emitted document and equality of the re-parsed value for every shape x option vector."),
    note=_NOTE, technique="static analysis: save/restore pairing by path search over the MIR control-flow graph (branch-correlated)")

CLAIMED["C19"] = dict(
    level=("Static decision of the totality clauses of the expression evaluator in every configuration that compiles it: each recursive "
           "cycle of the parser's call graph passes through expr and both re-entries into expr are reached only on the success edge "
           "of enter(); exit() follows the nested expression on every path including its error path; enter() rejects at depth >= "
           "limit before incrementing; all six digit-cap comparisons reject on exceeding the cap; every loop cycle advances a cursor; "
           "the evaluator is reached only on the angle_conversions edge, has one caller, and rejects trailing characters; without "
           "the option the plain str::parse path is taken. Not decided: IEEE-754 exactness, precedence, unit arithmetic."),
    note=_NOTE + " Needs the `robotics` feature: decided in the `full` (quick) and `robotics` (thorough) configurations.",
    technique="static analysis: recursion-cycle census with guard dominance, enter/exit pairing, limit-compare and loop-progress (SCC) rules on MIR")

CLAIMED["C18"] = dict(
    level=("Static decision of the structural clauses in the configurations that enable garde / validator: each of the 8 validating "
           "entry points attaches a path recorder to the root deserializer, validates before every success result, builds the "
           "validation error from that document's recorder map; stream variants collect failures without returning inside the loop "
           "and build the aggregate after finish(); validating iterators neither end nor skip after a validation failure; all plain "
           "protocol steps (options threaded, scope, finish, second-document check) hold for them as for the plain entries; the three "
           "path-segment pushes inside the deserializer are popped on every path to return, and the recorded pair is the element's "
           "own (use-site, definition-site). Not decided: that paths resolve to the right positions for every rename / alias / merge "
           "shape (PathMap::search)."),
    note=_NOTE + " Needs `garde` / `validator`: decided in the `full` (quick) and `garde`, `validator` (thorough) configurations.",
    technique="static analysis: sibling agreement over the entry-point protocol, must-not-return-in-loop reachability, save/restore path search on MIR")

CLAIMED["C01"] = dict(
    level=("Static census with tiered discharge over everything that can run while deserializing or rendering (all modules but the "
           "serializer's; 293 panic-capable constructs in the default configuration, 363 with all features): tier 1 generic guards "
           "recognised from the CFG (constant operands, small-constant increments of 64-bit counters, sums of in-memory lengths, "
           "subtractions / indices dominated by the matching comparison, non-zero constant divisors, pointer checks under "
           "forbid(unsafe_code)); tier 2 invariant rules (peek-then-take, KeyNode::Scalar construction, slice after starts_with, "
           "index after ensure-capacity / resize, bounds after length check, anchor-store borrow scope); tier 3 a reviewed table "
           "keyed by function / construct / operands, with stale rows reported. Every loop of the pump, skipper, iterators, mapping "
           "access and capture / skip helpers makes progress on each cycle; every recursive cycle of the crate-local call graph is "
           "reviewed; parser pulls are converted, never unwrapped; the default budget bounds depth by a small constant. NOT decided "
           "(declared n/a in DESIGN): stack exhaustion at the depth limit, allocation failure, panics / hangs inside dependencies; "
           "tier-3 rows are a reading, not a proof."),
    note=_NOTE + " Tier-3 reasons in ssrules/tables/C01_reviewed.json are human review.",
    technique="static analysis: panic-site census over MIR assert / call terminators with guard-dominance discharge, invariant rules, loop-progress (SCC) and recursion-cycle census")

# Rules added after the seeded-change rounds (DESIGN section 9) — appended to the level statements
_ADDED = {
    "C01": " Also: a loop driven by Read::read leaves the loop on a zero-length read (two idioms). The PANIC review rows name their operands (no per-function blanket); index sites of the byte-window trim are discharged by an invariant rule (index = V - 1, V only len() or a decrement of itself). A loop that pulls from the parser leaves it on an `Err` item (the parser repeats a scan error forever). The anchor store's borrows run no user code, borrow nothing again and drop no stored value (invariant rule, F58).",
    "C02": " Also (RECORD:seed): on the anchored edge the recording frame {id, depth 1, seeded with the start event} is pushed before record() is told to skip the last frame, and record() skips exactly that frame. An anchor on `<<` does not change what the key is (is_merge_key judges every KeyNode variant by its events). The per-document anchor table is cleared whole (the clearing loop runs over the field, not a sub-range).",
    "C03": " Also: every own key handed to the visitor is recorded in the seen-set first, unconditionally. Every captured element of a merge sequence is classified by the recursive expansion; a `!!str` scalar is not a null merge value; is_merge_key is variant-blind. Lists of pending entries are built by appending only (no in-place overwrite, removal, de-duplication or sort anywhere in the deserializer).",
    "C05": " Also (OWN-NODE): VariantAccess methods touch the shared event stream only in `{Variant: payload}` mode; option null-likeness shares C06's STYLE rule. The streaming SeqAccess never hands the SequenceEnd event to an element seed; the !!binary byte view rejects surplus bytes; re-emitted scalar payloads keep their tag or have none. A replayed container holds every element delivered while it was recorded (shared RECORD rule).",
    "C06": " Also (ORDER): deserialize_any attempts null, bool, int, float, string in that order. Every null-likeness test of the deserializer is accompanied by a `!!str` test on every path; every possibly-true answer of scalar_is_nullish lies behind the Plain edge; every core tag is reached by its shorthand, local and verbatim spelling. decode_val knows the 64 symbols of the base64 alphabet and no other byte; the value narrowed by try_from derives from a digit accumulator on every alternative of its value path.",
    "C07": " Also (SLOT): a replayed alias gives its key/value slot back to the replayed node before the replay is scheduled, and only then. The alias/anchor ratio is evaluated only at the end of a counting unit (finalize, or DocumentEnd under per-document enforcement) and there for every document; total_scalar_bytes grows by len(text) at every increment (followed through helpers and callers).",
    "C08": " Also: every replayed event is counted (by exactly 1) and compared before it is handed on. A replayed scalar is charged its full text length (shared operand rule). finish(), which drops the budget enforcer, is called by the reviewed entry points / iterators only, and nothing else takes the enforcer.",
    "C09": " Also (CHUNK): partial reads of a character's continuation bytes are retried in a loop that writes behind the bytes received. Byte offsets (absent for reader input) are read only by the Span accessors / Spanned exposure / miette conversion; the BOM is stripped exactly once on the way to the parser. Every construction of the event source passes stop_at_doc_end = false.",
    "C10": " Also (TAKE-ONCE): the stored I/O error is never taken after seen_doc_end was set in the same pump call (interprocedural set / take ordering). The reader's byte limit is max_reader_input_bytes through Option plumbing only, passed on and stored unchanged; the only silent end of input is the Ok(0) edge of the first-byte read (F59); a reader failure is latched and skip_to_next_document finds no next document after it (F60).",
    "C12": " Also: bare float words derived from the reader's core-parse fallback, Unicode edge blanks (sibling of str::trim), the block indentation indicator is relative and step-guarded and decided on the first non-empty line, long keys take the explicit form. The two float writers only append and emit the same pieces.",
    "C13": " Also: HINT-RESET, SIBLING over the dash emitters and the variant positioners, and ALIGN / EMPTY, whose four sites are the recorded known findings K1 / K2 (printed as KNOWN-FINDING lines). serialize_newtype_variant clears pending_inline_map on every path to the payload. Every writer of an anchor / alias mark indents first when the line is at its start (itself or at each call site); the deeper indentation of an empty `[]` is decided from current_map_depth and depth alone. (KEYSINK) Among the methods of the scalar-key sink only serialize_str — the one holding the quoting analysis — writes caller-supplied text; variant names and chars are handed to it.",
    "C14": " Also (PLACEHOLDER): the null delivered for a cyclic alias carries the alias's anchor id. the document scope swaps the whole anchor state out and back (shared with C15: STATE:scope-swaps-whole-state). The variant emitters consume a staged anchor for the variant's own node before writing its label (F61); the scalar emitters consume it before their text, through whichever helper does.",
    "C15": " Also: every guard's Drop performs its restore on every path. The document scope sets the enclosing call's error-location fallback aside (also on unwinding); reset-complete is a path rule per field. with_document_scope takes the whole anchor state out (mem::take at the state's own type) and its guard puts back exactly what was taken (F57).",
    "C16": " Also (USE-SITE): both event sources consult their use-site override before any other condition. A function that has a use-site parameter builds its replay source with it; reference-less replays are a reviewed table. No path from a consuming call reaches a reference_location() read without a peek(); a node captured and replayed where it is used is replayed at_use_site, fed by a use-site read (F62). at_use_site decides `reached through an alias` by comparing whole locations, never a component.",
    "C17": " Also (COLUMN): the two-sided cropper is applied to context lines only, so the stored error line keeps the prefix the renderer indexes. The secondary window measures the caret on the text returned by the cropper and formats every line with the gutter width. Bytes enter the reader's recent-bytes window through push_ring_bytes only, which counts evicted newlines.",
    "C18": " Also (USE-SITE, shared with C16). The validator error-tree walker hands every child its own path (shared reference, or every pushed segment popped before the same push runs again).",
    "C19": " Also (IDENTITY): expr / term initialise their result from the nested call's value without arithmetic. Parenthesised groups and signs pass the unit flags of their sub-expression on unchanged. A sexagesimal literal multiplies by DEG2RAD only outside unit functions. (OPERATOR) Every binary operator of a level is applied to the accumulator inside the loop, with the operand exactly as the nested call returned it: no arithmetic on operand values elsewhere (left-to-right grouping, a necessary condition of the IEEE result of a/b/c).",
    "C20": " Also (FLOW-KEY): keys of a flow mapping are tested with the flow rules. The key / label quoting rule is used only where `:` follows; the variant serializers write their block form only outside flow collections and open `{Variant: …}` inside. Comment staging / writing is guarded by any form of the in_flow == 0 test; the empty-sequence indentation rule is shared with C13.",
    "C04": " An already-seen key is dropped silently only while flushing merges or under FirstWins; the live duplicate-key error is located at the key's use-site read before it is captured. A scalar key's application tag enters its fingerprint as the raw tag text through Option / string plumbing only.",
    "C11": " The per-document RESET rule of the enforcer is part of this check (shared with C07). Every fallible step of Events::next is a step of Events::peek; the per-document tables are cleared whole.",
}

NOT_APPLICABLE = {("C%02d" % i): _NB for i in range(1, 21) if ("C%02d" % i) not in CLAIMED}

CLAIMED["C10"] = dict(
    level=("Static decision over every CFG path: every non-EOF `None` of the reader's char iterator is dominated by a store into the "
           "shared error cell (7 exits, 6 stores); the byte cap is compared strictly on a non-wrapping running total before "
           "delivery; one Rc cell is shared by iterator and event source; next/peek/finish check the cell first; every success path "
           "of every reader entry point (incl. the three iterators) passes finish(); no fallible result of the event source or of a "
           "writer is discarded on a path that can still succeed (crate-wide census); the io::Write adapter stores the error before "
           "failing and the entry point returns it. Not decided: prefix property of partial output, exact bytes pulled."),
    note=_NOTE,
    technique="static analysis: MIR dominance / must-pass-through / discard (unused fallible result) census / strict-compare rules")

CLAIMED["C08"] = dict(
    level=("Static decision over every CFG path of the event source: the three alias limits are compared strictly with their own "
           "counters and produce their own errors; the per-anchor and stack-depth checks dominate the replay-frame push; the "
           "total-replayed check and the budget observation dominate every replayed delivery; counters advance with checked / "
           "saturating adds and are written only by the pump and the document reset; only the event source constructs and pulls "
           "the parser. Not decided (declared n/a in DESIGN §4): peak heap and visitor-call scaling laws."),
    note=_NOTE, technique="static analysis: MIR counter/limit pairing, dominance, who-writes / who-calls census")
CLAIMED["C11"] = dict(
    level=("Static decision over every CFG path: every per-document field written by the event pump is cleared by the document "
           "reset, which runs on both boundary arms of the pump and of the skip path; user code runs in exactly one anchor scope "
           "per document, opened inside the document loop; every single-document entry point turns a second document into the "
           "multiple-documents error before finishing; the three streaming iterators test `finished` first, set it on every "
           "stream-ending path, skip only null-like roots and only failed documents, and every loop consumes an event. Not "
           "decided: equality with per-document deserialization, the exact resume position."),
    note=_NOTE, technique="static analysis: MIR reset-completeness, must-pass-through, loop-progress (SCC) and sibling-agreement rules")
CLAIMED["C02"] = dict(
    level=("Static decision over every CFG path of the event pump: a replay frame is pushed only after the anchor-exists and "
           "not-being-recorded checks (whose failing edges are the unknown-anchor / recursive-reference errors); every delivered "
           "event except the synthetic empty-document scalar is recorded into the open anchor frames with the depth bump before "
           "starts and the frame close after ends; buffers are stored at the node's own anchor id; the parser is pulled only when "
           "the replay stack is empty; anchors are cleared at every document boundary. Not decided: equality with the alias-free "
           "expansion (a statement about event sequences)."),
    note=_NOTE, technique="static analysis: MIR guard-dominance and must-pass-through rules over the alias/anchor state machine")

CLAIMED["C09"] = dict(
    level=("Static decision over every CFG path plus compile-fail witnesses: all entry points (6 default / 13 with features) thread "
           "the four option components and a Cfg derived from their own Options, run user code inside the document scope and "
           "finish; the string constructor is the only place a string parser is built and strips one leading U+FEFF for parser "
           "and borrow source alike, and snippet text agrees with parser text; every from_slice* validates UTF-8 with the "
           "dedicated error and delegates; the reader's decoder sniffs BOMs with no override; visit_borrowed_str only receives "
           "the payload of the parser's Cow::Borrowed; every exported io::Read entry bounds its output by DeserializeOwned or a "
           "higher-ranked closure, and three borrowed-from-reader programs fail to compile while their owned twins compile. "
           "Not decided: equality of values / error positions across chunkings."),
    note=_NOTE + " The witnesses additionally trust rustdoc's compile_fail doctest runner (nightly).",
    technique="static analysis: MIR protocol / sibling-agreement / provenance rules + rustdoc compile_fail witnesses with compiling twins")
WITNESS_PROPS.append("C09")

CLAIMED["C06"] = dict(
    level=("Static decision over the resolved MIR of the scalar layer: the five integer-parsing functions use only checked 128-bit "
           "arithmetic, widening casts and fallible TryFrom narrowing (every returned value derives from try_from); the 12 typed "
           "entry points call the parser instantiated at their own type, pass their own label and cfg switch, and hand the value "
           "to the matching visit_X; the bool / null / special-float literal sets, their polarity and the radix prefixes equal the "
           "documented tables; non-plain scalars are never null-like / number-like; Cfg::from_options wires each switch to its own "
           "option and each switch is read only in its documented functions; base64 padding masks, length and pad-position checks "
           "reject. Not decided: the mathematically exact value for every token, float parsing (core's str::parse)."),
    note=_NOTE, technique="static analysis: MIR arithmetic-discipline, literal-table extraction / agreement, option-wiring and guard-dominance rules")

CLAIMED["C12"] = dict(
    level=("Narrow static decision (TABLE agreement between reader and writer, extracted from the MIR of both and of the pinned "
           "parser): every plain-token class to which the reader gives a non-string meaning — null, true/false, YAML 1.1 bools, "
           "special floats, numeric prefixes / exponents / separators, the merge key, the parser's document indicators — is covered "
           "by the writer's must-quote predicates, which both the key and the value emitters consult and whose `unsafe` answer "
           "dominates every raw write; blank-at-either-end and leading-BOM guards are two-sided; the quoted emitters escape "
           "backslash, quote and every control character (⊇ break set); block-scalar headers are written only behind a guard that "
           "rejects every control character other than LF/TAB. Declared not applicable and NOT decided: round-trip identity of "
           "strings / floats / integers / bytes, float text grammar, block-scalar indentation and chomping."),
    note=_NOTE, technique="static analysis: literal-table / alphabet extraction from MIR (crate and dependency) and reader-writer agreement rules")
CLAIMED["C20"] = dict(
    level=("Static decision of the structural clauses: reserved wrapper names emitted by the wrappers' Serialize impls equal the names "
           "intercepted by the emitter per serde method (with agreeing tuple arities); inline-comment text neutralises ⊇ the parser's "
           "break set, is staged only outside flow context, cleared after the wrapped value on every non-error path and consumed "
           "only by the end-of-scalar writer outside flow; block-scalar headers and folded bodies are written only by the guarded "
           "emitter; the six wrappers' Deserialize impls hand the deserializer once, untouched, to the inner type and only wrap "
           "the result. Not decided: layout-only effect of options and wrappers on arbitrary values."),
    note=_NOTE, technique="static analysis: name-table agreement, sanitiser-alphabet inclusion, save/clear pairing and delegation-shape rules on MIR")

CLAIMED["C05"] = dict(
    level=("Static decision (BALANCE) over every CFG path of the streaming deserializer: a census of all functions that consume a "
           "container-start event, each held to its reviewed obligation — deserialize_seq / bytes / unit_struct / option succeed only "
           "through the edge on which the matching end event was seen; MapAccess answers None only after the MappingEnd, SeqAccess "
           "only at the SequenceEnd; next_value_seed is guarded by have_key; the four VariantAccess methods reach expect_map_end on "
           "every success path in `{Variant: payload}` mode and every unit_variant accepts only an absent / null-like payload; "
           "expect_*_start succeed only on their own event; single-document entries reject leftovers. Not decided: that every Rust "
           "position is filled from the corresponding node (semantics of arbitrary serde visitors)."),
    note=_NOTE, technique="static analysis: MIR edge-dominance (end-of-container verified before success), consumer census, sibling agreement")

CLAIMED["C03"] = dict(
    level=("Static decision of the structural clauses of C03: the merge-key predicate tests exactly {one event, plain, untagged, `<<`} "
           "and the budget's merge-key counter tests the same triple; both merge-value expanders agree per event kind on the "
           "outcome class (null → nothing, other scalar → merge-value error, mapping → entries, sequence → per-element expansion, "
           "ends / consumed → merge-value error, EOF → error) and the mapping collector rejects a non-mapping and recognises nested "
           "merges; merge expansion runs only for keys the predicate accepts and a merge entry is never delivered as a key; while "
           "flushing merges the duplicate-key policy is bypassed and already-seen keys are skipped silently. Deliberately not "
           "decided: the precedence order (a frozen-fragment rule) and equality with the explicitly merged mapping."),
    note=_NOTE, technique="static analysis: predicate-table agreement, sibling outcome-class agreement and guard-dominance rules on MIR")
CLAIMED["C04"] = dict(
    level=("Static decision of the structural clauses of C04: both policy-dispatch sites (buffered / live) agree per policy — Error ∧ "
           "duplicate must-pass the duplicate-key error located at the key node; FirstWins ∧ duplicate delivers nothing and, live, "
           "skips exactly one node (buffered: consumes nothing); LastWins has no duplicate test; the fingerprint is looked up and "
           "inserted before every delivery; the three node-skipping loops are balanced depth automata (+1 both starts, −1 both "
           "ends, 0 scalars, enter at 1, exit at 0); KeyFingerprint derives PartialEq/Eq/Hash together and its scalar variant "
           "carries the text, the tag kind and the text of an application tag — nothing positional. Not decided: equality of fingerprints for all structurally equal nodes; result equality "
           "with de-duplicated renderings."),
    note=_NOTE, technique="static analysis: sibling agreement of policy dispatch, depth-automaton abstraction of skipping loops, type-table rules on MIR / ADT facts")

CLAIMED["C17"] = dict(
    level=("Static decision (choke-point / who-may-call / local dataflow) that every byte of a rendered report passes a sanitiser: the "
           "Display and render* paths reach the renderers only through fmt_error_rendered, which writes exclusively through the "
           "TerminalSafe fmt::Write adapter (constructed nowhere else); the unsanitised renderers (7 default / 10 with features) are "
           "called only by each other and by the adapter's inner Display; the adapter forwards a chunk unchanged only on the `clean` "
           "edge of the predicate and otherwise forwards the sanitiser's output; predicate and sanitiser agree on C0 / DEL / C1 with "
           "exactly LF and TAB exempt; the miette adapter's source, messages and labels derive only from sanitised, constant or "
           "numeric text; the three window computations use the same two lines of context. Declared not applicable and not decided: "
           "horizontal cropping arithmetic and marker placement; panics in renderers are C01's."),
    note=_NOTE, technique="static analysis: call-graph choke-point (who-may-call) + backward value-provenance (taint) rules on MIR, sibling constant agreement")

CLAIMED["C15"] = dict(
    level=("Static census and guard discipline: every static / thread-local with interior mutability (4 logical items) is in a "
           "reviewed table and any addition is a violation; the anchor store is mutated only by 7 reviewed functions of its own "
           "module; with_document_scope takes the whole state out (mem::take at the state's own type), constructs a guard (whose Drop puts back what was taken with a whole-state mem::replace, handing the finished state out of the borrow) before "
           "the user closure, drops it on every normal path and on the unwind edge; with_anchor_context pushes and guards likewise; "
           "the fallback cell is written only by its guard, every guard is bound to a named local or the fallback_guard field and "
           "restores the saved value; no guard type is Clone / Copy and nothing calls mem::forget / ManuallyDrop::new / Box::leak "
           "(matcher self-checked); user code runs only inside a scope; every iteration over a randomly seeded hash collection is "
           "order-normalised or order-independent. Not decided: equality of results across call histories (runtime)."),
    note=_NOTE, technique="static analysis: hidden-state census over rustc's static tables, who-writes rules, guard construction / drop (incl. unwind-edge) dominance on MIR")

CLAIMED["C16"] = dict(
    level=("Static decision of the structural clauses: both mark-to-location constructors agree on line() unchanged, col() + 1 and "
           "index() as character offset, with byte info only from the parser's byte offsets; the span-carrying wrapper captures "
           "definition site and use site before the visitor runs; every element / value / variant-payload site (4 default, 7 with "
           "features) captures both locations before the nested deserialization and maps its error through "
           "attach_alias_locations_if_missing in (use-site, definition-site) order; for each of the 49 error variants carrying a "
           "location, with_location writes it and location() / locations() read it; serde's five static constructors attach the "
           "fallback location. Declared not applicable: that coordinates denote the same text position, span == node text, "
           "use/definition correctness through arbitrary nesting (runtime facts about parser marks)."),
    note=_NOTE, technique="static analysis: sibling agreement of constructors, capture-before-consume dominance, per-variant get/set table from MIR + ADT facts")

CLAIMED["C14"] = dict(
    level=("Static three-way table agreement for the eight anchor wrappers: reserved name passed to deserialize_newtype_struct ↔ the "
           "AnchorKind context the deserializer's arm for that name enters (with the node's own peeked anchor id) ↔ the anchor_store "
           "accessors the wrapper's visitor uses ↔ the kind literal / store field each accessor's body touches (16 accessors, each "
           "consistent with its name); strong wrappers store their allocation exactly once, weak wrappers never store and consume "
           "the replayed node; the serializer allocates ids from the captured pointer in a pointer-keyed table, stages the "
           "definition on first sight and the alias on later sights, and every wrapper writes the allocation's address (as_ptr) "
           "as its first field; one identity scope per document. Not decided: pointer-equality classes after a round trip."),
    note=_NOTE, technique="static analysis: multi-way name / kind / accessor / field table agreement extracted from MIR, define-then-alias dominance")

CLAIMED["C13"] = dict(
    level=("Narrow static decision (PAIR): the 12 save/restore pairs of emitter layout state in the serializer (a YamlSerializer field "
           "copied into a named local, swapped out through Option::replace / take, or bumped as a counter) are each written back on "
           "every non-error path from the save to a return on which the field was overwritten — decided by an explicit path search "
           "over the MIR CFG with same-predicate correlation; both *_with_options entry points validate and propagate "
           "options.consistent() before constructing the serializer. Declared not applicable and NOT decided: well-formedness of "
           "the emitted document and equality of the re-parsed value for every shape x option vector."),
    note=_NOTE, technique="static analysis: save/restore pairing by path search over the MIR control-flow graph (branch-correlated)")

CLAIMED["C19"] = dict(
    level=("Static decision of the totality clauses of the expression evaluator in every configuration that compiles it: each recursive "
           "cycle of the parser's call graph passes through expr and both re-entries into expr are reached only on the success edge "
           "of enter(); exit() follows the nested expression on every path including its error path; enter() rejects at depth >= "
           "limit before incrementing; all six digit-cap comparisons reject on exceeding the cap; every loop cycle advances a cursor; "
           "the evaluator is reached only on the angle_conversions edge, has one caller, and rejects trailing characters; without "
           "the option the plain str::parse path is taken. Not decided: IEEE-754 exactness, precedence, unit arithmetic."),
    note=_NOTE + " Needs the `robotics` feature: decided in the `full` (quick) and `robotics` (thorough) configurations.",
    technique="static analysis: recursion-cycle census with guard dominance, enter/exit pairing, limit-compare and loop-progress (SCC) rules on MIR")

CLAIMED["C18"] = dict(
    level=("Static decision of the structural clauses in the configurations that enable garde / validator: each of the 8 validating "
           "entry points attaches a path recorder to the root deserializer, validates before every success result, builds the "
           "validation error from that document's recorder map; stream variants collect failures without returning inside the loop "
           "and build the aggregate after finish(); validating iterators neither end nor skip after a validation failure; all plain "
           "protocol steps (options threaded, scope, finish, second-document check) hold for them as for the plain entries; the three "
           "path-segment pushes inside the deserializer are popped on every path to return, and the recorded pair is the element's "
           "own (use-site, definition-site). Not decided: that paths resolve to the right positions for every rename / alias / merge "
           "shape (PathMap::search)."),
    note=_NOTE + " Needs `garde` / `validator`: decided in the `full` (quick) and `garde`, `validator` (thorough) configurations.",
    technique="static analysis: sibling agreement over the entry-point protocol, must-not-return-in-loop reachability, save/restore path search on MIR")

CLAIMED["C01"] = dict(
    level=("Static census with tiered discharge over everything that can run while deserializing or rendering (all modules but the "
           "serializer's; 293 panic-capable constructs in the default configuration, 363 with all features): tier 1 generic guards "
           "recognised from the CFG (constant operands, small-constant increments of 64-bit counters, sums of in-memory lengths, "
           "subtractions / indices dominated by the matching comparison, non-zero constant divisors, pointer checks under "
           "forbid(unsafe_code)); tier 2 invariant rules (peek-then-take, KeyNode::Scalar construction, slice after starts_with, "
           "index after ensure-capacity / resize, bounds after length check, anchor-store borrow scope); tier 3 a reviewed table "
           "keyed by function / construct / operands, with stale rows reported. Every loop of the pump, skipper, iterators, mapping "
           "access and capture / skip helpers makes progress on each cycle; every recursive cycle of the crate-local call graph is "
           "reviewed; parser pulls are converted, never unwrapped; the default budget bounds depth by a small constant. NOT decided "
           "(declared n/a in DESIGN): stack exhaustion at the depth limit, allocation failure, panics / hangs inside dependencies; "
           "tier-3 rows are a reading, not a proof."),
    note=_NOTE + " Tier-3 reasons in ssrules/tables/C01_reviewed.json are human review.",
    technique="static analysis: panic-site census over MIR assert / call terminators with guard-dominance discharge, invariant rules, loop-progress (SCC) and recursion-cycle census")

NOT_APPLICABLE = {("C%02d" % i): _NB for i in range(1, 21) if ("C%02d" % i) not in CLAIMED}

# applied last: several CLAIMED entries are (re)assigned after the _ADDED table above
for _k, _v in _ADDED.items():
    CLAIMED[_k] = dict(CLAIMED[_k], level=CLAIMED[_k]["level"] + _v)
