"""What is claimed, at which level, by which technique (MANIFEST.json is generated from this)."""
HOOK_COMMITS = []
WITNESS_PROPS = []
NOTES = ("Static analysis only: every check re-extracts MIR facts from /repo's current working tree "
         "(cached by tree hash) and decides necessary structural clauses of its property; see DESIGN.md "
         "for what each check does and does not decide.")
_NB = "rule family not built yet (DESIGN.md §8); not claimed through a weaker check"
CLAIMED = {}
_NOTE = ("Trusted base: rustc nightly's MIR construction and callee resolution; the reviewed tables in ssrules/props/*.py; "
         "dependencies (saphyr-parser, serde) behave as documented. A pass means the listed structural obligations hold on "
         "every path of the current tree in the analysed feature configurations, not that the behaviour holds for every input.")
CLAIMED["C07"] = dict(
    level=("Static decision, over every CFG path of the resolved MIR in 2 (quick) / 7 (thorough) feature configurations, of the "
           "necessary structural clauses of C07: strict counter/limit/breach pairing with write->compare coverage (9 limits + ratio "
           "heuristic), per-document reset completeness, observe-before-use of every pulled parser event, kind-preserving budget "
           "observation of replayed events, option threading and finish() on every success path of all entry points, callbacks "
           "before the delayed breach. Not decided: equality of the report with an independent count (runtime quantity)."),
    note=_NOTE,
    technique="static analysis: rustc_private MIR fact extraction + dominance / must-pass-through / counter-limit pairing / reset-completeness rules")

CLAIMED["C10"] = dict(
    level=("Static decision over every CFG path: every non-EOF `None` of the reader's char iterator is dominated by a store into the "
           "shared error cell (7 exits, 6 stores); the byte cap is compared strictly on a non-wrapping running total before "
           "delivery; one Rc cell is shared by iterator and event source; next/peek/finish check the cell first; every success path "
           "of every reader entry point (incl. the three iterators) passes finish(); no fallible result of the event source or of a "
           "writer is discarded on a path that can still succeed (crate-wide census); the io::Write adapter stores the error before "
           "failing and the entry point returns it. Not decided: prefix property of partial output, exact bytes pulled."),
    note=_NOTE,
    technique="static analysis: MIR dominance / must-pass-through / discard (unused fallible result) census / strict-compare rules")

NOT_APPLICABLE = {("C%02d" % i): _NB for i in range(1, 21) if ("C%02d" % i) not in CLAIMED}

CLAIMED["C10"] = dict(
    level=("Static decision over every CFG path: every non-EOF `None` of the reader's char iterator is dominated by a store into the "
           "shared error cell (7 exits, 6 stores); the byte cap is compared strictly on a non-wrapping running total before "
           "delivery; one Rc cell is shared by iterator and event source; next/peek/finish check the cell first; every success path "
           "of every reader entry point (incl. the three iterators) passes finish(); no fallible result of the event source or of a "
           "writer is discarded on a path that can still succeed (crate-wide census); the io::Write adapter stores the error before "
           "failing and the entry point returns it. Not decided: prefix property of partial output, exact bytes pulled."),
    note=_NOTE,
    technique="static analysis: MIR dominance / must-pass-through / discard (unused fallible result) census / strict-compare rules")

NOT_APPLICABLE = {("C%02d" % i): _NB for i in range(1, 21) if ("C%02d" % i) not in CLAIMED}
