"""Obligation bookkeeping, known-findings handling, evidence files, VIOLATION lines."""
import json
import os
import time

from . import facts as factsmod
from .mir import Facts, MissingAnchor

VERIF = factsmod.VERIF


class Ctx:
    def __init__(self, prop, tier, seed):
        self.prop = prop
        self.tier = tier
        self.seed = seed
        self.t0 = time.time()
        self._facts = {}
        self.obligations = []  # dicts: rule,key,config,status,detail,where
        self.notes = []
        self.analysed_fns = set()
        self.call_sites = 0
        self.floors = {}

    # -- facts ----------------------------------------------------------------------------
    @property
    def configs(self):
        if os.environ.get("SS_CONFIGS"):
            return os.environ["SS_CONFIGS"].split(",")
        return list(factsmod.THOROUGH_CONFIGS if self.tier == "thorough" else factsmod.QUICK_CONFIGS)

    def facts(self, config, raw=False):
        """the fact base of one feature configuration, normalised against the confirmed tree (ssrules/normalise.py): calls
        to crate-local functions that did not exist on that tree are inlined into their (known) callers.  `raw=True` gives
        the functions as compiled (whole-crate censuses that must see every function exactly once)."""
        key = (config, raw)
        if key not in self._facts:
            data = factsmod.load(config)
            if not raw:
                from . import normalise
                n, m = normalise.apply(data)
                if n:
                    self.notes.append("%s: normalised: %d call(s) to %d function(s) unknown on the confirmed tree were inlined into their callers" % (config, n, m))
            self._facts[key] = Facts(data)
        return self._facts[key]

    # -- recording ------------------------------------------------------------------------
    def ok(self, rule, key, detail="", config=None, where=None, nontrivial=True):
        self.obligations.append(dict(rule=rule, key=key, config=config, status="ok", detail=detail, where=where, nontrivial=nontrivial))

    def bad(self, rule, key, detail, config=None, where=None):
        self.obligations.append(dict(rule=rule, key=key, config=config, status="violation", detail=detail, where=where, nontrivial=True))

    def check(self, cond, rule, key, detail_ok="", detail_bad="", config=None, where=None):
        if cond:
            self.ok(rule, key, detail_ok, config, where)
        else:
            self.bad(rule, key, detail_bad or detail_ok, config, where)
        return cond

    def floor(self, name, count, minimum, config=None):
        """Instance-count floor: a rule that matches fewer constructs than were confirmed by
        hand fails closed (a rule matching nothing passes vacuously forever)."""
        self.floors["%s[%s]" % (name, config or "*")] = dict(count=count, floor=minimum)
        if count < minimum:
            self.bad("FLOOR", "%s:floor:%s" % (self.prop, name),
                     "rule instance count %d fell below the confirmed floor %d" % (count, minimum), config)
        else:
            self.ok("FLOOR", "%s:floor:%s" % (self.prop, name), "count %d >= floor %d" % (count, minimum), config, nontrivial=False)

    def saw(self, fn):
        self.analysed_fns.add(fn.npath if hasattr(fn, "npath") else str(fn))

    def where(self, fn, b=None, ln=None):
        if ln is None and b is not None:
            t = fn.blocks[b]["term"]
            ln = t.get("ln")
        return "%s:%s (%s)" % (fn.file, ln if ln else fn.lo, fn.npath)


def load_known():
    p = os.path.join(VERIF, "known_findings.json")
    if not os.path.exists(p):
        return {"findings": [], "fixed": []}
    with open(p) as fh:
        return json.load(fh)


def finish(ctx, explanation, assumptions, extra_cov=None):
    known = load_known()
    kf = {(k["property"], k["key"]): k for k in known.get("findings", [])}
    # collapse violations by key
    viol = {}
    for o in ctx.obligations:
        if o["status"] == "violation":
            v = viol.setdefault(o["key"], dict(o, configs=[]))
            if o["config"] and o["config"] not in v["configs"]:
                v["configs"].append(o["config"])
    new = []
    knownhits = []
    for key, v in sorted(viol.items()):
        if (ctx.prop, key) in kf:
            knownhits.append((key, v, kf[(ctx.prop, key)]))
        else:
            new.append((key, v))
    n_obl = len(ctx.obligations)
    n_ok = sum(1 for o in ctx.obligations if o["status"] == "ok")
    distinct_nontrivial = len({(o["rule"], o["key"]) for o in ctx.obligations if o.get("nontrivial")})
    for key, v, k in knownhits:
        print("KNOWN-FINDING: property=%s %s — %s" % (ctx.prop, key, k.get("what", v["detail"])))
    replay = None
    if new:
        rdir = os.environ.get("SS_REPLAY_DIR") or os.path.join(VERIF, "replay")
        os.makedirs(rdir, exist_ok=True)
        replay = os.path.join(rdir, "%s.json" % ctx.prop)
        with open(replay, "w") as fh:
            json.dump([dict(key=k, rule=v["rule"], detail=v["detail"], where=v["where"], configs=v["configs"]) for k, v in new], fh, indent=1)
        for key, v in new:
            print("  violation %s\n      rule=%s at %s\n      %s" % (key, v["rule"], v["where"], v["detail"]))
        print("VIOLATION property=%s replay=%s" % (ctx.prop, replay))
    # samples: actual rule instances
    samples = []
    seen = set()
    for o in ctx.obligations:
        if not o.get("nontrivial"):
            continue
        k = (o["rule"], o["key"])
        if k in seen:
            continue
        seen.add(k)
        samples.append(dict(rule=o["rule"], instance=o["key"], status=o["status"], where=o["where"], detail=(o["detail"] or "")[:300]))
    rules = sorted({o["rule"] for o in ctx.obligations})
    cov = dict(
        explanation=explanation,
        evaluations=n_obl,
        distinct_nontrivial=distinct_nontrivial,
        rule="one evaluation = one rule instance (rule family x concrete construct x feature configuration) decided on the MIR of /repo's current tree; distinct = distinct (rule, construct key); non-trivial = the instance matched at least one construct in the code (floor bookkeeping rows are excluded)",
        obligations=n_obl,
        discharged=n_ok,
        samples=samples[:400],
        rules_applied=rules,
        configs=ctx.configs,
        functions_analysed=len(ctx.analysed_fns),
        functions=sorted(ctx.analysed_fns)[:300],
        floors=ctx.floors,
        known_findings_reported=[k for k, _v, _k in knownhits],
        notes=ctx.notes,
        exhaustive=True,
        tree_hash=factsmod.tree_hash(),
    )
    if extra_cov:
        cov.update(extra_cov)
    ev = dict(
        property_id=ctx.prop,
        tier=ctx.tier,
        seed=ctx.seed,
        level="other",
        coverage=cov,
        assumptions=assumptions,
        wall_s=round(time.time() - ctx.t0, 3),
        violations=len(new),
    )
    edir = os.environ.get("SS_EVIDENCE_DIR") or os.path.join(VERIF, "evidence")
    os.makedirs(edir, exist_ok=True)
    with open(os.path.join(edir, "%s.json" % ctx.prop), "w") as fh:
        json.dump(ev, fh, indent=1, sort_keys=True)
    print("%s [%s]: %d rule instances, %d discharged, %d known finding(s), %d new violation(s); %d functions; configs=%s; %.1fs"
          % (ctx.prop, ctx.tier, n_obl, n_ok, len(knownhits), len(new), len(ctx.analysed_fns), ",".join(ctx.configs), time.time() - ctx.t0))
    return 1 if new else 0
