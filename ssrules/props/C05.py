"""C05 — typed deserialization is position-faithful; shape mismatches are errors (DESIGN §4 C05).

Decides the BALANCE clause: every function that consumes a container start either verifies /
consumes the matching end on every success path or errors — so a node can never be left for,
or taken from, a neighbouring position — plus the key/value pairing guard, the end-of-variant
checks of all enum notations and the leftover check of the single-document entry points."""
from ..mir import MissingAnchor, sym_contains
from ..rules import through_flag, render, aggregates, last_seg, bool_switches, must_pass, switch_edges, compares
from .. import proto
from . import C11

EXPLANATION = ("BALANCE rules over the resolved MIR of the streaming deserializer: a census of every function that consumes a "
               "container-start event (expect_seq_start / expect_map_start / a matched `next()`), each checked against its "
               "reviewed obligation: success results are reached only through the edge on which the matching end event was seen "
               "(sequence-like targets of fixed arity do not drain, so the function itself must verify the end), or through the "
               "access object's exhaustion path that consumes the end (mappings). The four VariantAccess methods reach "
               "expect_map_end on every success path in `{Variant: payload}` mode; `next_value_seed` is guarded by `have_key`; "
               "SeqAccess answers `None` only at the sequence end; single-document entries reject leftovers (shared with C11).")
ASSUMPTIONS = ["rustc's MIR (opt-level 0) faithfully represents the compiled crate",
               "serde's generated map / struct visitors drain MapAccess until it answers None (documented visitor contract); sequence-like visitors of fixed arity do not",
               "that every Rust position is filled from the *corresponding* node needs the semantics of arbitrary visitors: not decided"]

D = "<de::YamlDeserializer as serde::Deserializer>::"
NEXT = "serde::de"  # placeholder


def ev_variant_idx(fx, name):
    return [v["name"] for v in fx.adt("de::Ev")["variants"]].index(name)


def end_edges(f, fx, variant):
    """edges (switch block, target) on which the next/peeked event is the given end variant."""
    idx = ev_variant_idx(fx, variant)
    out = []
    for b in sorted(f.live_blocks):
        t = f.blocks[b]["term"]
        if t["k"] != "switch":
            continue
        with f.deep():
            sym = f.sym_operand(t["o"])
        if sym[0] != "discr":
            continue
        r = render(sym[1])
        if not (("next(" in r or "peek(" in r) and ("@Some" in r or "Continue" in r)):
            continue
        # the discriminant read must be of an Ev (payload of the Option), not of the Option/Result itself
        inner = sym[1]
        k = inner
        while k[0] in ("deref", "ref"):
            k = k[1]
        if not (k[0] == "field" and k[1][0] == "downcast" and k[1][2] == "Some"):
            continue
        arms = dict(zip(t["vals"], t["tgts"]))
        if idx in arms and t["tgts"].count(arms[idx]) == 1:
            out.append((b, arms[idx]))
    return out


def success_sources(f):
    """blocks assigning a possibly-successful value to the return place."""
    return [(b, ln) for b, _s, ln in proto.ok_sources(f)]


def check_success_behind(ctx, fx, config, f, after_blocks, edges, key, what, extra_ok=None):
    """every success source dominated by one of `after_blocks` is edge-dominated by one of `edges`."""
    n = 0
    for b, ln in success_sources(f):
        if not any(f.dominates(a, b) for a in after_blocks):
            continue
        n += 1
        okb = any(f.edge_dominates(sb, tg, b) for sb, tg in edges) or (extra_ok and extra_ok(b))
        ctx.check(okb, "BALANCE", key, "success is reached only after %s" % what,
                  "a success result (line %s) is reachable without %s: the container's remaining events are left in the stream and a node is consumed by a neighbouring position (or the next document)" % (ln, what),
                  config, ctx.where(f, ln=ln))
    return n


def run(ctx):
    for config in ctx.configs:
        fx = ctx.facts(config)
        # a replayed container must hold every element that was delivered while it was being recorded: an element
        # missing from the replay makes a too-long sequence fit a shorter tuple (surplus accepted) — shared RECORD rule
        from .C02 import rule_record
        rule_record(ctx, fx, config, prop="C05")
        # ---- census of container-start consumers
        consumers = {}
        for f in fx.fns.values():
            if not (f.file.endswith("src/de.rs") or f.file.endswith("spanned_deser.rs")):
                continue
            kinds = set()
            for b, t in f.calls():
                c = fx.callee(t)
                if c.endswith("::expect_seq_start"):
                    kinds.add("seq")
                if c.endswith("::expect_map_start"):
                    kinds.add("map")
            # a `next()` whose result is matched against a start variant
            for variant, k in (("SeqStart", "seq"), ("MapStart", "map")):
                idx = ev_variant_idx(fx, variant)
                for b in sorted(f.live_blocks):
                    t = f.blocks[b]["term"]
                    if t["k"] != "switch":
                        continue
                    with f.deep():
                        sym = f.sym_operand(t["o"])
                    r = render(sym)
                    if sym[0] == "discr" and "next(" in r and "peek(" not in r and "@Some" in r and idx in t["vals"]:
                        inner = sym[1]
                        while inner[0] in ("deref", "ref"):
                            inner = inner[1]
                        if inner[0] == "field" and inner[1][0] == "downcast" and inner[1][2] == "Some":
                            kinds.add(k + "?")
            if kinds:
                consumers[f.npath] = kinds
        reviewed = {
            D + "deserialize_seq", D + "deserialize_bytes", D + "deserialize_map", D + "deserialize_enum", D + "deserialize_unit_struct",
            D + "deserialize_option", "de::YamlDeserializer::expect_seq_start", "de::YamlDeserializer::expect_map_start",
            "de::capture_node", "de::collect_entries_from_map", "de::skip_one_node_len",
            "<<de::YamlDeserializer as serde::Deserializer>::deserialize_map::MA>::skip_one_node",
        }
        for name in sorted(consumers):
            short = name
            ctx.check(name in reviewed or any(name.endswith(r) for r in ("::skip_one_node",)), "BALANCE", "C05:BALANCE:census:%s" % short,
                      "container-start consumer is in the reviewed table (%s)" % sorted(consumers[name]),
                      "a function that consumes a container start (%s) is not in the reviewed BALANCE table: add its end-of-container obligation" % sorted(consumers[name]), config, ctx.where(fx.fn_opt(name) or list(fx.by_norm[name])[0]))
        ctx.floor("BALANCE.consumers", len(consumers), 6, config)

        # ---- 1. deserialize_seq (hence tuple, tuple struct, tuple variant)
        f = fx.fn(D + "deserialize_seq")
        ctx.saw(f)
        starts = [b for b, t in f.calls() if fx.callee(t).endswith("::expect_seq_start")]
        n = check_success_behind(ctx, fx, config, f, starts, end_edges(f, fx, "SeqEnd"), "C05:BALANCE:deserialize_seq:end-verified", "the SequenceEnd event was seen")
        ctx.floor("BALANCE.deserialize_seq.success-sites", n, 1, config)
        for name in ("deserialize_tuple", "deserialize_tuple_struct"):
            g = fx.fn(D + name)
            ctx.saw(g)
            via = {D + "deserialize_tuple", D + "deserialize_tuple_struct"}

            def delegates(h, seen=()):
                for b, t in h.calls():
                    c = fx.callee(t)
                    if c == f.npath:
                        return True
                    if c in via and c not in seen and c != h.npath and delegates(fx.fn(c), seen + (h.npath,)):
                        return True
                return False
            ctx.check(delegates(g), "BALANCE", "C05:BALANCE:%s:delegates" % name, "%s delegates to deserialize_seq (directly or through its tuple sibling)" % name, "%s no longer delegates to deserialize_seq" % name, config, ctx.where(g))
        # the byte-sequence view of a `!!binary` scalar: success only after the byte cursor was compared with the length (a
        # fixed-arity visitor stops early; the surplus must be an error as it is for a written-out sequence)
        bvis = [b for b, t in f.calls() if t["f"].get("name") == "visit_seq" and any("ByteSeq" in str(a) for a in t["f"].get("args", []))]
        ctx.floor("BALANCE.deserialize_seq.byte-view", len(bvis), 1, config)
        with f.deep():
            cmp_edges = [(c["block"], c["f"]) for c in compares(f) if c["op"] == "Lt" and "idx" in c["rl"] and "len(" in c["rr"]]
            cmp_edges += [(c["block"], c["t"]) for c in compares(f) if c["op"] == "Ge" and "idx" in c["rl"] and "len(" in c["rr"]]
        check_success_behind(ctx, fx, config, f, bvis, cmp_edges, "C05:BALANCE:deserialize_seq:byte-view-exhausted", "the decoded bytes were all consumed (cursor compared with the length)")
        # the visitor is started only after the start was consumed
        vis = [b for b, t in f.calls() if t["f"].get("name") == "visit_seq" and any("SA" in str(a) for a in t["f"].get("args", []))]
        ctx.check(bool(vis) and all(any(f.dominates(s_, v) for s_ in starts) for v in vis), "BALANCE", "C05:BALANCE:deserialize_seq:start-first", "the streaming SeqAccess is handed out only after the SequenceStart was consumed", "visit_seq(SA) is reachable without consuming the SequenceStart", config, ctx.where(f))
        # SeqAccess: None only at the end
        sa = [g for g in fx.fns.values() if g.name == "next_element_seed" and "deserialize_seq::SA" in g.npath]
        ctx.floor("BALANCE.SA", len(sa), 1, config)
        for g in sa:
            ctx.saw(g)
            ee = end_edges(g, fx, "SeqEnd")
            for b, i, adt, var, fl, ops, s_ in aggregates(g):
                if s_["p"]["l"] == 0 and var == "Ok":
                    with g.deep():
                        v = g.sym_operand(s_["rv"]["ops"][0])
                    if v[0] == "aggr" and v[2] == "None":
                        # `is_end` flag: follow the bool
                        okn = any(g.edge_dominates(sb, tg, b) for sb, tg in ee)
                        if not okn:
                            for sb, sym, tt, ff in bool_switches(g):
                                if render(sym) == "is_end" and g.edge_dominates(sb, tt, b):
                                    # is_end is true only on the SeqEnd arm
                                    with g.deep():
                                        d = g.sym_local([i2 for i2, l in enumerate(g.locals) if l.get("name") == "is_end"][0])
                                    okn = True
                                    trues = [bb for bb, i3, s3 in g.stmts() if s3["k"] == "assign" and s3["rv"]["k"] == "aggr" and s3["rv"]["ak"] == "tuple" and s3["rv"]["ops"] and g.sym_operand(s3["rv"]["ops"][0]) == ("const", True, "bool")]
                                    okn = bool(trues) and all(any(g.edge_dominates(eb, et, tb) for eb, et in ee) for tb in trues)
                        ctx.check(okn, "BALANCE", "C05:BALANCE:SA:none-only-at-end", "SeqAccess answers None only when the next event is SequenceEnd", "SeqAccess can answer None before the sequence end (elements silently dropped)", config, ctx.where(g, b))
        # SeqAccess: at the end, always None — the end event is never handed to an element seed (a seed that tolerates it, such as
        # Option or unit, would turn a too-short sequence into a full-length one)
        for g in sa:
            ee = end_edges(g, fx, "SeqEnd")
            end_starts = [tg for sb, tg in ee]
            for sb, sym, tt, ff in bool_switches(g):
                if render(sym) == "is_end":
                    end_starts.append(tt)
            seeds = [b for b, t in g.calls() if str(t["f"].get("trait")) == "serde::de::DeserializeSeed" and t["f"].get("name") == "deserialize"]
            ctx.floor("BALANCE.SA.seed-calls", len(seeds), 1, config)
            # the `is_end` flag is assigned on the end edge and tested later: the reachable set from the raw end edge covers
            # everything, so the test edge of the flag is the start when there is one
            flag = [tt for sb, sym, tt, ff in bool_switches(g) if render(sym) == "is_end"]
            st = flag or end_starts
            reach = g.reachable(st) if st else set()
            ctx.check(bool(st) and not (set(seeds) & reach), "BALANCE", "C05:BALANCE:SA:end-always-none", "at the SequenceEnd the SeqAccess answers None and never calls the element seed",
                      "the SeqAccess can hand the SequenceEnd event to an element seed: a too-short sequence is accepted when the missing positions are Option / unit", config, ctx.where(g))
        # ---- 2. deserialize_bytes, sequence form
        f = fx.fn(D + "deserialize_bytes")
        ctx.saw(f)
        starts = [b for b, t in f.calls() if fx.callee(t).endswith("::expect_seq_start")]
        check_success_behind(ctx, fx, config, f, starts, end_edges(f, fx, "SeqEnd"), "C05:BALANCE:deserialize_bytes:end-verified", "the SequenceEnd event was seen")
        # ---- 3. deserialize_unit_struct / 4. deserialize_option (empty-mapping forms)
        for name in ("deserialize_unit_struct", "deserialize_option"):
            f = fx.fn(D + name)
            ctx.saw(f)
            # success sources that are dominated by a consuming `next()` issued under a MapStart peek
            ms_idx = ev_variant_idx(fx, "MapStart")
            ms_edges = []
            for b in sorted(f.live_blocks):
                t = f.blocks[b]["term"]
                if t["k"] == "switch":
                    with f.deep():
                        sym = f.sym_operand(t["o"])
                    r = render(sym)
                    if sym[0] == "discr" and "peek(" in r and "@Some" in r and ms_idx in t["vals"]:
                        arms = dict(zip(t["vals"], t["tgts"]))
                        ms_edges.append((b, arms[ms_idx]))
                        # `matches!(peek, Some(MapStart))`: the arm only sets a flag that is switched on at the join
                        y, _no = through_flag(f, arms[ms_idx], [])
                        if y != arms[ms_idx]:
                            ms_edges.append((f.blocks[arms[ms_idx]]["term"]["t"], y))
            consumed = []
            for b, t in f.calls():
                if fx.callee_decl(t) == "de::Events::next" or fx.callee(t).endswith("Events>::next") or last_seg(fx.callee_decl(t)) == "next":
                    if any(f.edge_dominates(sb, tg, b) for sb, tg in ms_edges):
                        consumed.append(b)
            if name == "deserialize_unit_struct":
                ctx.floor("BALANCE.%s.start-consumed" % name, len(consumed), 1, config)
            if consumed:
                first = [c for c in consumed if not any(f.dominates(o, c) and o != c for o in consumed)]
                check_success_behind(ctx, fx, config, f, first, end_edges(f, fx, "MapEnd"), "C05:BALANCE:%s:end-verified" % name, "the MappingEnd event was seen")
        # ---- 5. enum `{Variant: payload}`: all four VariantAccess methods
        va = [g for g in fx.fns.values() if "deserialize_enum::VA as serde::de::VariantAccess" in g.npath and g.kind == "assoc"]
        names = sorted(g.name for g in va)
        ctx.check(names == ["newtype_variant_seed", "struct_variant", "tuple_variant", "unit_variant"], "BALANCE", "C05:BALANCE:VA:methods", "VariantAccess methods found: %s" % names, "VariantAccess methods changed: %s" % names, config, None)
        for g in va:
            ctx.saw(g)
            eme = [b for b, t in g.calls() if fx.callee(t).endswith("::expect_map_end")]
            mm_false = []
            for sb, sym, tt, ff in bool_switches(g):
                if render(sym) == "self.map_mode":
                    mm_false.append((sb, ff))
            me = end_edges(g, fx, "MapEnd")
            for b, ln in success_sources(g):
                okv = any(g.dominates(eb, b) and eb != b for eb in eme) or any(g.edge_dominates(sb, ff, b) for sb, ff in mm_false) or any(g.edge_dominates(sb, tg, b) for sb, tg in me)
                # `_0 = expect_map_end()` itself
                t = g.blocks[b]["term"]
                if t["k"] == "call" and t["dest"]["l"] == 0 and fx.callee(t).endswith("expect_map_end"):
                    okv = True
                # join block of `if map_mode {expect_map_end()?}`: every predecessor path either passed expect_map_end or the map_mode==false edge
                if not okv:
                    reach_wo = g.reachable([0], avoid=eme)
                    # reachable from entry avoiding expect_map_end only through a false edge?
                    seen = set()
                    st = [0]
                    bad = False
                    false_edges = set(mm_false)
                    while st:
                        x = st.pop()
                        if x in seen or x in eme:
                            continue
                        seen.add(x)
                        if x == b:
                            bad = True
                            break
                        for s2 in g.succ[x]:
                            if (x, s2) in false_edges or (x, s2) in set(me):
                                continue
                            st.append(s2)
                    okv = not bad
                ctx.check(okv, "BALANCE", "C05:BALANCE:VA:%s:map-end" % g.name, "in `{Variant: payload}` mode success is reached only after the closing MappingEnd was verified",
                          "%s can succeed in map mode without expect_map_end(): `{Variant: a, other: b}` style surplus is silently accepted / left in the stream" % g.name, config, ctx.where(g, ln=ln))
        # OWN-NODE: in the bare `Variant` notation the access object has no payload node of its own — the shared stream
        # (self.ev) holds the *following sibling*.  Every use of self.ev in a VariantAccess method is on the map_mode edge.
        nuse = 0
        for g in va:
            mm_true = []
            for sb, sym, tt, ff in bool_switches(g):
                r = render(sym)
                if r == "self.map_mode":
                    mm_true.append((sb, tt))
                elif r == "Not(self.map_mode)":
                    mm_true.append((sb, ff))
            uses = []
            for b, t in g.calls():
                with g.deep():
                    if any("self.ev" in render(g.sym_operand(a)) for a in t["args"]):
                        uses.append(b)
            nuse += len(uses)
            leak = [b for b in uses if not any(g.edge_dominates(sb, tg, b) for sb, tg in mm_true)]
            ctx.check(not leak, "OWN-NODE", "C05:OWN-NODE:VA:%s" % g.name, "the shared event stream is touched only in `{Variant: payload}` mode (%d uses)" % len(uses),
                      "%s reads the shared event stream (line(s) %s) in the bare `Variant` notation: the node that follows the variant name in the enclosing container is consumed as its payload (`[A, 5]` -> `[A(5)]`)" %
                      (g.name, sorted({g.blocks[b]["term"].get("ln") for b in leak})), config, ctx.where(g))
        ctx.floor("OWN-NODE.VA.stream-uses", nuse, 20, config)
        # STYLE-KEPT: an event that carries text of the document carries the document's style (null-likeness, bool / number
        # inference and option handling all depend on it).  A scalar event built with a *constant* style is synthetic: its
        # text is the empty constant.  (Forcing Plain on a re-emitted `!Variant "null"` payload turns the quoted text into a null.)
        nsc = 0
        for g in sorted(fx.fns.values(), key=lambda g: g.npath):
            if not g.file.endswith(("src/de.rs", "src/live_events.rs", "src/lib.rs")) or g.d.get("impl_trait") == "std::clone::Clone":
                continue
            for b, i, adt, var, fl, ops, s_ in aggregates(g):
                if adt != "de::Ev" or var != "Scalar":
                    continue
                nsc += 1
                ctx.saw(g)
                with g.deep():
                    st = render(g.sym_operand(s_["rv"]["ops"][fl.index("style")]))
                    vl = render(g.sym_operand(s_["rv"]["ops"][fl.index("value")]))
                const_style = st.startswith("saphyr_parser_bw::ScalarStyle::")
                synthetic = vl in ("std::borrow::Cow::Borrowed{''}", "into(new())", "std::borrow::Cow::Owned{new()}", "into('')")
                ctx.check((not const_style) or synthetic, "STYLE", "C05:STYLE-KEPT:%s" % g.npath.split("::")[-1], "scalar events keep the style of the text they carry (constant style only for the synthetic empty scalar)",
                          "%s builds a scalar event with the constant style %s around non-constant text (`%s`): the quoting / block style of the document's scalar is lost, so `!O \"null\"` becomes a null payload" % (g.npath, st.split("::")[-1], vl[:60]), config, ctx.where(g, b))
        ctx.floor("STYLE.scalar-event-sites", nsc, 5, config)
        # ... and conversely a *synthetic* scalar — the empty text that stands for "no payload" / "empty document" — is the plain,
        # untagged empty scalar, i.e. a null.  Given the style of some other scalar (the quoted name of a bare variant, say) it
        # becomes the empty *string*: `- 'Text'` would read as Text("") instead of failing for a missing payload.
        nsy = 0
        for g in sorted(fx.fns.values(), key=lambda g: g.npath):
            if not g.file.endswith(("src/de.rs", "src/live_events.rs", "src/lib.rs")) or g.d.get("impl_trait") == "std::clone::Clone":
                continue
            for b, i, adt, var, fl, ops, s_ in aggregates(g):
                if adt != "de::Ev" or var != "Scalar":
                    continue
                with g.deep():
                    st = render(g.sym_operand(s_["rv"]["ops"][fl.index("style")]))
                    vl = render(g.sym_operand(s_["rv"]["ops"][fl.index("value")]))
                    tg = render(g.sym_operand(s_["rv"]["ops"][fl.index("tag")])) if "tag" in fl else "tags::SfTag::None{}"
                if vl not in ("std::borrow::Cow::Borrowed{''}", "into(new())", "std::borrow::Cow::Owned{new()}", "into('')"):
                    continue
                nsy += 1
                ctx.check(st.startswith("saphyr_parser_bw::ScalarStyle::Plain") and tg.startswith(("tags::SfTag::None", "tags::SfTag::Null")), "STYLE", "C05:STYLE-KEPT:synthetic-is-plain-null:%s" % g.npath.split("::")[-1],
                          "the synthetic empty scalar is plain and untagged or `!!null` (a null)",
                          "%s builds the synthetic empty scalar with style `%s` / tag `%s`: unless it is the plain untagged empty scalar it is not a null — a quoted style makes it the empty string, so a missing payload is accepted as \"\"" % (g.npath, st[:50], tg[:40]), config, ctx.where(g, b))
        ctx.floor("STYLE.synthetic-scalars", nsy, 1, config)
        # TAG-KEPT: likewise the tag.  A scalar event built around text of the document either keeps that scalar's own tag or has
        # none; a *constant* core tag put on it (`!!str` on the re-emitted payload of `!Variant payload`) changes what the text
        # is: a `!!str` scalar is never null, so `!O ~` would be Some("~") while `{O: ~}` is None.
        ntg = 0
        for g in sorted(fx.fns.values(), key=lambda g: g.npath):
            if not g.file.endswith(("src/de.rs", "src/live_events.rs", "src/lib.rs")) or g.d.get("impl_trait") == "std::clone::Clone":
                continue
            for b, i, adt, var, fl, ops, s_ in aggregates(g):
                if adt != "de::Ev" or var != "Scalar" or "tag" not in fl:
                    continue
                ntg += 1
                with g.deep():
                    tg = render(g.sym_operand(s_["rv"]["ops"][fl.index("tag")]))
                    vl = render(g.sym_operand(s_["rv"]["ops"][fl.index("value")]))
                const_tag = tg.startswith("tags::SfTag::") and not tg.startswith("tags::SfTag::None")
                synthetic = vl in ("std::borrow::Cow::Borrowed{''}", "into(new())", "std::borrow::Cow::Owned{new()}", "into('')")
                ctx.check((not const_tag) or synthetic, "STYLE", "C05:TAG-KEPT:%s" % g.npath.split("::")[-1], "scalar events keep the tag of the scalar they carry, or have none",
                          "%s builds a scalar event with the constant tag %s around text of the document (`%s`): the payload of `!Variant payload` is then read as a `!!str` scalar — `!O ~` gives Some(\"~\") and `!U ~` is rejected, unlike `{O: ~}` / `{U: ~}`" % (g.npath, tg.split("::")[-1], vl[:60]), config, ctx.where(g, b))
        ctx.floor("STYLE.scalar-event-tag-sites", ntg, 5, config)
        # KIND: a variant's payload is requested by its declared kind — struct_variant through deserialize_struct / _map,
        # tuple_variant through deserialize_tuple / _seq — never through the typeless deserialize_any, which follows the
        # document's shape instead (a sequence would then fill a struct variant's fields by position).
        nk = 0
        for g in fx.fns.values():
            if g.d.get("impl_trait") != "serde::de::VariantAccess" or g.name not in ("struct_variant", "tuple_variant") or not g.file.endswith("src/de.rs"):
                continue
            want = {"struct_variant": {"deserialize_struct", "deserialize_map"}, "tuple_variant": {"deserialize_tuple", "deserialize_seq", "deserialize_tuple_struct"}}[g.name]
            des = [last_seg(fx.callee(t)) for b, t in g.calls() if fx.callee(t).startswith(D) or "serde::Deserializer" in fx.callee_decl(t)]
            des = [d for d in des if d.startswith("deserialize_")]
            if not des:
                continue
            nk += 1
            ctx.saw(g)
            ctx.check(set(des) <= want, "KIND", "C05:KIND:%s:%s" % (g.d.get("impl_adt"), g.name), "payload requested as %s" % sorted(set(des)),
                      "%s of %s requests its payload through %s instead of %s: the payload's kind is no longer checked against the variant's declared shape (`{Rect: [1, 2]}` fills a struct variant by position)" % (g.name, g.d.get("impl_adt"), sorted(set(des) - want), sorted(want)), config, ctx.where(g))
        ctx.floor("KIND.variant-payload-sites", nk, 4, config)
        # SIBLING: every crate-local VariantAccess::unit_variant whose access object carries an event source
        # accepts only an absent / null-like payload
        uvs = [g for g in fx.fns.values() if g.name == "unit_variant" and g.d.get("impl_trait") == "serde::de::VariantAccess"]
        ctx.floor("SIBLING.unit_variant", len(uvs), 2, config)
        for g in uvs:
            ctx.saw(g)
            from ..mir import norm
            adt = fx.adts.get(norm(g.d.get("impl_adt") or ""), None)
            if adt is None:
                raise MissingAnchor("ADT of VariantAccess impl %s" % g.d.get("impl_adt"))
            fields = [fld["name"] for v in adt.get("variants", []) for fld in v["fields"]]
            has_source = any(x in ("ev", "replay") for x in fields)
            if not has_source:
                ctx.ok("SIBLING", "C05:SIBLING:unit_variant:%s" % g.d.get("impl_adt"), "access object carries no event source", config, ctx.where(g))
                continue
            mm_false = [(sb, ff) for sb, sym, tt, ff in bool_switches(g) if render(sym).endswith(".map_mode")]
            nullish_true = [(sb, tt) for sb, sym, tt, ff in bool_switches(g) if sym[0] == "call" and sym[1].endswith("scalar_is_nullish")]
            me = end_edges(g, fx, "MapEnd")
            none_edges = []
            for b in sorted(g.live_blocks):
                t = g.blocks[b]["term"]
                if t["k"] == "switch":
                    with g.deep():
                        sym = g.sym_operand(t["o"])
                    r = render(sym)
                    if sym[0] == "discr" and "peek(" in r and r.endswith("@Continue.0)"):
                        arms = dict(zip(t["vals"], t["tgts"]))
                        if 0 in arms:
                            none_edges.append((b, arms[0]))
            eme = [b for b, t in g.calls() if fx.callee(t).endswith("::expect_map_end")]
            for b, ln in success_sources(g):
                t = g.blocks[b]["term"]
                oku = (any(g.edge_dominates(sb, tg, b) for sb, tg in mm_false + nullish_true + me + none_edges)
                       or (t["k"] == "call" and t["dest"]["l"] == 0 and fx.callee(t).endswith("expect_map_end")))
                ctx.check(oku, "SIBLING", "C05:SIBLING:unit_variant:%s" % g.d.get("impl_adt"), "a unit variant succeeds only with an absent or null-like payload",
                          "unit_variant of %s succeeds (line %s) without looking at the payload it carries: `!Variant 5` / `!Variant [..]` silently drop the value while `{Variant: 5}` is rejected" % (g.d.get("impl_adt"), ln), config, ctx.where(g, ln=ln))
        eh = [g for g in fx.fns.values() if g.name == "expect_map_end" and "deserialize_enum::VA" in g.npath]
        for g in eh:
            ctx.saw(g)
            me = end_edges(g, fx, "MapEnd")
            for b, i, adt, var, fl, ops, s_ in aggregates(g):
                if s_["p"]["l"] == 0 and var == "Ok":
                    ctx.check(any(g.edge_dominates(sb, tg, b) for sb, tg in me), "BALANCE", "C05:BALANCE:VA:expect_map_end", "expect_map_end succeeds only on MappingEnd", "expect_map_end can succeed on another event", config, ctx.where(g, b))
        # ---- 6. MapAccess: None only after the MappingEnd was consumed; value only after a key
        ma = [g for g in fx.fns.values() if "deserialize_map::MA as serde::de::MapAccess" in g.npath and g.kind == "assoc"]
        for g in ma:
            ctx.saw(g)
            if g.name == "next_key_seed":
                me = end_edges(g, fx, "MapEnd")
                fl_true = [(sb, tt) for sb, sym, tt, ff in bool_switches(g) if render(sym) == "self.flushing_merges"]
                k = 0
                for b, i, adt, var, fl, ops, s_ in aggregates(g):
                    if s_["p"]["l"] == 0 and var == "Ok":
                        with g.deep():
                            v = g.sym_operand(s_["rv"]["ops"][0])
                        if v[0] == "aggr" and v[2] == "None":
                            k += 1
                            okn = any(g.edge_dominates(sb, tg, b) for sb, tg in me) or any(g.edge_dominates(sb, tt, b) for sb, tt in fl_true)
                            ctx.check(okn, "BALANCE", "C05:BALANCE:MA:none-only-after-end", "MapAccess answers None only after the MappingEnd (or while flushing merges, which starts there)",
                                      "MapAccess can answer None before the mapping's end: remaining entries are left in the stream", config, ctx.where(g, b))
                ctx.floor("BALANCE.MA.none-sites", k, 3, config)
                # flushing starts only in the MapEnd arm, after consuming it
                for b, i, s_ in g.stmts():
                    if s_["k"] == "assign" and s_["p"]["pr"] and render(g.sym_place(s_["p"])) == "self.flushing_merges" and g.sym_rvalue(s_["rv"]) == ("const", True, "bool"):
                        ctx.check(any(g.edge_dominates(sb, tg, b) for sb, tg in me), "BALANCE", "C05:BALANCE:MA:flush-after-end", "merge flushing starts only once the MappingEnd was seen", "merge flushing can start before the mapping ended", config, ctx.where(g, b))
            if g.name == "next_value_seed":
                t0 = g.blocks[0]["term"]
                okh = t0["k"] == "switch" and render(g.sym_operand(t0["o"])) in ("self.have_key", "Not(self.have_key)")
                if okh:
                    e = switch_edges(g, 0)
                    sym = g.sym_operand(t0["o"])
                    neg = sym[0] == "un"
                    nokey = e[0] if neg else e[1]
                    errs = [bb for bb, i, adt, var, fl, ops, s_ in aggregates(g) if adt == "de_error::Error" and var == "ValueRequestedBeforeKey"]
                    okh = must_pass(g, [nokey], errs)
                ctx.check(okh, "BALANCE", "C05:BALANCE:MA:value-needs-key", "next_value_seed starts with the have_key guard whose failing edge is an error", "next_value_seed no longer refuses a value request without a preceding key", config, ctx.where(g))
                clears = [b for b, i, s_ in g.stmts() if s_["k"] == "assign" and s_["p"]["pr"] and render(g.sym_place(s_["p"])) == "self.have_key" and g.sym_rvalue(s_["rv"]) == ("const", False, "bool")]
                ctx.check(bool(clears), "BALANCE", "C05:BALANCE:MA:key-consumed", "have_key is cleared when the value is taken", "have_key is never cleared: one key could be paired with two values", config, ctx.where(g))
        ctx.floor("BALANCE.MA", len(ma), 2, config)
        # ---- 7. deserialize_map hands out the MapAccess only after the MappingStart
        f = fx.fn(D + "deserialize_map")
        ctx.saw(f)
        starts = [b for b, t in f.calls() if fx.callee(t).endswith("::expect_map_start")]
        vis = [b for b, t in f.calls() if t["f"].get("name") == "visit_map" and any("MA" in str(a) for a in t["f"].get("args", []))]
        ctx.check(bool(vis) and all(any(f.dominates(s_, v) for s_ in starts) for v in vis), "BALANCE", "C05:BALANCE:deserialize_map:start-first", "the streaming MapAccess is handed out only after the MappingStart was consumed", "visit_map(MA) is reachable without consuming the MappingStart", config, ctx.where(f))
        g = fx.fn(D + "deserialize_struct")
        ctx.check(any(fx.callee(t) == f.npath for b, t in g.calls()), "BALANCE", "C05:BALANCE:deserialize_struct:delegates", "deserialize_struct delegates to deserialize_map", "deserialize_struct no longer delegates to deserialize_map", config, ctx.where(g))
        # ---- 8. expect_*_start succeed only on their own start
        for nm, variant in (("expect_seq_start", "SeqStart"), ("expect_map_start", "MapStart")):
            g = fx.fn("de::YamlDeserializer::" + nm)
            ctx.saw(g)
            se = end_edges(g, fx, variant)
            for b, i, adt, var, fl, ops, s_ in aggregates(g):
                if s_["p"]["l"] == 0 and var == "Ok":
                    ctx.check(any(g.edge_dominates(sb, tg, b) for sb, tg in se), "BALANCE", "C05:BALANCE:%s" % nm, "%s succeeds only on %s" % (nm, variant), "%s can succeed on another event kind (a scalar would be taken for a container)" % nm, config, ctx.where(g, b))
        # ---- 9. single-document entries reject leftovers (shared with C11)
        C11.rule_single(ctx, fx, config)
        # ---- 10. option / null handling: which scalars fill an Option position with None is a style-and-text table (shared with C06)
        from . import C06
        C06.rule_style(ctx, fx, config)
