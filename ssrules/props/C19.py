"""C19 — robotics expressions evaluate totally; plain numbers are unchanged (DESIGN §4 C19).
Configurations with the `robotics` feature only."""
import re
from ..mir import MissingAnchor, sym_contains
from ..rules import render, aggregates, last_seg, bool_switches, must_pass, switch_edges, compares, int_consts

EXPLANATION = ("RECUR / PAIR / LIMIT / PROGRESS / DOM rules over the resolved MIR of the expression evaluator (feature `robotics`): "
               "every recursive re-entry into the expression parser is dominated by the success edge of the depth guard, and the "
               "guard's enter is followed by exit on every path (including the error path of the nested expression); the depth "
               "guard compares the depth with the limit constant before incrementing and its failing edge is an error; every "
               "digit-count comparison against the digit cap rejects on its failing edge (six sites); every loop of the evaluator "
               "advances the cursor on each cycle; the float parser reaches the evaluator only on the `angle_conversions` edge and "
               "without that option takes the plain path (same code as without the feature); panic-capable constructs of the "
               "module are enumerated under C01. IEEE-754 exactness, precedence results and unit arithmetic are value-level.")
ASSUMPTIONS = ["rustc's MIR (opt-level 0) faithfully represents the compiled crate in the configurations that enable `robotics`",
               "IEEE-754 exactness, precedence and unit arithmetic are not decided (DESIGN §4 C19)"]

P = "robotics::Parser::"


def robotics_configs(ctx):
    from .. import facts as factsmod
    return [c for c in ctx.configs if "robotics" in factsmod.CONFIGS[c]]


def rule_converted_once(ctx, fx, config):
    """ONCE:sexagesimal-converts-only-at-top-level — inside a unit function (`sexagesimal_is_time == false`) the wrapping
    `deg()` / `rad()` converts its argument; a sexagesimal literal that multiplies by DEG2RAD there as well is converted twice.
    Every product with DEG2RAD in the literal's reader lies on the true edge of the `sexagesimal_is_time` test."""
    f = fx.fn(P + "try_parse_sexagesimal")
    ctx.saw(f)
    tests = [(sb, tt) for sb, sym, tt, ff in bool_switches(f) if render(sym).endswith("sexagesimal_is_time")]
    n = 0
    for b, i, s_ in f.stmts():
        if s_["k"] != "assign" or s_["rv"]["k"] != "bin" or s_["rv"].get("op") != "Mul":
            continue
        cs = [o["c"] for o in (s_["rv"]["a"], s_["rv"]["b"]) if "c" in o]
        if not any(str(c.get("named", "")).endswith("DEG2RAD") or str(c.get("v", "")).startswith("0.01745329251994") for c in cs):
            continue
        n += 1
        okk = any(f.edge_dominates(sb, tt, b) for sb, tt in tests)
        ctx.check(okk, "ONCE", "C19:ONCE:sexagesimal-converts-only-at-top-level#%d" % n, "the literal converts to radians only outside unit functions (under `sexagesimal_is_time`)",
                  "try_parse_sexagesimal multiplies by DEG2RAD on a path where `sexagesimal_is_time` is false (line %s): inside deg(..) / rad(..) the wrapping unit converts again — degrees are converted twice" % s_.get("ln"), config, ctx.where(f, b))
    ctx.floor("ONCE.literal-conversions", n, 1, config)


def run(ctx):
    cfgs = robotics_configs(ctx)
    ctx.floor("configs-with-robotics", len(cfgs), 1, None)
    for config in cfgs:
        fx = ctx.facts(config)
        rule_converted_once(ctx, fx, config)
        methods = [f for f in fx.fns.values() if f.npath.startswith(P) and f.kind == "assoc"]
        ctx.floor("RECUR.parser-methods", len(methods), 15, config)
        expr = fx.fn(P + "expr")
        enter = fx.fn(P + "enter")
        exitf = fx.fn(P + "exit")
        # ---- call graph inside the parser
        cg = {m.npath: {fx.callee(t) for b, t in m.calls() if fx.callee(t).startswith(P)} for m in methods}

        def reach(src):
            seen, st = set(), [src]
            while st:
                x = st.pop()
                for y in cg.get(x, ()):
                    if y not in seen:
                        seen.add(y)
                        st.append(y)
            return seen
        # recursive edges: call sites of a method M from a method reachable from M
        n = 0
        for m in methods:
            ctx.saw(m)
            for b, t in m.calls():
                c = fx.callee(t)
                if not c.startswith(P):
                    continue
                if m.npath not in reach(c) and m.npath != c:
                    continue
                # this call closes a cycle; it must be the guarded re-entry into `expr`
                chain_ok = c == expr.npath
                if not chain_ok:
                    # calls inside the cycle other than the re-entry (expr->term->unary->primary): fine as long as
                    # the cycle passes through a guarded expr call — i.e. every cycle contains `expr`
                    cyc = reach(c) & {x for x in cg if c in reach(x) or x == c}
                    chain_ok = expr.npath in reach(c)
                    if chain_ok:
                        continue
                n += 1
                ens = [eb for eb, et in m.calls() if fx.callee(et) == enter.npath]
                key = "C19:RECUR:%s->expr" % m.name
                okd = False
                for eb in ens:
                    # success edge of enter()? : the Continue arm of the following Try::branch switch
                    if m.dominates(eb, b):
                        # not reachable from the Break edge
                        tb = m.blocks[eb]["term"]["t"]
                        sw = m.blocks[tb]["term"]["t"] if m.blocks[tb]["term"]["k"] == "call" else tb
                        swt = m.blocks[sw]["term"]
                        if swt["k"] == "switch":
                            arms = dict(zip(swt["vals"], swt["tgts"]))
                            cont, brk = arms.get(0), arms.get(1)
                            if cont is not None and m.edge_dominates(sw, cont, b):
                                okd = True
                ctx.check(okd, "RECUR", key, "the recursive re-entry into expr is reached only after enter() succeeded",
                          "%s re-enters the expression parser without passing the depth guard: unbounded recursion on nested parentheses / calls" % m.name, config, ctx.where(m, b))
                # PAIR: exit on every path after the nested expr
                exs = [xb for xb, xt in m.calls() if fx.callee(xt) == exitf.npath]
                ctx.check(must_pass(m, [t["t"]], exs), "PAIR", "C19:PAIR:%s:exit-after-expr" % m.name, "exit() follows the nested expression on every path (also when it failed)",
                          "a path from the nested expression to a return skips exit(): the depth counter leaks and later expressions are rejected", config, ctx.where(m, b))
        ctx.floor("RECUR.guarded-reentries", n, 2, config)
        # every cycle of the parser's call graph contains expr
        for m in methods:
            if m.npath in reach(m.npath):
                ok_c = m.npath == expr.npath or (expr.npath in reach(m.npath) and m.npath in reach(expr.npath))
                ctx.check(ok_c, "RECUR", "C19:RECUR:cycle-through-expr:%s" % m.name, "recursive cycle passes through the guarded expr", "%s is on a recursive cycle that does not pass through expr (unguarded recursion)" % m.name, config, ctx.where(m))
        # ---- LIMIT: depth guard
        ctx.saw(enter)
        dg = [c for c in compares(enter) if "self.depth" in (c["rl"], c["rr"])]
        okg = False
        for c in dg:
            lim = c["rr"] if c["rl"] == "self.depth" else c["rl"]
            if lim.isdigit() and ((c["op"] == "Ge" and c["rl"] == "self.depth") or (c["op"] == "Le" and c["rr"] == "self.depth")):
                rej = c["t"]
                errs = [b for b, i, adt, var, fl, ops, s_ in aggregates(enter) if s_["p"]["l"] == 0 and var == "Err"]
                incs = [b for b, i, s_ in enter.stmts() if s_["k"] == "assign" and s_["p"]["pr"] and render(enter.sym_place(s_["p"])) == "self.depth"]
                okg = must_pass(enter, [rej], errs) and bool(incs) and all(enter.dominates(c["block"], ib) and ib not in enter.reachable([rej]) for ib in incs)
                ctx.check(int(lim) <= 4096, "LIMIT", "C19:LIMIT:depth:bound", "expression depth limit is %s" % lim, "expression depth limit raised to %s (stack exhaustion risk)" % lim, config, ctx.where(enter))
        ctx.check(okg, "LIMIT", "C19:LIMIT:depth:guard", "enter(): depth >= limit → error, checked before the increment", "the depth guard no longer rejects before incrementing", config, ctx.where(enter))
        # ---- LIMIT: digit caps
        cap_sites = 0
        for m in methods:
            errs_m = None
            for c in compares(m):
                for side, other in ((c["rl"], c["rr"]), (c["rr"], c["rl"])):
                    if other == "1000000":
                        cap_sites += 1
                        strict = (c["op"] == "Gt" and c["rr"] == "1000000") or (c["op"] == "Lt" and c["rl"] == "1000000")
                        rej = c["t"]
                        errb = [b for b, t in m.calls() if fx.callee(t) == P + "err"]
                        ctx.check(strict and must_pass(m, [rej], errb), "LIMIT", "C19:LIMIT:digits:%s:%s" % (m.name, side), "digit count > cap → error",
                                  "digit-count comparison `%s %s %s` in %s does not reject on exceeding the cap" % (c["rl"], c["op"], c["rr"], m.name), config, ctx.where(m, c["block"]))
        ctx.floor("LIMIT.digit-cap-sites", cap_sites, 6, config)
        # ---- PROGRESS
        nloops = 0
        for m in methods:
            adv = set()
            for b, t in m.calls():
                if fx.callee(t) in (P + "bump", P + "skip_ws", P + "term", P + "unary", P + "primary", P + "read_uint_unders_to_f64"):
                    adv.add(b)
            for b, i, s_ in m.stmts():
                if s_["k"] == "assign" and s_["p"]["pr"] and render(m.sym_place(s_["p"])) == "self.i":
                    adv.add(b)
            # a local look-ahead cursor (`j += 1`) also counts as progress of its own loop
            for b, i, s_ in m.stmts():
                if s_["k"] == "assign" and not s_["p"]["pr"] and m.local_name(s_["p"]["l"]):
                    nm = m.local_name(s_["p"]["l"])
                    v = render(m.sym_rvalue(s_["rv"]))
                    if v in ("Add(%s, 1)" % nm,):
                        adv.add(b)
            for comp in m.sccs():
                nloops += 1
                # removing the advancing blocks must break every cycle
                rest = comp - adv
                still = m.sccs(rest) if rest else []
                ctx.check(not still, "PROGRESS", "C19:PROGRESS:%s" % m.name, "every cycle of the loop advances the cursor (bump / self.i)",
                          "%s has a loop cycle that does not advance the input cursor (possible hang)" % m.name, config, ctx.where(m, min(comp)))
        ctx.floor("PROGRESS.loops", nloops, 8, config)
        # ---- DOM: dispatch only under the option
        pf = fx.fn("parse_scalars::parse_yaml12_float")
        ctx.saw(pf)
        calls = [b for b, t in pf.calls() if fx.callee(t) == "robotics::parse_yaml12_float_angle_converting"]
        sw = [(sb, tt, ff) for sb, sym, tt, ff in bool_switches(pf) if render(sym) == "angle_conversions"]
        ctx.check(len(calls) == 1 and sw and all(pf.edge_dominates(sb, tt, calls[0]) for sb, tt, ff in sw[:1]), "DOM", "C19:DOM:dispatch-under-option", "the evaluator is reached only when angle_conversions is set",
                  "parse_yaml12_float reaches the expression evaluator without the angle_conversions option", config, ctx.where(pf))
        if sw:
            sb, tt, ff = sw[0]
            plain = [b for b, t in pf.calls() if last_seg(fx.callee_decl(t)) in ("parse", "from_str")]
            # the ordinary-literal interpretation is computed whatever the option says (same code with and without it) ...
            after = pf.reachable([tt]) | pf.reachable([ff])
            ctx.check(bool(plain) and all((b not in after and sb in pf.reachable([b])) or (b in pf.reachable([ff]) and b not in pf.reachable([tt])) for b in plain), "DOM", "C19:DOM:plain-path-without-option",
                      "the literal is parsed by str::parse at the target type independently of the option", "the plain float interpretation now depends on the option", config, ctx.where(pf))
            # ... and with the option on it is what is returned for a scalar that *is* an ordinary literal (unless degree-tagged):
            # the evaluator is unreachable from the edge `plain is Ok` and `tag != Degrees`
            okp = False
            for ib, isym, itt, iff in bool_switches(pf):
                if isym[0] == "call" and last_seg(isym[1]) == "is_ok" and ib in pf.reachable([tt]):
                    for cb, ct in pf.calls():
                        if cb in pf.reachable([itt]) and last_seg(fx.callee(ct)) in ("ne", "eq"):
                            with pf.deep():
                                args = " ".join(render(pf.sym_operand(a)) for a in ct["args"])
                            if "SfTag::Degrees" in args:
                                nb = ct["t"]
                                hops = 0
                                while nb is not None and hops < 4 and pf.blocks[nb]["term"]["k"] == "goto" and all(x["k"] == "assign" for x in pf.blocks[nb]["stmts"]):
                                    nb = pf.blocks[nb]["term"]["t"]  # the result is stored in a named condition and tested at the join
                                    hops += 1
                                e = switch_edges(pf, nb) if nb is not None else None
                                if e:
                                    notdeg = e[0] if last_seg(fx.callee(ct)) == "ne" else e[1]
                                    okp = not (set(calls) & pf.reachable([notdeg]))
            ctx.check(okp, "DOM", "C19:DOM:literal-bypasses-evaluator", "with the option on, a scalar that parses as an ordinary literal (and is not degree-tagged) is returned as parsed, without the evaluator",
                      "with angle_conversions on every scalar goes through the f64 evaluator again: f32 targets are rounded twice and `-0.0` / `infinity` no longer keep the value they have without the option", config, ctx.where(pf))
        # callers of the evaluator
        callers = {c.npath for c, b in fx.callers.get("robotics::parse_yaml12_float_angle_converting", [])}
        ctx.check(callers == {"parse_scalars::parse_yaml12_float"}, "DOM", "C19:DOM:single-caller", "the evaluator has one caller", "the evaluator is also called from %s" % sorted(callers - {"parse_scalars::parse_yaml12_float"}), config, ctx.where(pf))
        # top level: trailing characters are an error; whole string consumed
        top = fx.fn("robotics::parse_yaml12_float_angle_converting")
        ctx.saw(top)
        eof = [(sb, tt, ff) for sb, sym, tt, ff in bool_switches(top) if sym[0] == "call" and sym[1] == P + "eof"]
        errb = [b for b, t in top.calls() if fx.callee(t) == P + "err"]
        ctx.check(bool(eof) and all(must_pass(top, [ff], errb) for sb, tt, ff in eof), "DOM", "C19:DOM:trailing-characters", "trailing characters after the expression are an error", "trailing characters after an expression are accepted", config, ctx.where(top))
        # ---- IDENTITY: a scalar without operators keeps its parsed value bit for bit (−0.0, NaN payloads): along the
        # chain expr -> term the result variable is *initialised from* the nested call's value; arithmetic is applied only
        # when an operator was read.  (Folding the first operand into a zero / one accumulator loses the sign of −0.0.)
        for outer, inner in (("expr", "term"), ("term", "unary")):
            g = fx.fn(P + outer)
            vlocals = set()
            for b, i, adt, var, fl, ops, s_ in aggregates(g):
                if s_["p"]["l"] == 0 and var == "Ok":
                    tup = g.sym_operand(s_["rv"]["ops"][0])
                    # shallow: named locals are roots -> ('aggr', 'tuple', .., [v, used_unit, saw_plain])
                    if tup[0] == "aggr" and tup[4] and tup[4][0][0] == "local":
                        vlocals.add(tup[4][0][1])
            okid = False
            defs = []
            for b, i, s_ in g.stmts():
                if s_["k"] == "assign" and not s_["p"]["pr"] and s_["p"]["l"] in vlocals:
                    with g.deep():
                        v = g.sym_rvalue(s_["rv"])
                    defs.append(render(v)[:60])
                    direct = not sym_contains(v, lambda x: x[0] in ("bin", "un", "const")) and sym_contains(v, lambda x: x[0] == "call" and x[1] == P + inner)
                    okid = okid or direct
            # ---- OPERATOR: left-to-right evaluation.  Every binary operator of this level is applied to the accumulator in
            # the iteration that read it, with that iteration's operand as it came back from the nested call: `acc = acc op
            # inner()`, inside the loop.  Arithmetic on operand values anywhere else (collecting divisors and dividing once,
            # summing the subtrahends first) regroups the expression: `a/b/c` becomes `a/(b*c)`, which differs in IEEE-754
            # (1e200/1e200/1e200 is 1e-200, 1e200/(1e200*1e200) is 0).
            want = {"term": {"Mul", "Div"}, "expr": {"Add", "Sub"}}[outer]
            inloop = set().union(*[c for c in g.sccs() if len(c) > 1]) if g.sccs() else set()
            seen_ops, bad = set(), []
            def is_acc(o):   # the accumulator itself, or a temporary copy of it (shallow view: named locals are roots)
                sy = g.sym_operand(o)
                return sy[0] == "local" and sy[1] in vlocals
            for b, i, s_ in g.stmts():
                if s_["k"] != "assign" or s_["rv"]["k"] != "bin" or s_["rv"].get("op") not in ("Add", "Sub", "Mul", "Div"):
                    continue
                a_, b_ = s_["rv"]["a"], s_["rv"]["b"]
                with g.deep():
                    da, db = g.sym_operand(a_), g.sym_operand(b_)
                from_inner = lambda x: sym_contains(x, lambda n: n[0] == "call" and n[1] == P + inner)
                if not (from_inner(da) or from_inner(db)):
                    continue   # arithmetic on something that is not an operand value (none on the confirmed tree)
                if s_["rv"]["op"] in ("Add", "Mul") and not is_acc(a_) and is_acc(b_):
                    a_, b_, da, db = b_, a_, db, da   # commutative: `rhs * v` is `v * rhs`
                dl = s_["p"]["l"]
                lands = dl in vlocals or any(s2["k"] == "assign" and not s2["p"]["pr"] and s2["p"]["l"] in vlocals and s2["rv"]["k"] == "use"
                                             and g.sym_operand(s2["rv"]["o"])[:2] == ("local", dl)
                                             for _b2, _i2, s2 in g.stmts())   # `let q = v / rhs; v = q;`
                acc = not s_["p"]["pr"] and lands and is_acc(a_)
                straight = from_inner(db) and not sym_contains(db, lambda n: n[0] in ("bin", "un"))
                if acc and straight and b in inloop and s_["rv"]["op"] in want:
                    seen_ops.add(s_["rv"]["op"])
                else:
                    bad.append("%s at %s" % (s_["rv"]["op"], g.span(b, i) if hasattr(g, "span") else "bb%d" % b))
            ctx.check(bool(vlocals) and seen_ops == want and not bad, "ORDER", "C19:OPERATOR:applied-where-read:%s" % outer,
                      "%s applies each of %s to the accumulator inside the loop, with the operand %s() returned" % (outer, sorted(want), inner),
                      "%s does not apply every operator to its accumulator as it is read (applied in place: %s; arithmetic on operand values elsewhere: %s): operators of one level are regrouped, `a/b/c` is no longer (a/b)/c" % (outer, sorted(seen_ops), bad or "none"), config, ctx.where(g))
            ctx.check(bool(vlocals) and okid, "IDENTITY", "C19:IDENTITY:%s" % outer, "%s initialises its result from %s()'s value without arithmetic" % (outer, inner),
                      "%s no longer passes a lone operand through unchanged (definitions of the result: %s): `-0.0` evaluates to `+0.0` with the option on, and 1/(-0.0) to +inf" % (outer, defs), config, ctx.where(g))
        # ---- FLAGS: the unit bookkeeping of a sub-expression (used-a-unit, saw-a-bare-term) travels unchanged through the
        # wrappers that add no unit of their own — a parenthesised group and a sign: the mixed-unit check at the top sees
        # every bare term wherever it is written.  (Unit calls deg(..) / rad(..) set both flags themselves.)
        nfl = 0
        for wname in ("primary", "unary"):
            g = fx.fn(P + wname)
            ctx.saw(g)
            for b, i, adt, var, fl, ops, s_ in aggregates(g):
                if s_["p"]["l"] != 0 or var != "Ok":
                    continue
                with g.deep():
                    tup = g.sym_operand(s_["rv"]["ops"][0])
                if not (tup[0] == "aggr" and len(tup) > 4 and len(tup[4]) == 3):
                    continue
                comps = tup[4]
                nested = [x for x in (P + "expr", P + "primary", P + "unary", P + "term") if sym_contains(comps[0], lambda n, x=x: n[0] == "call" and n[1] == x)]
                if not nested:
                    continue
                nfl += 1
                okf = all(re.match(r"^branch\((expr|primary|unary|term)\(self\)\)@Continue\.0\.%d$" % k, render(comps[k])) for k in (1, 2))
                ctx.check(okf, "IDENTITY", "C19:FLAGS:%s:passed-through" % wname, "%s hands the nested result's unit flags on unchanged" % wname,
                          "%s rewrites the unit flags of its sub-expression (used = `%s`, bare = `%s`): a bare term inside a parenthesised group that also contains a unit construct is hidden from the mixed-unit check — `!degrees (deg(90) + 90)` is accepted" % (wname, render(comps[1])[:60], render(comps[2])[:60]),
                          config, ctx.where(g, b))
        ctx.floor("IDENTITY.flag-wrappers", nfl, 2, config)
        # ---- SCALE: fraction digits beyond the cap are read and counted but do not enter the numerator; whatever the fraction is
        # divided by must count exactly the digits that *did* enter it.  Either the function returns numerator / scale with both
        # accumulators advanced in the same blocks, or — if it hands out a raw numerator — the count it hands out with it
        # advances in the same blocks as the numerator.  (Dividing 18 accumulated digits by 10^(all digits) shrinks the
        # fraction by the surplus: `0:0:30.5000000000000000000` becomes 30.05.)
        fr = fx.fn(P + "read_frac_part_unders")
        ctx.saw(fr)
        loops = set().union(*[c for c in fr.sccs() if len(c) > 1]) if fr.sccs() else set()

        def loop_writes(name):
            return {b for b, i, s_ in fr.stmts() if s_["k"] == "assign" and not s_["p"]["pr"] and fr.local_name(s_["p"]["l"]) == name and b in loops}
        oksc, why = False, "no result tuple found"
        for b, i, adt, var, fl, ops, s_ in aggregates(fr):
            if s_["p"]["l"] != 0 or var != "Ok":
                continue
            tup = fr.sym_operand(s_["rv"]["ops"][0])
            if not (tup[0] == "aggr" and len(tup) > 4 and len(tup[4]) == 2):
                continue
            v, cnt = tup[4]
            if v[0] == "bin" and v[1] == "Div" and v[2][0] == "local" and v[3][0] == "local" and len(v[2]) > 2 and len(v[3]) > 2:
                wa, wb = loop_writes(v[2][2]), loop_writes(v[3][2])
                oksc = bool(wa) and wa == wb
                why = "numerator `%s` written in %s, scale `%s` in %s" % (v[2][2], sorted(wa), v[3][2], sorted(wb))
            elif v[0] == "local" and len(v) > 2 and cnt[0] == "local" and len(cnt) > 2:
                wa, wb = loop_writes(v[2]), loop_writes(cnt[2])
                oksc = bool(wa) and wa == wb
                why = "raw numerator `%s` written in %s, count `%s` in %s" % (v[2], sorted(wa), cnt[2], sorted(wb))
            else:
                why = "result `%s`" % render(v)[:60]
        ctx.check(oksc, "IDENTITY", "C19:SCALE:fraction-scale-counts-accumulated-digits", "the fraction's scale advances exactly where its numerator does",
                  "read_frac_part_unders hands out a fraction whose scale does not advance together with its numerator (%s): digits beyond the precision cap are counted in the divisor but not in the numerator" % why, config, ctx.where(fr))
        # ---- PAIR (mode): the sexagesimal interpretation switched for a unit call's argument is the caller's again afterwards:
        # every write of `self.sexagesimal_is_time` that follows the nested expression restores a value saved from the field
        # before it (a constant would be right only for non-nested calls).
        pi = fx.fn(P + "parse_ident_or_special")
        ctx.saw(pi)
        nested = [b for b, t in pi.calls() if fx.callee(t) == P + "expr"]
        writes = []
        for b, i, s_ in pi.stmts():
            if s_["k"] == "assign" and s_["p"]["pr"] and render(pi.sym_place(s_["p"])) == "self.sexagesimal_is_time":
                writes.append((b, i, s_))
        after = [(b, i, s_) for b, i, s_ in writes if any(b in pi.reachable([pi.blocks[nb]["term"]["t"]]) for nb in nested if pi.blocks[nb]["term"].get("t") is not None)]
        ctx.floor("PAIR.mode-writes", len(writes), 2, config)
        okm = bool(after)
        for b, i, s_ in after:
            v = pi.sym_rvalue(s_["rv"])
            saved = v[0] == "local" and len(v) > 2 and v[2]
            if saved:
                # the named local was filled from the field before the nested call
                src_ok = False
                for b2, i2, s2 in pi.stmts():
                    if s2["k"] == "assign" and not s2["p"]["pr"] and s2["p"]["l"] == v[1] and render(pi.sym_rvalue(s2["rv"])) == "self.sexagesimal_is_time" and all(pi.dominates(b2, nb) for nb in nested):
                        src_ok = True
                saved = src_ok
            okm = okm and bool(saved)
        ctx.check(okm, "PAIR", "C19:PAIR:sexagesimal-mode-restored", "after a unit call's argument the sexagesimal mode is restored from the value saved before it",
                  "parse_ident_or_special sets self.sexagesimal_is_time to a constant after the nested expression instead of restoring the saved mode: in nested unit calls a sexagesimal literal after the inner call is read as time (`deg(rad(0) + 1:30)`)", config, ctx.where(pi))
