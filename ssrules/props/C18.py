"""C18 — validating entry points agree with plain ones and locate every failed field (DESIGN §4 C18).
Configurations with `garde` and / or `validator` only."""
import re
from ..mir import MissingAnchor, sym_contains, norm
from ..rules import render, aggregates, last_seg, bool_switches, must_pass, switch_edges, err_return_blocks
from .. import proto
from . import C13, C11

EXPLANATION = ("SIBLING / PROTO / PAIR rules over the resolved MIR (features garde, validator): every validating entry point runs "
               "the plain protocol (options threaded, document scope, finish, second-document check) with a path recorder attached "
               "to the root deserializer, validates the value before any success result, and on failure builds the validation "
               "error from that same recorder's map; stream variants collect validation failures and keep going (no return on "
               "that arm inside the loop) and build the aggregate only after finish(); the validating iterators return the "
               "validation error without ending the stream or skipping a document; inside the deserializer every push of a path "
               "segment (`recorder.current = now`) is undone on every path to return, and the recorded pair is the (use-site, "
               "definition-site) captured for that element. Whether paths resolve to the right positions for every rename / "
               "alias / merge shape is not decided.")
ASSUMPTIONS = ["rustc's MIR (opt-level 0) faithfully represents the compiled crate in the configurations that enable garde / validator",
               "path -> position resolution (PathMap::search unambiguity) is a value-level statement: not decided"]

VALIDATE = {"garde::Validate::validate", "validator::Validate::validate"}
VERR = {"ValidationError", "ValidatorError"}


def cfgs(ctx):
    from .. import facts as factsmod
    return [c for c in ctx.configs if {"garde", "validator"} & set(factsmod.CONFIGS[c])]


def validate_calls(f, fx):
    out = []
    for b, t in f.calls():
        fd = t["f"]
        if fd.get("name") == "validate" and str(fd.get("trait")) in ("garde::Validate", "validator::Validate"):
            out.append((b, t))
    return out


def rule_tree_walk_paths(ctx, fx, config):
    """PATH: the walkers of validator's nested error tree hand every child its own path.  Either the path parameter is a shared
    reference (each level builds a fresh clone + join — nothing can accumulate), or, when one buffer is threaded mutably, every
    segment pushed inside a loop is taken off again on every way back to that loop's head.  A list index that stays on the buffer
    makes every further element of the same sequence `items[1][2].field`, which is not in the path map: the issue loses its
    position and its snippet."""
    walkers = [f for f in fx.fns.values() if re.search(r"(^|::)collect_validator_\w+_inner$", f.npath)]
    if "validator" not in (fx.data.get("features") or []):
        return
    ctx.floor("PATH.walkers", len(walkers), 1, config)
    for f in sorted(walkers, key=lambda g: g.npath):
        ctx.saw(f)
        pidx = [i for i in range(1, f.nargs + 1) if re.match(r"^&(mut )?(\w+::)*PathKey$", f.local_ty(i))]
        if not ctx.check(len(pidx) == 1, "PATH", "C18:PATH:walker-path-param:%s" % f.name, "the walker takes one path parameter", "%s no longer takes a single PathKey parameter" % f.npath, config, ctx.where(f)):
            continue
        ty = f.local_ty(pidx[0])
        if not ty.startswith("&mut"):
            ctx.ok("PATH", "C18:PATH:walker-path-balanced:%s" % f.name, "the path parameter is a shared reference (%s): every child path is a fresh clone + join" % ty, config, ctx.where(f))
            continue
        loops = [c for c in f.sccs() if len(c) > 1]
        pushes = [b for b, t in f.calls() if last_seg(fx.callee(t)) in ("push", "join", "push_str", "extend") and t["args"] and "path" in render(f.sym_operand(t["args"][0]))]
        pops = [b for b, t in f.calls() if last_seg(fx.callee(t)) in ("pop", "truncate", "truncate_to", "clear") and t["args"] and "path" in render(f.sym_operand(t["args"][0]))]
        ok = bool(pushes)
        for pb in pushes:
            inner = [c for c in loops if pb in c]
            if not inner:
                continue
            comp = min(inner, key=len)
            # heads of the innermost loop containing the push: blocks of the component with a predecessor outside it
            heads = [x for x in comp if any(p not in comp for p in f.pred[x])] or list(comp)[:1]
            nxt = f.blocks[pb]["term"].get("t")
            # innermost *iteration* loop: the loop whose head is reached again — approximate by every sub-cycle through pb
            if nxt is None or not must_pass(f, [nxt], pops, to_blocks=[pb]):
                ok = False
        ctx.check(ok, "PATH", "C18:PATH:walker-path-balanced:%s" % f.name, "every segment pushed on the shared path buffer is taken off before the same push runs again",
                  "%s threads one mutable path buffer and a segment pushed in a loop (a list index) is still on it when the next element is visited: all but the first failing element of a sequence get a path like `items[1][2].field`, which has no recorded location" % f.npath, config, ctx.where(f))


def run(ctx):
    cs = cfgs(ctx)
    ctx.floor("configs-with-validation", len(cs), 1, None)
    for config in cs:
        fx = ctx.facts(config)
        from .C16 import rule_use_site_sources, rule_defined_from_peek
        rule_use_site_sources(ctx, fx, config, prop="C18")
        rule_defined_from_peek(ctx, fx, config, prop="C18")
        rule_tree_walk_paths(ctx, fx, config)
        # ---- the validating entries: functions that construct the event source and call validate, plus iterator nexts
        ents = []
        for e in proto.entries(fx):
            f = e.fn
            its = [g for g in fx.fns.values() if C11.is_iter_of(fx, g, f)]
            for g in [f] + its:
                if validate_calls(g, fx):
                    ents.append(g)
        # entries that validate after delegating the deserialization to the recording helper
        for f in fx.fns.values():
            if f.kind == "fn" and validate_calls(f, fx) and any(fx.callee(t) == "from_str_with_options_and_path_recorder" for b, t in f.calls()):
                ents.append(f)
        ents = sorted(set(ents), key=lambda f: f.npath)
        ctx.floor("entries", len(ents), 4 if len({"garde", "validator"} & set(fx.data.get("features") or [])) == 1 else 8, config)
        for f in ents:
            ctx.saw(f)
            key = "C18:ENTRY:%s" % f.npath
            # V1: recorder attached to the root deserializer
            roots = []
            rec_syms = []
            for g in fx.family(f):
                for b, t in g.calls():
                    c = fx.callee(t)
                    if c.startswith("de::YamlDeserializer::new"):
                        with g.deep():
                            a0 = g.sym_operand(t["args"][0])
                        if sym_contains(a0, lambda x: x[0] == "cast" and "live_events::LiveEvents" in str(x[4] or "")):
                            roots.append(c)
                            if len(t["args"]) > 2:
                                rec_syms.append(render(g.sym_operand(t["args"][2])))
            via_helper = any(fx.callee(t) == "from_str_with_options_and_path_recorder" for b, t in f.calls())
            if via_helper:
                h = fx.fn("from_str_with_options_and_path_recorder")
                for g in fx.family(h):
                    for b, t in g.calls():
                        if fx.callee(t).startswith("de::YamlDeserializer::new"):
                            roots.append(fx.callee(t))
            ctx.check(roots and all(r.endswith("new_with_path_recorder") for r in roots), "SIBLING", key + ":recorder-attached", "the root deserializer records paths",
                      "the validating entry builds its root deserializer without a path recorder (%s): no field of a failing document can be located" % roots, config, ctx.where(f))
            # V2: validate dominates every delivered success
            vcs = validate_calls(f, fx)
            vb = [b for b, t in vcs]
            it = proto.is_iterator_next(f)
            succ = []
            if it:
                for b, i, adt, var, fl, ops, s_ in aggregates(f):
                    if s_["p"]["l"] == 0 and var == "Some":
                        with f.deep():
                            v = f.sym_operand(s_["rv"]["ops"][0])
                        if v[0] == "aggr" and v[2] == "Ok":
                            succ.append((b, s_.get("ln")))
            else:
                for b, i, adt, var, fl, ops, s_ in aggregates(f):
                    if s_["p"]["l"] == 0 and var == "Ok":
                        succ.append((b, s_.get("ln")))
            loops0 = f.sccs()
            if not it and any(b in c for b in vb for c in loops0):
                # stream variant: the result vector only ever receives validated values
                succ = [(b, t.get("ln")) for b, t in f.calls() if last_seg(fx.callee(t)) == "push" and render(f.sym_operand(t["args"][0])) == "values"]
            ctx.check(bool(succ) and all(any(f.dominates(x, b) for x in vb) for b, ln in succ), "SIBLING", key + ":validated-before-success", "every success result is preceded by validate()",
                      "a value can be returned without having been validated", config, ctx.where(f))
            # the Ok arm of validate leads to success, the Err arm to a validation error built from the recorder
            for b, t in vcs:
                verrs = [(bb, fl, s_) for bb, i, adt, var, fl, ops, s_ in aggregates(f) if adt == "de_error::Error" and var in VERR]
                ctx.check(bool(verrs), "SIBLING", key + ":error-built", "a failing validation becomes Error::%s" % "/".join(sorted(VERR)), "no validation error is built from a failing validate()", config, ctx.where(f, b))
                for bb, fl, s_ in verrs:
                    loc = render(f.sym_operand(s_["rv"]["ops"][fl.index("locations")]))
                    okl = loc.endswith("recorder.map") or loc.endswith(".map") or loc in ("locations",)
                    ctx.check(okl and f.dominates(b, bb), "SIBLING", key + ":locations-from-recorder", "the error carries this document's recorded path map", "the validation error's locations are `%s`, not the recorder's map of this document" % loc, config, ctx.where(f, bb))
            # V4/V5: stream behaviour
            loops = f.sccs()
            in_loop = [b for b in vb if any(b in c for c in loops)]
            if in_loop and not it:
                heads = [b for b, t in f.calls() if fx.callee(t) == proto.PEEK]
                fin = [b for b, t in f.calls() if fx.callee(t) == proto.FINISH]
                for b in in_loop:
                    # Err edge of validate
                    tgt = f.blocks[b]["term"]["t"]
                    sw = f.blocks[tgt]["term"]
                    err_edges = []
                    if sw["k"] == "switch":
                        arms = dict(zip(sw["vals"], sw["tgts"]))
                        if 1 in arms:
                            err_edges.append(arms[1])
                        elif 0 in arms:
                            err_edges.append(sw["tgts"][-1])
                    okk = bool(err_edges)
                    for ee in err_edges:
                        reach = f.reachable([ee], avoid=heads)
                        if any(f.blocks[x]["term"]["k"] == "return" for x in reach):
                            okk = False
                    ctx.check(okk, "SIBLING", key + ":stream-continues", "a validation failure is collected and the loop continues with the next document",
                              "the stream variant returns on the first validation failure: later failing documents are not reported", config, ctx.where(f, b))
                aggs = [(bb, s_) for bb, i, adt, var, fl, ops, s_ in aggregates(f) if adt == "de_error::Error" and var in ("ValidationErrors", "ValidatorErrors")]
                ctx.check(bool(aggs) and all(any(f.dominates(fb, bb) for fb in fin) for bb, s_ in aggs), "SIBLING", key + ":aggregate-after-finish", "the aggregate error is built after finish()",
                          "the aggregate validation error is built before finish() (a delayed budget breach / I/O error would be hidden)", config, ctx.where(f))
            if it:
                fin_w = [b for b, i, s_ in f.stmts() if s_["k"] == "assign" and s_["p"]["pr"] and render(f.sym_place(s_["p"])) == "self.finished"]
                skips = [b for b, t in f.calls() if fx.callee(t) == proto.SKIP]
                for b in vb:
                    after = f.reachable([f.blocks[b]["term"]["t"]])
                    ctx.check(not (set(fin_w) & after) and not (set(skips) & after), "SIBLING", key + ":iter-continues", "after a validation failure the iterator neither ends nor skips a document",
                              "after a validation failure the iterator marks itself finished or skips the following document", config, ctx.where(f, b))
        # ---- PROTO shared rules in this configuration
        n1 = proto.check_p1(ctx, fx, config)
        n4 = proto.check_p4(ctx, fx, config) + proto.check_p4_iter(ctx, fx, config)
        n3 = proto.check_p3(ctx, fx, config)
        C11.rule_single(ctx, fx, config)
        ctx.floor("PROTO", n1 + n3 + n4, 40, config)
        # ---- PAIR: recorder.current push/pop inside the deserializer
        C13.TRACKED[:] = ["path_map::PathRecorder"]
        try:
            np_ = 0
            for f in sorted(fx.fns.values(), key=lambda f: f.npath):
                if not f.file.endswith("src/de.rs"):
                    continue
                pairs, restores = C13.find_pairs(f, fx)
                for b, i, fld, l, dirty0 in pairs:
                    if fld != "current":
                        continue
                    np_ += 1
                    ctx.saw(f)
                    bad = C13.path_search(f, fx, b, i, fld, l, dirty0, set())
                    ordn = sum(1 for (b2, i2, f2, l2, d2) in pairs if f2 == fld and l2 < l)
                    ctx.check(not bad, "PAIR", "C18:PAIR:%s:current#%d" % (f.npath, ordn + 1), "the pushed path segment is popped on every path to return (errors included)",
                              "`recorder.current` is pushed for this element and a return is reachable without restoring it: every later path of the document is recorded under a wrong prefix", config, ctx.where(f, b))
                # recorded pair = the captured (reference, defined)
                for b, i, adt, var, fl, ops, s_ in aggregates(f):
                    if adt == "location::Locations" and f.file.endswith("src/de.rs") and any(fx.callee(t).endswith("insert") for bb, t in f.calls()):
                        r = render(ops[fl.index("reference_location")])
                        d = render(ops[fl.index("defined_location")])
                        if f.name in ("next_element_seed", "next_value_seed"):
                            ctx.check(r.endswith("reference_location") and d.endswith("defined_location"), "PAIR", "C18:PAIR:%s:recorded-pair" % f.name, "the recorded pair is (use-site, definition-site) of this element",
                                      "the recorded locations are (%s, %s)" % (r, d), config, ctx.where(f, b))
            ctx.floor("PAIR.current", np_, 2, config)
            # the same obligation stated from the *push*: wherever the recorder's current path is extended (a value built with
            # `join`), every way out of the function passes an assignment that puts a saved value back — also when the saving
            # local has been optimised away together with the restore
            npush = 0
            for f in sorted(fx.fns.values(), key=lambda f: f.npath):
                if not f.file.endswith("src/de.rs"):
                    continue
                pushes, restores = [], []
                for b, i, s_ in f.stmts():
                    if s_["k"] == "assign" and s_["p"]["pr"] and render(f.sym_place(s_["p"])).endswith(".current"):
                        with f.deep():
                            v = f.sym_rvalue(s_["rv"])
                        if sym_contains(v, lambda x: x[0] == "call" and last_seg(x[1]) == "join"):
                            pushes.append((b, i))
                        else:
                            restores.append(b)
                for b, i in pushes:
                    npush += 1
                    ctx.saw(f)
                    later_same_block = [rb for rb in restores if rb == b and any(s2["k"] == "assign" and s2["p"]["pr"] and render(f.sym_place(s2["p"])).endswith(".current") for k2, s2 in enumerate(f.blocks[b]["stmts"]) if k2 > i)]
                    nxt = f.blocks[b]["term"].get("t") if f.blocks[b]["term"]["k"] in ("call", "goto", "drop", "assert") else None
                    starts = [x for x in f.succ[b]]
                    okp = bool(restores) and (bool(later_same_block) or must_pass(f, starts, restores))
                    ctx.check(okp, "PAIR", "C18:PAIR:%s:pushed-path-restored#%d" % (f.name, npush), "the path segment pushed on `recorder.current` is put back on every way out",
                              "%s extends `recorder.current` and can return without putting the previous path back: every later field of the same mapping is recorded under a wrong prefix (`inner.hostName.port`), so its validation issue has no position" % f.npath, config, ctx.where(f, b))
            ctx.floor("PAIR.current-pushes", npush, 3, config)
            # every insert into the recorder's map stores the pair as captured: the value is a Locations literal of the two
            # captured locations, or a constructor that returns its two arguments unchanged on every path (a constructor that
            # "normalises" — e.g. collapses the pair when some derived quantity is equal — loses the definition site)
            nins = 0
            for f in sorted(fx.fns.values(), key=lambda f: f.npath):
                if not f.file.endswith("src/de.rs"):
                    continue
                for b, t in f.calls():
                    if last_seg(fx.callee_decl(t)) != "insert" or len(t["args"]) < 3:
                        continue
                    if "Locations" not in f.local_ty((t["args"][2].get("mv") or t["args"][2].get("cp") or {"l": 0})["l"]):
                        continue
                    nins += 1
                    ctx.saw(f)
                    with f.deep():
                        v = f.sym_operand(t["args"][2])
                    okv = v[0] == "aggr" and str(v[1]).endswith("Locations")
                    why = "a Locations literal"
                    if not okv and v[0] == "call" and v[1] in fx.fns:
                        h = fx.fns[v[1]]
                        aggs = [(fl, ops) for hb, hi, adt, var, fl, ops, hs in aggregates(h) if adt == "location::Locations"]
                        okv = bool(aggs) and all(render(ops[fl.index("reference_location")]) != render(ops[fl.index("defined_location")]) and ops[fl.index("reference_location")][0] in ("local", "arg") and ops[fl.index("defined_location")][0] in ("local", "arg") for fl, ops in aggs)
                        why = "constructor %s" % v[1]
                    ctx.check(okv, "PAIR", "C18:PAIR:recorded-as-captured:%s#%d" % (f.npath.split("::")[-1], nins), "the recorder stores the captured (use-site, definition-site) pair unchanged (%s)" % why,
                              "%s stores the location pair through %s, which does not return its two arguments unchanged on every path: the definition site is lost for some inputs (e.g. reader input, which has no byte offsets)" % (f.npath, render(v)[:80]), config, ctx.where(f, b))
            ctx.floor("PAIR.recorder-inserts", nins, 3, config)
        finally:
            C13.TRACKED[:] = [C13.SER]
