"""C01 — deserialization and error rendering are total: no panic, abort or hang (DESIGN §4 C01)."""
import os
import re

from ..mir import MissingAnchor, sym_contains, norm
from ..rules import render, aggregates, last_seg, bool_switches, must_pass, switch_edges, compares, local_uses, lifted
from .. import panic as P
from .. import proto, facts as factsmod

EXPLANATION = ("PANIC / PROGRESS / RECUR rules over the resolved MIR of everything that can run while deserializing or rendering an "
               "error (all modules except the serializer's): a census of every panic-capable construct — overflow / bounds / "
               "division asserts and calls of unwrap / expect / panic / indexing / RefCell borrows / draining — each discharged "
               "by a generic guard recognised from the CFG (tier 1), by an invariant rule for the residual sites the property "
               "names (tier 2: peek-then-take, KeyNode::Scalar construction, slice after starts_with, anchor-store borrow scope) "
               "or by a reviewed table row keyed by function, construct and operands (tier 3); anything else is a violation and "
               "table rows that match nothing are reported stale. Every loop of the event pump, the document skipper, the "
               "streaming iterators, the mapping access and the node capture / skip helpers makes progress on every cycle; "
               "every recursive cycle of the crate's call graph is in a reviewed table naming what bounds it; parser scan errors "
               "are converted, never unwrapped; the default options carry a budget whose depth limit is a small constant. "
               "Stack exhaustion at the depth limit, allocation failure and panics inside dependencies are not decided.")
ASSUMPTIONS = ["rustc's MIR (opt-level 0, overflow and bounds checks explicit) faithfully represents the compiled crate",
               "tier-3 rows are a reading of the code, not a proof; dependencies (saphyr-parser, annotate-snippets, regex, encoding_rs_io) do not panic or hang",
               "the target's Deserialize implementation consumes at least one event when handed a document (a hand-written impl that ignores its deserializer makes from_multiple / the iterators loop forever on the same document: observed, not repaired, DESIGN section 6)",
               "an 8 MiB stack suffices at the default depth limit: frame sizes x recursion depth is a code-generation quantity and is NOT decided (declared not applicable in DESIGN §4 C01)"]

# recursion census: SCCs of the crate-local call graph (resolved callees; visitor callbacks are
# generic and therefore do not close cycles syntactically — the deserializer <-> visitor cycle is
# listed by name and bounded by the events pulled through the enforcer's depth check)
RECUR_TABLE = {
    "de::capture_node": "recursion on nested key / merge nodes: one level per container start event pulled through the budget's depth check",
    "de::pending_entries_from_events": "merge expansion: recursion per nested merge value, each level consumes events of an already captured (budget-counted) node",
    "de::collect_entries_from_map": "with pending_entries_from_live_events / _from_events: nested merges inside merged mappings, bounded by captured events",
    "de::pending_entries_from_live_events": "see collect_entries_from_map",
    "live_events::LiveEvents::next_impl": "self-call after pushing an alias frame: depth <= 2 (the recursive call serves the frame just pushed or errors)",
    "de_error::Error::with_location": "recursion through Error::WithSnippet wrappers, which with_snippet flattens (nesting <= number of wraps)",
    "de_error::Error::location": "recursion through WithSnippet wrappers",
    "de_error::Error::locations": "recursion through WithSnippet wrappers",
    "de_error::Error::without_snippet": "recursion through WithSnippet wrappers",
    "de_error::Error::with_snippet": "re-wraps after unwrapping one WithSnippet level",
    "de_error::Error::with_snippet_offset": "re-wraps after unwrapping one WithSnippet level",
    "de_error::fmt_error_plain_with_formatter": "recursion over the errors of an aggregate validation error (finite vector)",
    "de_error::fmt_error_rendered_unsanitized": "recursion over aggregate / wrapped errors (finite nesting)",
    "de_error::fmt_error_with_snippets_offset": "with fmt_error_rendered_unsanitized: aggregate / wrapped errors",
    "message_formatters::default_format_message": "recursion through WithSnippet wrappers",
    "message_formatters::user_format_message": "recursion through WithSnippet wrappers",
    "miette::build_diagnostic": "recursion over wrapped / aggregate errors",
    "de_error::collect_validator_issues_inner": "recursion over validator's nested error tree (finite, built by the validator crate)",
    "miette::collect_validator_entries_inner": "recursion over validator's nested error tree",
    "robotics::Parser::expr": "expression recursion, bounded by MAX_EXPR_DEPTH via enter() (C19)",
    "robotics::Parser::term": "see expr", "robotics::Parser::unary": "see expr", "robotics::Parser::primary": "see expr",
    "robotics::Parser::parse_ident_or_special": "see expr",
    "path_map::PathKey::parent": "walks up a finite path",
}

PROGRESS_FNS = {
    "live_events::LiveEvents::next_impl": ("pop", "live_events::SaphyrParser::next", "live_events::LiveEvents::next_impl"),
    "live_events::LiveEvents::skip_to_next_document": ("live_events::SaphyrParser::next",),
    "de::capture_node": ("next", "de::capture_node"),
    "de::collect_entries_from_map": ("next", "de::capture_node", "de::pending_entries_from_live_events", "pop"),
    "de::pending_entries_from_events": ("next", "de::capture_node", "pop"),
    "de::pending_entries_from_live_events": ("next", "de::capture_node", "pop"),
    "de::skip_one_node_len": ("<cursor:i>",),
    "<de::YamlDeserializer as serde::Deserializer>::deserialize_map::MA::skip_one_node": ("next",),
    "<<de::YamlDeserializer as serde::Deserializer>::deserialize_map::MA as serde::de::MapAccess>::next_key_seed": ("pop_front", "pop", "de::capture_node", "skip_one_node", "next", "de::pending_entries_from_live_events"),
    "<de::YamlDeserializer as serde::Deserializer>::deserialize_map::MA::enqueue_next_merge_batch": ("pop",),
    "<de::YamlDeserializer as serde::Deserializer>::deserialize_enum": ("next",),
    "<de::YamlDeserializer as serde::Deserializer>::deserialize_bytes": ("next", "deserialize"),
    "<buffered_input::ChunkedChars as std::iter::Iterator>::next": ("read",),
}


def unsafe_forbidden():
    try:
        t = open(os.path.join(factsmod.REPO, "Cargo.toml")).read()
    except OSError:
        return False
    m = re.search(r"\[lints\.rust\](.*?)(\n\[|\Z)", t, re.S)
    return bool(m and re.search(r"unsafe_code\s*=\s*\"forbid\"", m.group(1)))


def rule_panic(ctx, fx, config):
    table = P.load_reviewed()["rows"]
    uf = unsafe_forbidden()
    ctx.check(uf, "PANIC", "C01:PANIC:unsafe-forbidden", "the crate forbids unsafe code ([lints.rust] unsafe_code = \"forbid\")", "unsafe_code is no longer forbidden: pointer checks and layout assumptions must be re-reviewed", config, "Cargo.toml")
    ss = P.sites(fx)
    gc = {}
    used = set()
    ords = {}
    tiers = {"t1": 0, "t2": 0, "t3": 0}
    for s in ss:
        ctx.saw(s.f)
        base = s.key(1)
        ords[base] = ords.get(base, 0) + 1
        key = "C01:PANIC:" + s.key(ords[base])
        where = ctx.where(s.f, s.b)
        r = P.t1(s, fx, uf, gc)
        if r:
            tiers["t1"] += 1
            ctx.ok("PANIC.t1", key, r, config, where)
            continue
        hit = None
        for ri, row in enumerate(table):
            if re.search(row["fn"], s.f.npath) and re.search(row["kind"], s.kind) and re.search(row["ops"], " , ".join(s.ops)):
                hit = (ri, row)
                break
        if hit:
            ri, row = hit
            used.add(ri)
            if row.get("t2"):
                okk = T2[row["t2"]](ctx, fx, s)
                tiers["t2"] += 1
                ctx.check(okk, "PANIC.t2", key, "invariant rule `%s`: %s" % (row["t2"], row["why"]),
                          "the invariant that makes this %s unreachable no longer holds (rule %s): %s" % (s.kind, row["t2"], row["why"]), config, where)
            else:
                tiers["t3"] += 1
                ctx.ok("PANIC.t3", key, "reviewed: " + row["why"], config, where)
        else:
            ctx.bad("PANIC", key, "panic-capable construct `%s` with operands (%s) is neither guarded (tier 1), nor covered by an invariant rule or a reviewed table row: a reachable panic until shown otherwise" % (s.kind, " , ".join(s.ops)), config, where)
    # stale rows
    for ri, row in enumerate(table):
        if ri in used:
            continue
        if row.get("configs") and config not in row["configs"]:
            continue
        exists = any(re.search(row["fn"], f.npath) for f in fx.fns.values())
        if exists:
            # a row that matches nothing excuses nothing: it is reported as a note for the table's maintainer, not as
            # a violation (an equivalent refactoring that moves or removes the construct must not raise an alarm)
            ctx.notes.append("%s: reviewed-table row matches no construct any more (%s | %s): prune it" % (config, row["fn"][:60], row["kind"][:30]))
    ctx.floor("PANIC.sites", len(ss), 250, config)
    ctx.notes.append("%s: PANIC census %d sites: %s" % (config, len(ss), tiers))


# ---- tier-2 invariant rules ---------------------------------------------------------------------

def t2_peek_then_take(ctx, fx, s):
    """the panicking construct is reached only after a peek whose discriminant was switched on, with no consuming
    call on the event source in between except the single next()/peek() whose result is unwrapped / matched"""
    f, b = s.f, s.b
    peeks = [pb for pb, t in f.calls() if last_seg(fx.callee_decl(t)) == "peek" and f.dominates(pb, b)]
    if not peeks:
        return False
    p0 = max(peeks, key=lambda x: len(f.dom[x]))
    # consuming calls between the dominating peek and the site
    consuming = 0
    for x in f.live_blocks:
        if x == p0 or x == b:
            continue
        if f.dominates(p0, x) and f.dominates(x, b):
            t = f.blocks[x]["term"]
            if t["k"] == "call":
                c = last_seg(fx.callee_decl(t))
                cc = fx.callee(t)
                if c == "next" and "Events" in fx.callee_decl(t) or cc.endswith("::take_scalar_event") or cc.endswith("::take_scalar_cow_with_location") or cc.endswith("capture_node"):
                    consuming += 1
    return consuming <= 1


def t2_keynode(ctx, fx, s):
    """every function that constructs KeyNode::Scalar fills its one-element `events` vector (the `vec![..]`
    array literal) with an Ev::Scalar aggregate, and builds no other Ev array"""
    n = 0
    for f in fx.fns.values():
        if not any(adt == "de::KeyNode" and var == "Scalar" for b, i, adt, var, fl, ops, st in aggregates(f)):
            continue
        n += 1
        arrays = [st for b, i, st in f.stmts() if st["k"] == "assign" and st["rv"]["k"] == "aggr" and st["rv"]["ak"] == "array"]
        scalar_arrays = 0
        for st in arrays:
            with f.deep():
                ops = [f.sym_operand(o) for o in st["rv"]["ops"]]
            if len(ops) == 1 and ops[0][0] == "aggr" and ops[0][1] == "de::Ev" and ops[0][2] == "Scalar":
                scalar_arrays += 1
        nk = sum(1 for b, i, adt, var, fl, ops, st in aggregates(f) if adt == "de::KeyNode" and var == "Scalar")
        if scalar_arrays < nk:
            return False
    return n >= 1


def t2_slice_after_starts_with(ctx, fx, s):
    f, b = s.f, s.b
    for sb, sym, tt, ff in bool_switches(f):
        with f.deep():
            d = f.sym_operand(f.blocks[sb]["term"]["o"])
        if d[0] == "call" and last_seg(d[1]) == "starts_with" and len(d[2]) == 2:
            lit = d[2][1]
            while lit[0] in ("ref", "deref"):
                lit = lit[1]
            if lit[0] == "const" and isinstance(lit[1], str) and len(lit[1].encode()) >= 2 and render(d[2][0]) in s.ops[0] and f.edge_dominates(sb, tt, b):
                return True
    return False


def t2_borrow_scope(ctx, fx, s, g=None, depth=3):
    """the closure that borrows the anchor store calls nothing that could borrow it again or run user code; a call to a
    private anchor_store helper is followed (the helper must satisfy the same condition)"""
    g = g or s.f
    # no stored value dies under the borrow: dropping the last owner of a user value runs its Drop, which may call back
    # into the crate (from_str starts by borrowing the same cell).  Stored values die in drop terminators of the state's
    # own types or of an Option<Rc / Arc<dyn Any>> (what `insert` returns), and inside clear / remove / retain / drain.
    for b in g.live_blocks:
        t = g.blocks[b]["term"]
        if t["k"] == "drop" and re.search(r"anchor_store::Anchor(State|Store)|^std::option::Option<std::(rc::Rc|sync::Arc)<dyn|HashMap<usize, std::(rc::Rc|sync::Arc)<dyn", t.get("pty", "")) and not re.search(r"Ref(Mut)?<", t.get("pty", "")):
            return False
    for b, t in g.calls():
        c = fx.callee(t)
        if "LocalKey::with" in c:
            return False
        if last_seg(c) in ("clear", "remove", "retain", "drain", "remove_entry", "truncate") and re.search(r"HashMap|Vec", c) and any("dyn std::any::Any" in str(a) for a in (t["f"].get("args") or [])):
            return False
        if c.startswith("anchor_store::"):
            h = fx.local_callee(t)
            if h is None or h is g or depth <= 0 or not t2_borrow_scope(ctx, fx, s, h, depth - 1):
                return False
            continue
        if "path" not in t["f"]:
            return False  # indirect call
        if t["f"].get("res") is None and t["f"].get("trait") and not str(t["f"].get("trait")).startswith("std::"):
            return False  # unresolved non-std trait call (user code)
    return True


def t2_report_callback_once(ctx, fx, s):
    """the budget-report callback cell is borrowed at exactly one site of the crate (a second site could be reached while
    the first borrow is live, from inside the callback)"""
    n = 0
    for x in P.sites(fx):
        if x.kind == "call:RefCell::borrow_mut" and re.search(r"callback", " , ".join(x.ops)):
            n += 1
    return n == 1 and re.search(r"callback", " , ".join(s.ops)) is not None


def t2_index_after_ensure(ctx, fx, s):
    """`v[i]` is dominated by `ensure_*capacity(i)` or by `if i >= v.len() { v.resize(i + k, ..) }`"""
    f, b = s.f, s.b
    x, i = s.ops[0], s.ops[1]
    for cb, t in f.calls():
        c = fx.callee(t)
        if not f.dominates(cb, b) or cb == b:
            continue
        if last_seg(c).startswith("ensure_") and "capacity" in last_seg(c) and any(render(f.sym_operand(a)) == i for a in t["args"][1:]):
            g = fx.local_callee(t)
            # the helper itself resizes under `id >= len`
            if g is not None and any(last_seg(fx.callee(gt)).startswith("resize") for gb, gt in g.calls()):
                return True
    for c in compares(f):
        if c["op"] == "Ge" and c["rl"] == i and c["rr"] == "len(%s)" % x and f.dominates(c["block"], b):
            rs = [rb for rb, rt in f.calls() if last_seg(fx.callee(rt)).startswith("resize") and render(f.sym_operand(rt["args"][0])) == x
                  and render(f.sym_operand(rt["args"][1])).startswith("Add(%s, " % i)]
            if rs and must_pass(f, [c["t"]], rs, to_blocks=[b]):
                return True
    return False


def t2_bounds_after_len_check(ctx, fx, s):
    """slice[idx] directly after `if idx >= slice.len() { …; continue / return }`"""
    f, b = s.f, s.b
    with f.deep():
        cs = list(compares(f))
    cs += list(compares(f))
    idx = s.ops[0]
    for c in cs:
        if c["op"] in ("Ge",) and (c["rl"] == idx or c["rl"].endswith(idx)) and "len(" in c["rr"] and f.edge_dominates(c["block"], c["f"], b):
            return True
    return False


def t2_index_len_decrement(ctx, fx, s):
    """`v[idx]` where idx = V - k (k >= 1, checked) and V is `v.len()` or a loop variable whose every definition is `v.len()` or a
    decrement of itself: then V <= len and, past the (separately discharged) overflow check, idx < len.  `v` is not shrunk between the
    `len()` call and the use."""
    f, b = s.f, s.b
    if len(s.deep_ops) < 2:
        return False
    coll, idx = s.deep_ops[0], s.deep_ops[1]
    if not (idx[0] == "field" and idx[2] == "0" and idx[1][0] == "bin" and idx[1][1] == "SubWithOverflow"):
        return False
    V, k = idx[1][2], idx[1][3]
    kk = k[1] if k[0] == "const" and isinstance(k[1], int) else None
    if not kk or kk < 1:
        return False
    lens = []

    def is_len(x):
        if x[0] == "call" and last_seg(x[1]) == "len" and x[2] and x[2][0] == coll:
            lens.append(x[3] if len(x) > 3 else None)
            return True
        return False

    def ok_alt(x, phi_local):
        if is_len(x):
            return True
        if x[0] == "call" and last_seg(x[1]) in ("saturating_sub",) and x[2] and x[2][0] == ("local", phi_local):
            return True
        if x[0] == "field" and x[1][0] == "bin" and x[1][1] == "SubWithOverflow" and x[1][2] == ("local", phi_local):
            return True
        return False
    if V[0] == "phi":
        if not all(ok_alt(a, V[1]) for a in V[2]):
            return False
    elif not is_len(V):
        return False
    lenblocks = [x for x in lens if x is not None]
    if not lenblocks:
        return False
    # the overflow check of this very subtraction must exist and dominate (it is a census site of its own)
    subs = [bb for bb in f.live_blocks if f.blocks[bb]["term"]["k"] == "assert" and f.blocks[bb]["term"].get("ak") == "overflow:Sub" and f.dominates(bb, b)]
    if not subs:
        return False
    # no shrinking of the collection between len() and the use
    for cb, t in f.calls():
        if last_seg(fx.callee(t)) in ("truncate", "clear", "drain", "pop", "remove", "split_off", "swap_remove", "retain") and t["args"]:
            with f.deep():
                a0 = f.sym_operand(t["args"][0])
            if sym_contains(a0, lambda n: n == coll) and cb != b and not must_pass(f, [cb], lenblocks, to_blocks=[b]):
                return False
    return True


T2 = {"index-len-decrement": t2_index_len_decrement, "index-after-ensure": t2_index_after_ensure, "bounds-after-len-check": t2_bounds_after_len_check, "peek-then-take": t2_peek_then_take, "keynode-scalar-construction": t2_keynode,
      "slice-after-starts-with": t2_slice_after_starts_with, "anchor-store-borrow-scope": t2_borrow_scope, "report-callback-borrowed-once": t2_report_callback_once}


def rule_progress(ctx, fx, config):
    n = 0
    for name, prog in PROGRESS_FNS.items():
        f = fx.fn(name)
        ctx.saw(f)
        def is_prog(g, b, t, prog=prog):
            c = fx.callee(t)
            cd = fx.callee_decl(t)
            return c in prog or last_seg(c) in prog or last_seg(cd) in prog

        def advancing(g, prog=prog):
            # a block advances if it makes a progress call, or calls a crate-local helper in which one is unavoidable
            adv = set(lifted(fx, g, is_prog, depth=2))
            for p in prog:
                m = re.match(r"^<cursor:(\w+)>$", p)
                if m:
                    for b, i, s_ in g.stmts():
                        if s_["k"] == "assign" and not s_["p"]["pr"] and render(g.sym_rvalue(s_["rv"])) == "Add(%s, 1)" % g.local_name(s_["p"]["l"]):
                            adv.add(b)
            return adv
        # the function's own loops, and the loops of the private helpers it was split into (an extracted loop keeps its
        # obligation; a function whose loop is gone altogether has nothing left to hang in)
        todo = [(f, name)]
        for b, t in f.calls():
            h = fx.local_callee(t)
            if h is None or h is f or h.kind == "closure" or h.d.get("vis") == "pub" or len(todo) > 12:
                continue
            if any(h is g for g, _ in todo) or any(fx.fn_opt(k) is h for k in PROGRESS_FNS):
                continue
            todo.append((h, name + ">" + h.name))
        found = 0
        for g, label in todo:
            loops = g.sccs()
            adv = advancing(g)
            if g is not f:
                # in a helper, a `for` over a std iterator is bounded by the collection it walks
                adv |= {b for b, t in g.calls() if re.search(r"(^|::)iter::(traits::)?\w*::?Iterator::next$|Iterator::next$|DoubleEndedIterator::next_back$", fx.callee_decl(t))}
            for comp in loops:
                n += 1
                found += 1
                rest = comp - adv
                still = g.sccs(rest) if rest else []
                ctx.check(not still, "PROGRESS", "C01:PROGRESS:%s" % label, "every cycle of the loop pulls / pops / advances (%s)" % ", ".join(x.rsplit("::", 1)[-1] for x in prog),
                          "%s contains a loop cycle without any of its progress calls (%s): a hang on some input" % (label, ", ".join(prog)), config, ctx.where(g, min(comp)))
        if not found:
            ctx.notes.append("%s: PROGRESS: %s and its private helpers contain no loop any more (nothing to decide)" % (config, name))
    # READ-ZERO: a loop whose progress is `Read::read` only advances when the read returned bytes; `Ok(0)` (end of input)
    # must leave the loop, otherwise a stream ending early spins forever.
    nread = 0
    for f in sorted(fx.fns.values(), key=lambda f: f.npath):
        if not P.in_scope(f):
            continue
        rd = [b for b, t in f.calls() if fx.callee_decl(t).endswith("io::Read::read")]
        if not rd:
            continue
        for comp in f.sccs():
            for rb in [b for b in rd if b in comp]:
                nread += 1
                zero_exit = False
                # (the switch on the byte count may sit outside the cycle when every Ok arm leaves the loop)
                for b in sorted(f.live_blocks):
                    t = f.blocks[b]["term"]
                    if t["k"] != "switch" or 0 not in t["vals"]:
                        continue
                    with f.deep():
                        sym = f.sym_operand(t["o"])
                    r = render(sym)
                    # the switch is on the byte count itself: `<read call>@Ok.0` (or `@Continue.0` after `?`)
                    if sym[0] not in ("discr", "bin", "un", "call") and re.search(r"@(Ok|Continue)\.0$", r) and sym_contains(sym, lambda x: x[0] == "call" and len(x) > 3 and x[3] == rb):
                        tgt0 = t["tgts"][t["vals"].index(0)]
                        if tgt0 not in comp:
                            zero_exit = True
                # idiom 2: `let n = read(..)?; if n == 0 { break }`
                with f.deep():
                    for c in compares(f):
                        if c["block"] in comp and c["op"] in ("Eq", "Ne") and "0" in (c["rr"], c["rl"]):
                            other = c["lhs"] if c["rr"] == "0" else c["rhs"]
                            if sym_contains(other, lambda x: x[0] == "call" and len(x) > 3 and x[3] == rb):
                                ex = c["t"] if c["op"] == "Eq" else c["f"]
                                if ex not in comp:
                                    zero_exit = True
                ctx.check(zero_exit, "PROGRESS", "C01:PROGRESS:read-zero:%s" % f.npath, "a zero-length read leaves the read loop",
                          "%s loops on Read::read without leaving the loop when it returns Ok(0): an input that ends inside the awaited bytes spins forever" % f.npath, config, ctx.where(f, rb))
    ctx.floor("PROGRESS.read-loops", nread, 2, config)
    its = list(proto.iterator_nexts(fx)) + [g for g in fx.fns.values() if g.name in ("from_multiple_with_options", "from_multiple_with_options_valid", "from_multiple_with_options_validate") and g.sccs()]
    for f in its:
        adv = _consuming_blocks(f, fx)
        for comp in f.sccs():
            n += 1
            rest = comp - adv
            still = f.sccs(rest) if rest else []
            ctx.check(not still, "PROGRESS", "C01:PROGRESS:%s" % f.npath, "every cycle of the document loop consumes an event, hands the source to the target's Deserialize, or skips to the next document",
                      "the document loop of %s has a cycle that neither consumes an event nor deserializes / skips a document (possible hang)" % f.npath, config, ctx.where(f, min(comp)))
    ctx.floor("PROGRESS.loops", n, 14, config)


def _consuming_blocks(f, fx):
    """blocks of a document loop that make progress: Events::next, skip_to_next_document, or a call that receives a root
    deserializer over the event source (T::deserialize / DeserializeSeed / with_document_scope closure doing so)"""
    adv = set()
    for b, t in f.calls():
        c = fx.callee(t)
        if c == proto.NEXT or c.endswith("::skip_to_next_document") or c.endswith("with_document_scope"):
            adv.add(b)
        if t["f"].get("name") == "deserialize" and ("Deserialize" in str(t["f"].get("trait")) or "serde" in fx.callee_decl(t)):
            adv.add(b)
    return adv


def rule_recur(ctx, fx, config):
    # crate-local call graph over resolved callees (closures attributed to their root function)
    def rootname(f):
        return fx.fns[f.root].npath if f.kind == "closure" and f.root in fx.fns else f.npath
    cg = {}
    for f in fx.fns.values():
        if not P.in_scope(f):
            continue
        r = rootname(f)
        for b, t in f.calls():
            g = fx.local_callee(t)
            if g is not None and P.in_scope(g):
                if g.kind == "closure" and rootname(g) == r:
                    continue  # a function calling its own closure is not recursion
                cg.setdefault(r, set()).add(rootname(g))
    # Tarjan
    index, low, onst, st, comps = {}, {}, set(), [], []
    import sys
    sys.setrecursionlimit(20000)
    cnt = [0]

    def sc(v):
        index[v] = low[v] = cnt[0]
        cnt[0] += 1
        st.append(v)
        onst.add(v)
        for w in cg.get(v, ()):
            if w not in index:
                sc(w)
                low[v] = min(low[v], low[w])
            elif w in onst:
                low[v] = min(low[v], index[w])
        if low[v] == index[v]:
            c = set()
            while True:
                w = st.pop()
                onst.discard(w)
                c.add(w)
                if w == v:
                    break
            if len(c) > 1 or v in cg.get(v, ()):
                comps.append(c)
    for v in sorted(set(cg) | {w for ws in cg.values() for w in ws}):
        if v not in index:
            sc(v)
    n = 0
    for c in comps:
        # a cycle is reviewed through any of its members: a helper extracted from a reviewed recursive function joins
        # that function's cycle and inherits its bound (every trip round the cycle still passes the reviewed function)
        reviewed = sorted(v for v in c if v in RECUR_TABLE)
        for v in sorted(c):
            n += 1
            ctx.check(bool(reviewed), "RECUR", "C01:RECUR:%s" % v, "recursive cycle reviewed: %s" % (RECUR_TABLE.get(v) or ("through " + reviewed[0] + ": " + RECUR_TABLE[reviewed[0]] if reviewed else "")),
                      "`%s` is on a recursive cycle (%s) that is not in the reviewed table: name what bounds its depth" % (v, sorted(c)[:4]), config, ctx.where(fx.fn_opt(v)) if fx.fn_opt(v) else None)
    ctx.floor("RECUR.members", n, 8, config)
    # the self-call of the pump happens only right after pushing a replay frame (the pump may be split into private
    # helpers of the same type: the re-entry is then a call from a helper back into the pump)
    ni = fx.fn("live_events::LiveEvents::next_impl")
    fam = _pump_family(fx, ni)
    is_push = lambda g, b, t: fx.callee(t) == "std::vec::Vec::push" and render(g.sym_operand(t["args"][0])) == "self.inject"
    reentries, bad = 0, []
    for g in fam:
        pushes = lifted(fx, g, is_push, depth=1, same_adt=ni.d.get("impl_adt"))
        for b, t in g.calls():
            if fx.callee(t) == ni.npath:
                reentries += 1
                if not any(g.dominates(pb, b) for pb in pushes):
                    bad.append(g.name)
    ctx.check(reentries >= 1 and not bad, "RECUR", "C01:RECUR:next_impl:after-push", "the pump re-enters itself only right after pushing an alias frame (which the re-entry serves)", "the pump's re-entry (in %s) is not preceded by the frame push: unbounded self-recursion" % (bad or "none found"), config, ctx.where(ni))


def _pump_family(fx, ni):
    """next_impl and the private helpers of the same type it is split into (two levels)"""
    fam = [ni]
    for g in fam:  # grows while iterating (bounded below)
        if g is not ni and g not in first:
            continue
        if g is ni:
            first = []
        for b, t in g.calls():
            h = fx.local_callee(t)
            if h is not None and h not in fam and h.kind != "closure" and h.d.get("impl_adt") == ni.d.get("impl_adt") and h.d.get("vis") != "pub" and len(fam) < 16:
                fam.append(h)
                if g is ni:
                    first.append(h)
    return fam


def rule_scan_errors(ctx, fx, config):
    """the Result of every parser pull is converted / matched, never unwrapped"""
    n = 0
    for f in fx.fns.values():
        for b, t in f.calls():
            if fx.callee(t) != "live_events::SaphyrParser::next":
                continue
            n += 1
            ctx.saw(f)
            d = t["dest"]["l"]
            bad = []
            for ub, ut in f.calls():
                c = last_seg(fx.callee(ut))
                if c in ("unwrap", "expect", "unwrap_unchecked"):
                    with f.deep():
                        a = f.sym_operand(ut["args"][0])
                    if sym_contains(a, lambda x: x[0] == "call" and x[1] == "live_events::SaphyrParser::next"):
                        bad.append(ut.get("ln"))
            ctx.check(not bad, "PANIC", "C01:SCAN:%s:pull-not-unwrapped#%d" % (f.npath, n), "the pulled Result is matched / converted (from_scan_error), never unwrapped", "a parser pull is unwrapped (line %s): a scan error panics" % bad, config, ctx.where(f, b))
    ctx.floor("SCAN.pulls", n, 3, config)
    # the parser does not recover from a scan error: it repeats it on every further pull and never reports the end of the
    # stream.  A loop that pulls must therefore *leave* on an `Err` item — passing over it spins forever.
    nl = 0
    for f in sorted(fx.fns.values(), key=lambda g: g.npath):
        pulls = [b for b, t in f.calls() if fx.callee(t) == "live_events::SaphyrParser::next"]
        if not pulls:
            continue
        for comp in f.sccs():
            for pb in [b for b in pulls if b in comp]:
                cands = []
                for sb in sorted(comp):
                    t = f.blocks[sb]["term"]
                    if t["k"] != "switch":
                        continue
                    with f.deep():
                        sym = f.sym_operand(t["o"])
                    if sym[0] != "discr" or not re.search(r"@Some\.0$", render(sym[1])) or not sym_contains(sym, lambda x: x[0] == "call" and len(x) > 3 and x[3] == pb):
                        continue
                    cands.append(sb)
                # the test of the item is the first such switch; later ones on the same value are drop elaboration
                for sb in [x for x in cands if not any(y != x and f.dominates(y, x) for y in cands)]:
                    t = f.blocks[sb]["term"]
                    nl += 1
                    err_tgt = t["tgts"][t["vals"].index(1)] if 1 in t["vals"] else t["tgts"][-1]
                    stays = err_tgt in comp and pb in f.reachable([err_tgt], avoid=list(f.return_blocks()))
                    ctx.check(not stays, "PROGRESS", "C01:PROGRESS:scan-error-leaves-loop:%s" % f.name, "an `Err` item pulled from the parser leaves the pulling loop",
                              "%s passes over an `Err` item of the parser and pulls again: the parser repeats a scan error on every pull and never ends the stream, so the loop never terminates" % f.name, config, ctx.where(f, sb))
    ctx.notes.append("%s: SCAN: %d pulling loop(s) branch on the pulled item's Result themselves (the others propagate it with `?`)" % (config, nl))
    ni = fx.fn("live_events::LiveEvents::next_impl")
    conv = [b for g in _pump_family(fx, ni) for b, t in g.calls() if (last_seg(fx.callee(t)) == "map_err" and any(render(g.sym_operand(a)) == "fn:de_error::Error::from_scan_error" for a in t["args"])) or fx.callee(t) == "de_error::Error::from_scan_error"]
    ctx.check(bool(conv), "PANIC", "C01:SCAN:converted", "scan errors are converted with Error::from_scan_error", "next_impl no longer converts scan errors with from_scan_error", config, ctx.where(ni))


def rule_depth_default(ctx, fx, config):
    bd = fx.fn("<budget::Budget as std::default::Default>::default")
    ctx.saw(bd)
    okd = False
    for b, i, adt, var, fl, ops, s_ in aggregates(bd):
        if adt == "budget::Budget" and "max_depth" in fl:
            v = ops[fl.index("max_depth")]
            okd = v[0] == "const" and isinstance(v[1], int) and 0 < v[1] <= 4096
            ctx.check(okd, "LIMIT", "C01:LIMIT:default-depth", "default nesting-depth limit is the constant %s" % (v[1] if v[0] == "const" else "?"), "the default depth limit is %s: recursion of node capture / map / seq deserialization is no longer bounded by a small constant" % render(v), config, ctx.where(bd))
    od = fx.fn("<options::Options as std::default::Default>::default")
    has = False
    for b, i, adt, var, fl, ops, s_ in aggregates(od):
        if adt == "options::Options" and "budget" in fl:
            with od.deep():
                v = od.sym_operand(s_["rv"]["ops"][fl.index("budget")])
            has = v[0] == "aggr" and v[2] == "Some"
    ctx.check(has, "LIMIT", "C01:LIMIT:default-budget-on", "Options::default() carries Some(budget)", "Options::default() no longer enables a budget: depth is unbounded by default", config, ctx.where(od))


def run(ctx):
    for config in ctx.configs:
        fx = ctx.facts(config, raw=True)
        rule_panic(ctx, fx, config)
        rule_progress(ctx, fx, config)
        rule_recur(ctx, fx, config)
        rule_scan_errors(ctx, fx, config)
        rule_depth_default(ctx, fx, config)
