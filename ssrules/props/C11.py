"""C11 — a multi-document stream is the list of its documents, each on its own (DESIGN §4 C11)."""
import re
from ..mir import MissingAnchor, norm
from ..rules import render, writes_in, must_pass, aggregates, bool_switches, last_seg, switch_edges
from .. import proto
from . import C07

EXPLANATION = ("Static rules over the resolved MIR: RESET (every per-document field the event pump writes is cleared by "
               "reset_document_state, which runs on both document-boundary arms of the pump and on both boundary arms of the "
               "skip path), SCOPE (user code runs inside one anchor-identity scope per document, inside the document loop), "
               "SINGLE (every single-document entry point turns a second document into the multiple-documents error before "
               "finishing), ITER (the three streaming iterators test `finished` first, set it on every path that ends the "
               "stream, and make progress in every loop), SKIP (the recovery loop pulls on every iteration).")
ASSUMPTIONS = ["the target's Deserialize implementation consumes at least one event per document (see C01)",
               "rustc's MIR (opt-level 0) faithfully represents the compiled crate",
               "equality with per-document deserialization and the exact resume position after an error are runtime facts: not decided"]

LE = "live_events::LiveEvents"
RESET_FN = LE + "::reset_document_state"
EXEMPT = {
    "self.look": "single-slot look-ahead: owned by next()/peek(), cleared by the skip path",
    "self.last_location": "diagnostic only",
    "self.produced_any_in_doc": "stream-level by design: callers skip empty later documents; cleared by the skip path",
    "self.synthesized_null_emitted": "stream-level by design (empty input detection)",
    "self.budget": "the enforcer applies its own per-document policy (C07)",
    "self.error": "shared I/O error cell (C10)",
    "self.parser": "the parser itself",
    "self.seen_doc_end": "set by the DocumentEnd arm right after the reset (and cleared by the reset)",
}


def event_arm_targets(f, fx, variant):
    idx = [v["name"] for v in fx.adt("saphyr_parser_bw::Event")["variants"]].index(variant)
    out = []
    for b, t in C07.event_matches(f):
        arms = dict(zip(t["vals"], t["tgts"]))
        if idx in arms:
            out.append((b, arms[idx]))
    return out


def rule_reset(ctx, fx, config):
    ni = fx.fn(LE + "::next_impl")
    rs = fx.fn(RESET_FN)
    ctx.saw(ni)
    ctx.saw(rs)
    reset_blocks_ni = [b for b, t in ni.calls() if fx.callee(t) == RESET_FN]
    # written set of the pump (with callee summaries), outside the reset calls
    allw = writes_in(ni, fx, blocks=ni.live_blocks - set(reset_blocks_ni))
    resw = writes_in(rs, fx)
    n = 0
    for p in sorted(x for x in allw if x.startswith("self.") and x.count(".") == 1):
        n += 1
        key = "C11:RESET:next_impl:%s" % p
        if p in EXEMPT:
            ctx.ok("RESET", key, "exempt: %s" % EXEMPT[p], config, ctx.where(ni))
            continue
        cov = any(r == p or r.startswith(p + ".") or r.startswith(p + "[") or p.startswith(r + ".") for r in resw)
        ctx.check(cov, "RESET", key, "per-document field is cleared by reset_document_state",
                  "`%s` is written by the event pump (%s) but not cleared by reset_document_state: state of one document is visible in the next" % (p, allw[p][0]), config, ctx.where(rs))
    ctx.floor("RESET.fields", n, 8, config)
    # the reset runs on both boundary arms of the pump …
    pulls = [b for b, t in ni.calls() if fx.callee(t) == "live_events::SaphyrParser::next"]
    for variant in ("DocumentStart", "DocumentEnd"):
        arms = [(b, tg) for b, tg in event_arm_targets(ni, fx, variant) if not any(render(sym) == "self.stop_at_doc_end" and ni.dominates(tt, b) for _sb, sym, tt, _ff in bool_switches(ni))]
        ctx.floor("RESET.arm.%s" % variant, len(arms), 1, config)
        for b, tg in arms:
            okr = must_pass(ni, [tg], reset_blocks_ni, to_blocks=set(ni.return_blocks()) | set(pulls))
            ctx.check(okr, "RESET", "C11:RESET:next_impl:arm:%s" % variant, "%s arm resets the per-document state before the next pull" % variant,
                      "the %s arm of the pump reaches the next pull / a return without reset_document_state()" % variant, config, ctx.where(ni, tg))
    # … and on both boundary arms of the skip path; the skip path also clears the look-ahead
    sk = fx.fn(proto.SKIP)
    ctx.saw(sk)
    rb = [b for b, t in sk.calls() if fx.callee(t) == RESET_FN]
    spulls = [b for b, t in sk.calls() if fx.callee(t) == "live_events::SaphyrParser::next"]
    for variant in ("DocumentStart", "DocumentEnd"):
        for b, tg in event_arm_targets(sk, fx, variant):
            okr = must_pass(sk, [tg], rb, to_blocks=set(sk.return_blocks()) | set(spulls))
            ctx.check(okr, "RESET", "C11:RESET:skip:arm:%s" % variant, "skip path: %s arm resets the per-document state" % variant,
                      "skip_to_next_document: the %s arm does not reset the per-document state" % variant, config, ctx.where(sk, tg))
    skw = writes_in(sk, fx, blocks=[b for b in sk.live_blocks if not any(sk.dominates(p, b) for p in spulls)])
    for fld in ("self.look", "self.inject", "self.rec_stack"):
        ctx.check(fld in skw, "RESET", "C11:RESET:skip:clears:%s" % fld, "skip path clears %s before pulling" % fld,
                  "skip_to_next_document no longer clears %s before pulling raw events" % fld, config, ctx.where(sk))
    # produced_any_in_doc must be cleared when a new document is found
    for b, tg in event_arm_targets(sk, fx, "DocumentStart"):
        wr = [bb for bb, i, s_ in sk.stmts() if s_["k"] == "assign" and s_["p"]["pr"] and render(sk.sym_place(s_["p"])) == "self.produced_any_in_doc"]
        ctx.check(must_pass(sk, [tg], wr), "RESET", "C11:RESET:skip:produced_any", "skip path re-arms empty-document detection",
                  "skip_to_next_document finds a new document without clearing produced_any_in_doc", config, ctx.where(sk, tg))
    # PROGRESS: the skip loop pulls on every iteration
    for comp in sk.sccs():
        ctx.check(bool(set(spulls) & comp), "PROGRESS", "C11:PROGRESS:skip", "every cycle of the skip loop pulls a parser event",
                  "skip_to_next_document contains a cycle without a parser pull (possible hang)", config, ctx.where(sk))


def rule_reset_whole(ctx, fx, config, prop="C11"):
    """RESET:clears-whole — a per-document table that is cleared slot by slot is walked from its first slot to its last: the
    iterator the clearing loop runs over is the field itself, not a sub-range of it (`anchors[base..]`, `.skip(n)`,
    `.take(n)`).  "Only the slots used since the last boundary" is exactly the kind of reasoning that goes wrong when another
    function pads the table (ensure_anchor_capacity grows it by eight): a slot filled by one document is then never cleared
    and a later document's alias resolves to it."""
    rs = fx.fn(RESET_FN)
    ctx.saw(rs)
    n = 0
    for b, t in rs.calls():
        if last_seg(fx.callee_decl(t)) not in ("into_iter", "iter_mut") or not t["args"]:
            continue
        with rs.deep():
            a = render(rs.sym_operand(t["args"][0]))
        # `v.iter_mut()` on a Vec goes through DerefMut to the slice: the whole of it
        a = re.sub(r"^(?:deref_mut|deref|as_mut_slice|as_mut)\((self\.\w+)\)$", r"\1", a)
        m = re.search(r"self\.(\w+)", a)
        if not m:
            continue
        n += 1
        fld = m.group(1)
        ctx.check(a == "self." + fld, "RESET", "%s:RESET:clears-whole:%s" % (prop, fld), "the clearing loop walks the whole of `%s`" % fld,
                  "reset_document_state clears only part of `%s` (it iterates over `%s`): a slot outside that range keeps what an earlier document stored there, and a later document's alias can resolve to it" % (fld, a[:80]), config, ctx.where(rs, b))
    ctx.floor("RESET.slotwise-tables", n, 2, config)


def rule_scope(ctx, fx, config):
    n = proto.check_p3(ctx, fx, config)
    ctx.floor("PROTO.p3", n, 5, config)
    # per document: in entry functions with a document loop, the scope call is inside the loop
    k = 0
    for e in proto.entries(fx):
        f = e.fn
        fam = [f] + [g for g in fx.fns.values() if is_iter_of(fx, g, f)]
        for g in fam:
            scopes = [b for b, t in g.calls() if fx.callee(t) == proto.SCOPE]
            peeks = [b for b, t in g.calls() if fx.callee(t) == proto.PEEK]
            if not scopes or not peeks:
                continue
            loops = g.sccs()
            doc_loops = [c for c in loops if set(peeks) & c]
            if not doc_loops:
                continue
            k += 1
            ctx.saw(g)
            ctx.check(all(any(sb in c for c in doc_loops) for sb in scopes) or proto.is_iterator_next(g), "SCOPE", "C11:SCOPE:per-document:%s" % g.npath,
                      "the anchor-identity scope is opened inside the document loop (one per document)",
                      "with_document_scope is called outside the document loop: all documents share one anchor identity table", config, ctx.where(g, scopes[0]))
    ctx.floor("SCOPE.loops", k, 1, config)
    # one document per scope: inside the scope closure the root deserializer is not built in a loop
    for g in fx.fns.values():
        if g.kind != "closure":
            continue
        for b, t in proto.consumer_calls(fx, g):
            ctx.check(not any(b in comp for comp in g.sccs()), "SCOPE", "C11:SCOPE:one-document-per-scope:%s" % g.npath,
                      "the scope closure deserializes exactly one document", "several documents are deserialized inside one anchor-identity scope (loop inside the scope closure)", config, ctx.where(g, b))


def is_iter_of(fx, g, f):
    return proto.is_iterator_next(g) and g.npath.startswith("<" + f.npath + "::")


def single_doc_checkers(fx):
    """functions that peek, turn `Ok(Some(_))` into the multiple-documents error, and only then finish."""
    fin = proto.finishing_set(fx)
    out = {}
    for f in fx.fns.values():
        peeks = [b for b, t in f.calls() if fx.callee(t) == proto.PEEK]
        multi = [b for b, t in f.calls() if fx.callee(t) == proto.MULTI_ERR]
        fins = [b for b, t in f.calls() if fx.callee(t) in fin]
        if not (peeks and multi and fins):
            continue
        some_edges = []
        for b in sorted(f.live_blocks):
            t = f.blocks[b]["term"]
            if t["k"] != "switch":
                continue
            with f.deep():
                sym = f.sym_operand(t["o"])
            r = render(sym)
            if sym[0] == "discr" and "peek(" in r and r.endswith("@Ok.0)"):
                for v, tg in zip(t["vals"], t["tgts"]):
                    if v == 1:
                        some_edges.append(tg)
        ok = bool(some_edges)
        for tg in some_edges:
            if not must_pass(f, [tg], multi):
                ok = False
            if any(b2 in f.reachable([tg]) for b2, _s, _l in proto.ok_sources(f) if not is_err_wrap(f, b2)):
                ok = False
        if not all(any(f.dominates(p, fb) for p in peeks) for fb in fins):
            ok = False
        out[f.npath] = ok
    return out


def is_err_wrap(f, b):
    # `_0 = Err(..)` built by a call (e.g. `Err(wrap_err(e))` is an aggregate; map_err results are calls)
    return False


def rule_single(ctx, fx, config):
    sd = single_doc_checkers(fx)
    fin = proto.finishing_set(fx)
    n = 0
    roots = {}
    for e in proto.entries(fx):
        roots[e.fn.npath] = e.fn
    for name, f in sorted(roots.items()):
        ret = f.d.get("sig", "").split("->")[-1].strip()
        if not ret.startswith("std::result::Result"):
            continue
        scopes = [b for b, t in f.calls() if fx.callee(t) == proto.SCOPE]
        loops = f.sccs()
        if any(any(sb in c for c in loops) for sb in scopes):
            continue  # multi-document entry
        if any("Vec<T>" in ret for _ in [0]) and not scopes:
            continue
        n += 1
        ctx.saw(f)
        key = "C11:SINGLE:%s" % name
        if name in sd:
            ctx.check(sd[name], "SINGLE", key, "a second document is turned into the multiple-documents error before finish()",
                      "the single-document entry point does not reject a stream with a second document on every path", config, ctx.where(f))
            continue
        # via a helper
        helper_blocks = [b for b, t in f.calls() if sd.get(fx.callee(t))]
        oks = [b for b, _s, _l in proto.ok_sources(f)]
        okh = bool(helper_blocks) and all(any(f.dominates(hb, ob) for hb in helper_blocks) for ob in oks)
        ctx.check(okh, "SINGLE", key, "success is only reached through %s" % sorted({fx.callee(f.blocks[b]["term"]).rsplit("::", 1)[-1] for b in helper_blocks}),
                  "the single-document entry point can succeed without checking for a second document", config, ctx.where(f))
    ctx.floor("SINGLE.entries", n, 4, config)


def rule_iter(ctx, fx, config):
    its = proto.iterator_nexts(fx)
    feats = set(fx.data.get("features") or [])
    ctx.floor("ITER.iterators", len(its), 1 + len(feats & {"garde", "validator"}), config)
    proto.check_p4_iter(ctx, fx, config)
    shapes = {}
    for f in its:
        ctx.saw(f)
        # Err arm of the peek result sets finished before returning
        fin_w = [b for b, i, s_ in f.stmts() if s_["k"] == "assign" and s_["p"]["pr"] and render(f.sym_place(s_["p"])) == "self.finished" and f.sym_rvalue(s_["rv"]) == ("const", True, "bool")]
        err_edges = []
        none_edges = []
        for b in sorted(f.live_blocks):
            t = f.blocks[b]["term"]
            if t["k"] != "switch":
                continue
            with f.deep():
                sym = f.sym_operand(t["o"])
            r = render(sym)
            if sym[0] == "discr" and r.startswith("discr(peek("):
                if r.endswith("@Ok.0)"):
                    for v, tg in zip(t["vals"], t["tgts"]):
                        if v == 0:
                            none_edges.append(tg)
                elif r.count("@") == 0:
                    for v, tg in zip(t["vals"], t["tgts"]):
                        if v == 1:
                            err_edges.append(tg)
        ctx.check(bool(err_edges) and all(must_pass(f, [tg], fin_w) for tg in err_edges), "ITER", "C11:ITER:%s:source-error-ends" % f.npath,
                  "a source-level error (syntax / I/O / budget from peek) sets `finished`", "after a source-level error the iterator is not marked finished: it would pull from a broken parser again", config, ctx.where(f))
        ctx.check(bool(none_edges) and all(must_pass(f, [tg], fin_w) for tg in none_edges), "ITER", "C11:ITER:%s:eof-ends" % f.npath,
                  "end of stream sets `finished`", "end of stream does not set `finished`", config, ctx.where(f))
        # after a failed document the skipper decides; `false` sets finished
        skips = [b for b, t in f.calls() if fx.callee(t) == proto.SKIP]
        ctx.check(len(skips) == 1, "ITER", "C11:ITER:%s:recovers" % f.npath, "a failed document is skipped with skip_to_next_document", "the iterator no longer skips to the next document after a failed one", config, ctx.where(f))
        for sb in skips:
            tgt = f.blocks[sb]["term"]["t"]
            sw = f.blocks[tgt]["term"] if tgt is not None else None
            okk = False
            if sw is not None and sw["k"] == "switch":
                from ..rules import switch_edges
                e = switch_edges(f, tgt)
                if e:
                    sym = f.sym_operand(sw["o"])
                    neg = sym[0] == "un" and sym[1] == "Not"
                    tt, ff = e
                    false_edge = tt if neg else ff
                    okk = must_pass(f, [false_edge], fin_w)
            ctx.check(okk, "ITER", "C11:ITER:%s:no-next-document-ends" % f.npath, "when no next document is found the iterator is marked finished",
                      "skip_to_next_document()==false does not mark the iterator finished", config, ctx.where(f, sb))
            # the skip happens only under an error of the document
            doms = [tt for _b, sym, tt, _ff in bool_switches(f) if sym[0] == "call" and sym[1].endswith("Result::is_err")]
            err_arm = any(f.dominates(tt, sb) for tt in doms)
            if not err_arm:
                for b in sorted(f.live_blocks):
                    t = f.blocks[b]["term"]
                    if t["k"] == "switch":
                        sym = f.sym_operand(t["o"])
                        if sym[0] == "discr" and render(sym[1]) in ("value_res", "res"):
                            for v, tg in zip(t["vals"], t["tgts"]):
                                if v == 1 and f.dominates(tg, sb):
                                    err_arm = True
            ctx.check(err_arm, "ITER", "C11:ITER:%s:skip-only-on-error" % f.npath, "documents are skipped only after their own deserialization error",
                      "skip_to_next_document is called on a path where the document deserialized successfully: the following document is lost", config, ctx.where(f, sb))
        # after a *document-level* error (the target's deserialization failed) it is the skipper alone that decides whether the
        # stream goes on: `finished` is set, on that arm, only where skip_to_next_document() was called and answered false —
        # never because of what kind of error it was (an alias-wrapped type error is an ordinary type error of the document)
        doc_err_targets = []
        for b in sorted(f.live_blocks):
            t = f.blocks[b]["term"]
            if t["k"] == "switch":
                sym = f.sym_operand(t["o"])
                if sym[0] == "discr" and render(sym[1]) in ("value_res", "res", "*res", "&res"):
                    for v, tg in zip(t["vals"], t["tgts"]):
                        if v == 1:
                            doc_err_targets.append(tg)
        for _b, sym, tt, _ff in bool_switches(f):
            if sym[0] == "call" and sym[1].endswith("Result::is_err"):
                doc_err_targets.append(tt)
        bad_fin = []
        for wb in fin_w:
            if not any(f.dominates(tg, wb) for tg in doc_err_targets):
                continue
            okw = False
            for sb in skips:
                tgt = f.blocks[sb]["term"]["t"]
                if tgt is None or f.blocks[tgt]["term"]["k"] != "switch":
                    continue
                from ..rules import switch_edges as _se
                e = _se(f, tgt)
                if not e:
                    continue
                sym = f.sym_operand(f.blocks[tgt]["term"]["o"])
                neg = sym[0] == "un" and sym[1] == "Not"
                false_edge = e[0] if neg else e[1]
                if f.edge_dominates(tgt, false_edge, wb):
                    okw = True
            if not okw:
                bad_fin.append(wb)
        ctx.check(bool(doc_err_targets) and not bad_fin, "ITER", "C11:ITER:%s:document-error-ends-only-when-skip-fails" % f.npath,
                  "after a failed document `finished` is set only where skip_to_next_document() answered false",
                  "after a document-level error the iterator can be marked finished without having asked skip_to_next_document() (line(s) %s): the kind of the error decides, so e.g. a type error in an aliased value ends the stream and the following documents are lost" % sorted({f.blocks[x]["term"].get("ln") for x in bad_fin}), config, ctx.where(f))
        # PROGRESS: every cycle consumes an event
        nexts = [b for b, t in f.calls() if fx.callee(t) == proto.NEXT]
        from .C01 import _consuming_blocks
        adv = _consuming_blocks(f, fx)
        for comp in f.sccs():
            rest = comp - adv
            still = f.sccs(rest) if rest else []
            ctx.check(not still, "PROGRESS", "C11:PROGRESS:%s" % f.npath, "every cycle of the iterator loop consumes an event, deserializes a document or skips one",
                      "the iterator loop has a cycle that consumes nothing (possible hang)", config, ctx.where(f))
        # null-document skipping is guarded by the null-likeness predicate
        nl = [b for b, t in f.calls() if fx.callee(t).endswith("scalar_is_nullish")]
        ctx.check(bool(nl) and all(any(f.dominates(nb, xb) for nb in nl) for xb in nexts), "ITER", "C11:ITER:%s:skips-only-null" % f.npath,
                  "only null-like root scalars are skipped", "the iterator consumes a root event that was not tested for null-likeness", config, ctx.where(f))


def rule_null_document_tag(ctx, fx, config):
    """NULL-DOC: a document is skipped as null only if its root scalar is null-like *and* not tagged as a string
    (`--- !!str null` is the string \"null\" when read on its own)."""
    n = 0
    for f in sorted(fx.fns.values(), key=lambda f: f.npath):
        if not f.file.endswith("src/lib.rs"):
            continue
        nl = [(b, t) for b, t in f.calls() if fx.callee(t) == "parse_scalars::scalar_is_nullish"]
        for b, t in nl:
            n += 1
            ctx.saw(f)
            e = switch_edges(f, t["t"]) if t["t"] is not None else None
            okt = False
            if e:
                # on the null-like edge, before the document is consumed, the tag is compared with SfTag::String
                region = f.reachable([e[0]])
                for b2, t2 in f.calls():
                    if b2 in region and last_seg(fx.callee(t2)) in ("ne", "eq"):
                        with f.deep():
                            args = " ".join(render(f.sym_operand(a)) for a in t2["args"])
                        if "SfTag::String" in args and "tag" in args:
                            cons = [xb for xb, xt in f.calls() if fx.callee(xt) == proto.NEXT and xb in region]
                            okt = all(f.dominates(b2, xb) for xb in cons) if cons else True
            ctx.check(okt, "ITER", "C11:NULL-DOC:%s#%d" % (f.npath.split("::")[-1] if f.kind != "assoc" else f.npath, n), "a null-like root scalar is skipped only when it is not tagged `!!str`",
                      "%s skips a document whose root scalar is null-like without looking at its tag: `--- !!str null` is dropped from the stream although it is the string \"null\"" % f.npath, config, ctx.where(f, b))
    ctx.floor("ITER.null-document-guards", n, 2, config)


def rule_peek_next_agree(ctx, fx, config):
    """SIBLING:peek-next-agree — the document iterators classify a failure by *where* it surfaces: an error from their own
    `peek()` between documents is a syntax error and ends the stream, an error from inside the target's `Deserialize` is a
    document error and is recovered from.  That is only sound if `peek` rejects whatever `next` rejects: a check applied by
    `Events::next` alone lets `peek` accept the event and surfaces the syntax error inside the document."""
    nx = fx.fn("<live_events::LiveEvents as de::Events>::next")
    pk = fx.fn("<live_events::LiveEvents as de::Events>::peek")

    def fallible(f):
        out = set()
        for b, t in f.calls():
            h = fx.local_callee(t)
            if h is not None and h.kind != "closure" and "Result<" in (h.local_ty(0) or ""):
                out.add(h.name)
        for b, i, adt, var, fl, ops, s_ in aggregates(f):
            if adt == "de_error::Error":
                out.add("Error::" + str(var))
        return out
    a, b = fallible(nx), fallible(pk)
    ctx.saw(nx)
    ctx.saw(pk)
    ctx.check(a <= b, "SIBLING", "C11:SIBLING:peek-next-agree", "every failing step of Events::next is also a step of Events::peek (%s)" % ", ".join(sorted(a)),
              "`Events::next` can fail in %s, which `peek` does not apply: the iterators' between-documents `peek()` accepts the event, the error surfaces inside the document and the stream continues after a syntax error" % sorted(a - b), config, ctx.where(nx))
    ctx.floor("SIBLING.fallible-steps", len(a), 2, config)


def run(ctx):
    for config in ctx.configs:
        fx = ctx.facts(config)
        rule_null_document_tag(ctx, fx, config)
        rule_reset(ctx, fx, config)
        rule_reset_whole(ctx, fx, config)
        # the iterator judges every document on its own account: whatever observe() accumulates is cleared when a document starts
        # under per-document enforcement (shared rule, C07) — otherwise the iterator rejects what the batch function accepts
        C07.rule_reset(ctx, fx, config, prop="C11")
        rule_scope(ctx, fx, config)
        rule_single(ctx, fx, config)
        rule_iter(ctx, fx, config)
        rule_peek_next_agree(ctx, fx, config)
