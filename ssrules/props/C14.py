"""C14 — shared-pointer topology survives the round trip through anchors and aliases (DESIGN §4 C14)."""
import re

from ..mir import MissingAnchor, sym_contains, norm
from ..rules import lifted, render, aggregates, last_seg, bool_switches, must_pass, switch_edges, str_consts, compares
from .. import proto

EXPLANATION = ("TABLE (three-way agreement) and PROTO rules over the resolved MIR: for each of the eight anchor wrapper types the "
               "reserved name its Deserialize impl passes to deserialize_newtype_struct, the AnchorKind the deserializer's match arm "
               "for that name establishes as context, the anchor_store accessors (current_* / get_* / store_* / *_reentrant) its "
               "visitor uses, and the store field those accessors touch all name the same kind; weak wrappers share their strong "
               "counterpart's kind, never store and consume their payload to keep the stream in sync; the serializer allocates anchor "
               "ids from the captured pointer, defines on first sight and aliases on later sights, and the pointer written by every "
               "wrapper's Serialize is the address of the shared allocation (`as_ptr`); one identity scope per document (PROTO p3). "
               "Pointer-equality classes after a round trip are a runtime fact and not decided.")
ASSUMPTIONS = ["rustc's MIR (opt-level 0) faithfully represents the compiled crate",
               "that ids survive replay for every nesting and the pointer-equality classes of a rebuilt graph are not decided (DESIGN §4 C14)"]

DNS = "<de::YamlDeserializer as serde::Deserializer>::deserialize_newtype_struct"
WRAPPERS = ["RcAnchor", "ArcAnchor", "RcRecursive", "ArcRecursive", "RcWeakAnchor", "ArcWeakAnchor", "RcRecursion", "ArcRecursion"]
WEAK = {"RcWeakAnchor", "ArcWeakAnchor", "RcRecursion", "ArcRecursion"}
# expected kind per wrapper (weak wrappers share the kind of their strong counterpart)
EXPECT = {"RcAnchor": "Rc", "ArcAnchor": "Arc", "RcRecursive": "RcRecursive", "ArcRecursive": "ArcRecursive",
          "RcWeakAnchor": "Rc", "ArcWeakAnchor": "Arc", "RcRecursion": "RcRecursive", "ArcRecursion": "ArcRecursive"}


def snake(kind):
    return re.sub(r"(?<!^)([A-Z])", r"_\1", kind).lower()


def accessor_kinds(fx):
    """anchor_store function -> kind, derived from the function bodies: the AnchorKind literal it
    passes on, or the store field it touches."""
    out = {}
    for f in fx.fns.values():
        if not f.file.endswith("anchor_store.rs") or f.kind != "fn":
            continue
        kinds = set()
        for g in fx.family(f):
            for b, i, adt, var, fl, ops, s_ in aggregates(g):
                if adt == "anchor_store::AnchorKind":
                    kinds.add(var)
            for b, i, s_ in g.stmts():
                if s_["k"] != "assign":
                    continue
                for p in [s_["p"]] + list(_rv_places(s_["rv"])):
                    for e in p["pr"]:
                        if isinstance(e, dict) and e.get("of") == "anchor_store::AnchorStore" and e.get("f"):
                            kinds.add("field:" + e["f"])
        out[f.npath] = kinds
    return out


def _rv_places(rv):
    from ..rules import _places_in_rvalue
    return _places_in_rvalue(rv)


def rule_placeholder(ctx, fx, config):
    """PLACEHOLDER: an alias that points back into a recursive anchor still under construction is delivered as a null
    scalar that *names its target*: the weak pointer is resolved through the event's anchor id.  With anchor 0 the lookup
    falls back to the nearest enclosing recursive anchor, which is the right one only for self-loops."""
    ni = fx.fn("live_events::LiveEvents::next_impl")
    ctx.saw(ni)
    edges = [(sb, tt) for sb, sym, tt, ff in bool_switches(ni) if sym[0] == "call" and sym[1] == "anchor_store::recursive_anchor_in_progress"]
    if not ctx.check(len(edges) == 1, "PLACEHOLDER", "C14:PLACEHOLDER:branch", "the in-progress test guards the placeholder", "cannot find the recursive_anchor_in_progress branch in next_impl (%d)" % len(edges), config, ctx.where(ni)):
        return
    sb, tt = edges[0]
    with ni.deep():
        arg = render(ni.sym_operand(ni.blocks[sb]["term"]["o"]))
    seen = []
    # shallow view: the anchor field is the alias's own id
    shallow_ok = False
    for b, i, adt, var, fl, ops, s_ in aggregates(ni):
        if adt == "de::Ev" and var == "Scalar" and ni.edge_dominates(sb, tt, b):
            a = render(ops[fl.index("anchor")])
            seen.append(a)
            shallow_ok = shallow_ok or a == "anchor_id"
    ctx.check(shallow_ok, "PLACEHOLDER", "C14:PLACEHOLDER:names-target", "the placeholder scalar carries the alias's anchor id",
              "the placeholder for a cyclic alias does not carry the target's anchor id (anchor fields seen on that edge: %s): a back-reference that crosses another recursive node of the same type is silently rewired to that node" % sorted(set(seen)), config, ctx.where(ni, sb))


def rule_context_stack(ctx, fx, config):
    """CONTEXT: the visitors find \"their\" anchor as the innermost entry of the context stack, so entering an anchored wrapper
    pushes its (kind, id) *unconditionally* and leaving pops exactly once, also when the same anchor is already open further
    out (a recursion edge to a non-innermost ancestor is otherwise rewired to the nearest enclosing anchored node)."""
    ac = fx.fn("anchor_store::with_anchor_context")
    ctx.saw(ac)
    okpush = False
    for g in fx.closures_of(ac):
        pushes = [b for b, t in g.calls() if last_seg(fx.callee_decl(t)) == "push"]
        bumps = [b for b, t in g.calls() if last_seg(fx.callee_decl(t)) in ("or_insert", "entry")]
        if pushes:
            okpush = must_pass(g, [0], pushes) and bool(bumps) and must_pass(g, [0], bumps)
    ctx.check(okpush, "CONTEXT", "C14:CONTEXT:push-unconditional", "entering an anchored wrapper always pushes its id and bumps its in-progress count",
              "with_anchor_context pushes the context entry (or bumps the in-progress count) only under a condition: while the same anchor is already open the visitor looks at the wrong innermost entry, and recursion edges are rewired to the nearest enclosing anchored node", config, ctx.where(ac))
    # every wrapper opens a context — also one whose node carries no anchor: the visitors look "their" anchor up through the whole
    # stack, so a wrapper that pushed nothing hands the *enclosing* wrapper's anchor to the wrappers nested inside it
    # (`&x [1, 2]` into RcAnchor<Vec<RcAnchor<i32>>> gives [1, 1]).  The user closure is never called without a push before it,
    # and the lookup maps the "no anchor" id of such a context to None.
    fcalls = [b for b, t in ac.calls() if t["f"].get("name") == "call_once" and render(ac.sym_operand(t["args"][0])) == "f"]
    pushers = [b for b, t in ac.calls() if fx.callee(t) == "std::thread::LocalKey::with"]
    ctx.check(bool(fcalls) and all(any(ac.dominates(pb, fb) for pb in pushers) for fb in fcalls), "CONTEXT", "C14:CONTEXT:every-wrapper-opens-a-context", "the wrapped visitor runs only after a context entry was pushed (%d call(s))" % len(fcalls),
              "with_anchor_context runs the visitor of a wrapper whose node has no anchor without pushing a context entry: wrappers nested inside it adopt the enclosing wrapper's anchor id", config, ctx.where(ac))
    with ac.deep():
        ids = set()
        for g in fx.closures_of(ac):
            pass
    sent = None
    for b, t in ac.calls():
        if last_seg(fx.callee(t)) == "unwrap_or" and len(t["args"]) == 2:
            v = ac.sym_operand(t["args"][1])
            with ac.deep():
                v = ac.sym_operand(t["args"][1])
            if v[0] == "const" and isinstance(v[1], int):
                sent = v[1]
    cur = fx.fn("anchor_store::current_anchor_id")
    ctx.saw(cur)
    okf = False
    if sent is not None:
        for g in fx.family(cur):
            for c in compares(g):
                if c["op"] in ("Ne", "Eq") and str(sent) in (c["rl"], c["rr"]):
                    okf = True
            # a comparison that is a closure's result (`.filter(|id| *id != NO_ANCHOR)`) feeds no switch
            for b, i, s_ in g.stmts():
                if s_["k"] == "assign":
                    v = g.sym_rvalue(s_["rv"])
                    if v[0] == "bin" and v[1] in ("Ne", "Eq") and ("const", sent, "usize") in (v[2], v[3]):
                        okf = True
    ctx.check(sent is not None and okf, "CONTEXT", "C14:CONTEXT:no-anchor-id-reads-as-none", "a context opened without an anchor uses the id %s, which the lookup maps to None" % sent,
              "the id pushed for a wrapper without an anchor (%s) is not filtered by current_anchor_id: it would be taken for a real anchor" % sent, config, ctx.where(cur))
    gd = fx.fn("<anchor_store::Guard as std::ops::Drop>::drop")
    ctx.saw(gd)
    okpop = False
    for g in fx.closures_of(gd):
        pops = [b for b, t in g.calls() if last_seg(fx.callee_decl(t)) == "pop"]
        if pops:
            okpop = must_pass(g, [0], pops)
    ctx.check(okpop, "CONTEXT", "C14:CONTEXT:pop-unconditional", "leaving an anchored wrapper always pops one context entry", "Guard::drop pops the context stack only under a condition (push and pop no longer pair one to one)", config, ctx.where(gd))


def rule_anchor_ends_dash_line(ctx, fx, config):
    """ANCHOR (collections): `&aN` written for a sequence ends its line (`- &a1` + line break).  The sequence serializer's
    "stay mid-line so that the first element follows the dash" switch (`at_line_start = false` after the anchor was written)
    is therefore reachable only when no anchor was pending — otherwise the first element is written at column 0 of the next
    line and the rest one level deeper (`- &a1\n- 1\n  - 2`)."""
    f = fx.fn("<&mut ser::YamlSerializer as serde::Serializer>::serialize_seq")
    ctx.saw(f)
    wa = [b for b, t in f.calls() if fx.callee(t).endswith("::write_anchor_for_complex_node")]
    after = set()
    for b in wa:
        nxt = f.blocks[b]["term"].get("t")
        if nxt is not None:
            after |= f.reachable([nxt])
    stays = [b for b, i, s_ in f.stmts() if b in after and s_["k"] == "assign" and s_["p"]["pr"] and render(f.sym_place(s_["p"])) == "self.at_line_start" and f.sym_rvalue(s_["rv"]) == ("const", False, "bool")]
    no_anchor_edges = []
    for sb, sym, tt, ff in bool_switches(f):
        with f.deep():
            d = f.sym_operand(f.blocks[sb]["term"]["o"])
        neg = False
        while d[0] == "un" and d[1] == "Not":
            d, neg = d[2], not neg
        if d[0] == "call" and last_seg(d[1]) in ("is_some", "is_none") and "pending_anchor_id" in render(d):
            none_edge = (tt if last_seg(d[1]) == "is_none" else ff) if not neg else (ff if last_seg(d[1]) == "is_none" else tt)
            some_edge = ff if none_edge == tt else tt
            if sb in after:
                no_anchor_edges.append((sb, some_edge))
    # stated from the anchor-present edge (the other way round runs into the infeasible path `!inline_first` then `inline_first`):
    # there is a test of the pending anchor after the anchor was written, and from its "anchor present" edge the mid-line switch
    # is unreachable while the staged inline hint is withdrawn
    clears = [b for b, i, s_ in f.stmts() if s_["k"] == "assign" and s_["p"]["pr"] and render(f.sym_place(s_["p"])) == "self.pending_inline_map" and f.sym_rvalue(s_["rv"]) == ("const", False, "bool")]
    ok = bool(wa) and bool(stays) and bool(no_anchor_edges) and all(not (set(stays) & f.reachable([e])) and bool(set(clears) & f.reachable([e])) for sb, e in no_anchor_edges)
    ctx.check(ok, "ANCHOR", "C14:ANCHOR:sequence-anchor-ends-the-dash-line", "after `&aN` was written for a sequence its first element is not kept on the dash's line (%d mid-line switch(es), all under `no anchor pending`)" % len(stays),
              "serialize_seq keeps the first element inline after the dash although the sequence's anchor has just ended that line: a shared sequence used as a sequence element is written `- &a1\\n- 1\\n  - 2`, which does not read back", config, ctx.where(f, stays[0] if stays else None))


def rule_dangling_weak_reads_back(ctx, fx, config):
    """TABLE (writer / reader): the serializer writes a dangling weak edge as `null`.  Each of the four weak visitors therefore
    has, on the edge where the node is not an alias (no anchor context), a path that answers with an empty `Weak::new()` — taken
    when the node is null — instead of rejecting every non-alias node."""
    n = 0
    for f in sorted(fx.fns.values(), key=lambda g: g.npath):
        if not (f.name == "visit_newtype_struct" and "anchors::" in f.npath and re.search(r"(WeakAnchor|Recursion) as serde::Deserialize", f.npath)):
            continue
        n += 1
        ctx.saw(f)
        none_edges = []
        for b in sorted(f.live_blocks):
            t = f.blocks[b]["term"]
            if t["k"] != "switch":
                continue
            sym = f.sym_operand(t["o"])
            if sym[0] == "discr" and sym[1][0] == "call" and "anchor_store::current_" in sym[1][1]:
                arms = dict(zip(t["vals"], t["tgts"]))
                none_t = arms.get(0, t["tgts"][-1])
                some_t = arms.get(1, t["tgts"][-1])
                if none_t != some_t:
                    none_edges.append(none_t)
        weaknew = [b for b, t in f.calls() if fx.callee(t) in ("std::rc::Weak::new", "std::sync::Weak::new")]
        opt = [b for b, t in f.calls() if "Option" in fx.callee(t) and t["f"].get("name") == "deserialize"] or [b for b, t in f.calls() if fx.callee(t).endswith("Deserialize>::deserialize") and "Option" in str(t["f"])]
        ok = bool(none_edges) and bool(weaknew) and all(set(weaknew) & f.reachable([e]) for e in none_edges)
        nm = f.npath.split("anchors::")[1].split(" ")[0]
        ctx.check(ok, "TABLE", "C14:TABLE:dangling-weak-reads-back:%s" % nm, "a %s that is not an alias can be read as a dangling weak (null)" % nm,
                  "the %s visitor rejects every node that is not an alias: the `null` the serializer writes for a dangling weak does not read back, so a graph with a dropped target fails to deserialize" % nm, config, ctx.where(f))
    ctx.floor("TABLE.weak-visitors", n, 4, config)


def rule_anchor_consumed(ctx, fx, config):
    """ANCHOR: the serializer stages `&aN` for the *next node*.  Every path that writes a scalar consumes the staged anchor
    before it writes (write_scalar_prefix_if_anchor), otherwise the anchor sticks to whatever node is written next and
    the alias silently resolves to a neighbour."""
    S = "<&mut ser::YamlSerializer as serde::Serializer>::"
    n = 0

    def takes_anchor(g, b, t):
        # `self.pending_anchor_id.take()`: the staged anchor is consumed here (by whichever helper does it)
        return last_seg(fx.callee(t)) == "take" and t["args"] and render(g.sym_operand(t["args"][0])).endswith("pending_anchor_id")

    def anchor_takers(g):
        return lifted(fx, g, takes_anchor, depth=2)
    for nm in ("bool", "i64", "u64", "i128", "u128", "f32", "f64", "none", "unit"):
        f = fx.fn(S + "serialize_" + nm)
        ctx.saw(f)
        n += 1
        pre = anchor_takers(f)
        writes = [b for b, t in f.calls() if last_seg(fx.callee_decl(t)) in ("write_str", "write_fmt", "write_char") or fx.callee(t).endswith("::push_float_string") or "zmij" in fx.callee(t)]
        ctx.check(bool(pre) and bool(writes) and all(any(f.dominates(p, w) for p in pre) for w in writes), "ANCHOR", "C14:ANCHOR:scalar-emitter:serialize_%s" % nm, "the staged anchor is emitted before the scalar's text",
                  "serialize_%s writes its scalar without emitting a staged anchor first: `&aN` sticks to the next node written and the alias resolves to that neighbour" % nm, config, ctx.where(f))
    f = fx.fn(S + "serialize_str")
    ctx.saw(f)
    pre = anchor_takers(f)
    for ch, what in (("|", "literal"), (">", "folded")):
        hs = [b for b, t in f.calls() if last_seg(fx.callee_decl(t)) == "write_char" and len(t["args"]) > 1 and f.sym_operand(t["args"][1])[:2] == ("const", ch)]
        n += 1
        ctx.check(bool(hs) and all(any(f.dominates(p, h) for p in pre) for h in hs), "ANCHOR", "C14:ANCHOR:scalar-emitter:serialize_str:%s" % what, "the staged anchor is emitted in front of the `%s` block header" % ch,
                  "serialize_str writes the `%s` block header without emitting a staged anchor first: an anchored string that takes the %s block style leaves `&aN` to the next node (`a: |…`, `b: &a1 5`, `c: *a1`)" % (ch, what), config, ctx.where(f, hs[0] if hs else None))
    plain = [b for b, t in f.calls() if fx.callee(t).endswith("::write_plain_or_quoted_value")]
    ctx.check(bool(plain) and all(any(f.dominates(p, w) for p in pre) for w in plain), "ANCHOR", "C14:ANCHOR:scalar-emitter:serialize_str:plain-or-quoted", "the staged anchor is emitted before a plain / quoted string",
              "serialize_str writes a plain / quoted string without emitting a staged anchor first", config, ctx.where(f))
    ctx.floor("ANCHOR.scalar-emitters", n, 11, config)
    # a variant with a payload is a node of its own (the one-entry mapping `Variant: payload`): a staged anchor is consumed
    # before the variant's label is written, otherwise it lands on the first scalar of the payload and the alias reads back
    # as that scalar (F61)
    nv = 0
    for nm in ("newtype_variant", "tuple_variant", "struct_variant"):
        f = fx.fn(S + "serialize_" + nm)
        ctx.saw(f)
        pre = anchor_takers(f)
        labels = [b for b, t in f.calls() if (fx.callee(t).endswith("::write_plain_or_quoted") and len(t["args"]) > 1 and render(f.sym_operand(t["args"][1])) == "variant") or fx.callee(t).endswith("::open_flow_variant")]
        nv += len(labels)
        ctx.check(bool(labels) and all(any(f.dominates(p, w) for p in pre) for w in labels), "ANCHOR", "C14:ANCHOR:variant-node-takes-the-anchor:serialize_%s" % nm, "a staged anchor is emitted for the variant node before its label is written",
                  "serialize_%s writes the variant's label without consuming a staged anchor first: `&aN` lands on the first scalar of the payload and an alias to the shared enum value reads back as that scalar" % nm, config, ctx.where(f))
    ctx.floor("ANCHOR.variant-labels", nv, 6, config)
    # the absent branch of a weak anchor writes `null` like any value: after the space owed to a preceding `key:`
    tf = fx.fn("<ser::TupleSer as serde::ser::SerializeTupleStruct>::serialize_field")
    # (in serialize_field itself, or in a helper of the serializer it calls for that branch)
    def spaced_nulls(g):
        nl = [b for b, t in g.calls() if last_seg(fx.callee_decl(t)) == "write_str" and len(t["args"]) > 1 and g.sym_operand(t["args"][1])[:2] == ("const", "null")]
        spg = [b for b, t in g.calls() if fx.callee(t) == "ser::YamlSerializer::write_space_if_pending"]
        return nl, all(any(g.dominates(p, w) for p in spg) for w in nl)
    nulls, ok_sp = spaced_nulls(tf)
    for hb, ht in tf.calls():
        h = fx.local_callee(ht)
        if h is not None and h is not tf and h.kind != "closure" and h.npath.startswith("ser::YamlSerializer::"):
            hn, hok = spaced_nulls(h)
            if hn:
                sp_tf = [b for b, t in tf.calls() if fx.callee(t) == "ser::YamlSerializer::write_space_if_pending"]
                nulls = nulls + hn
                ok_sp = ok_sp and (hok or any(tf.dominates(p, hb) for p in sp_tf))
    ctx.check(bool(nulls) and ok_sp, "ANCHOR", "C14:ANCHOR:dangling-weak-null-spaced", "a dangling weak is written as `null` after the space owed to its key",
              "the absent branch of the weak-anchor payload writes `null` without write_space_if_pending(): `dead:null` does not read back", config, ctx.where(tf))


def _walk(sym):
    if isinstance(sym, tuple):
        yield sym
        for x in sym:
            if isinstance(x, (tuple, list)):
                for y in (x if isinstance(x, list) else [x]):
                    yield from _walk(y)


def run(ctx):
    for config in ctx.configs:
        fx = ctx.facts(config)
        rule_placeholder(ctx, fx, config)
        rule_anchor_consumed(ctx, fx, config)
        rule_context_stack(ctx, fx, config)
        rule_dangling_weak_reads_back(ctx, fx, config)
        rule_anchor_ends_dash_line(ctx, fx, config)
        # what a document registered is gone when its scope ends: no hidden strong owner, no reuse by the next document (shared rule, C15)
        from .C15 import rule_reset_complete
        rule_reset_complete(ctx, fx, config, prop="C14")
        # a shared node that contains aliases replays completely: every delivered event (replayed ones included) is recorded into
        # the open anchor frames, so the plain copies read from `second: *l` equal those read from its definition (shared rule, C02)
        from .C02 import rule_record
        rule_record(ctx, fx, config, prop="C14")
        kinds_adt = [v["name"] for v in fx.adt("anchor_store::AnchorKind")["variants"]]
        store_fields = [x["name"] for x in fx.adt("anchor_store::AnchorStore")["variants"][0]["fields"]]
        ctx.check(sorted(snake(k) for k in kinds_adt) == sorted(store_fields), "TABLE", "C14:TABLE:kinds-vs-store-fields", "one store field per AnchorKind (%s)" % store_fields,
                  "AnchorKind variants %s and AnchorStore fields %s no longer correspond one to one" % (kinds_adt, store_fields), config, None)
        acc = accessor_kinds(fx)
        # each accessor names exactly one kind, and field-touching accessors touch that kind's field
        acc_kind = {}
        for name, ks in acc.items():
            lit = {k for k in ks if not k.startswith("field:")}
            fld = {k[6:] for k in ks if k.startswith("field:")}
            short = name.rsplit("::", 1)[-1]
            if short in ("reset", "with_anchor_context", "with_document_scope", "current_anchor_id", "anchor_reentrant", "recursive_anchor_in_progress"):
                continue
            k = None
            if len(lit) == 1:
                k = next(iter(lit))
            elif len(fld) == 1:
                cand = [x for x in kinds_adt if snake(x) == next(iter(fld))]
                k = cand[0] if cand else None
            if k is None:
                continue
            acc_kind[name] = k
            # name convention must agree with the body
            exp_from_name = None
            for kk in sorted(kinds_adt, key=len, reverse=True):
                sn = snake(kk)
                if re.search(r"(^|_)%s(_|$)" % sn, short):
                    exp_from_name = kk
                    break
            ctx.check(exp_from_name == k, "TABLE", "C14:TABLE:accessor:%s" % short, "accessor `%s` operates on kind %s" % (short, k),
                      "anchor_store::%s is named for kind %s but its body uses kind %s / field %s" % (short, exp_from_name, sorted(lit), sorted(fld)), config, ctx.where(fx.fn(name)))
        ctx.floor("TABLE.accessors", len(acc_kind), 16, config)
        # ---- (i) name passed by each wrapper's Deserialize, (iii) accessors used by its visitor
        dns = fx.fn(DNS)
        ctx.saw(dns)
        # (ii) name -> kind in the deserializer
        name_kind = {}
        eqs = []
        for b, t in dns.calls():
            if last_seg(fx.callee(t)) in ("eq",):
                with dns.deep():
                    lits = [s_[1] for s_ in (_strip(dns.sym_operand(a)) for a in t["args"]) if s_[0] == "const" and isinstance(s_[1], str)]
                if lits and lits[0].startswith("__yaml"):
                    eqs.append((b, lits[0], t))
        eq_blocks = [b for b, _n, _t in eqs]
        for b, nm, t in eqs:
            e = switch_edges(dns, t["t"])
            if not e:
                continue
            reach = dns.reachable([e[0]], avoid=[x for x in eq_blocks if x != b])
            for cb, ct in dns.calls():
                if cb in reach and fx.callee(ct) == "anchor_store::with_anchor_context":
                    with dns.deep():
                        k = dns.sym_operand(ct["args"][0])
                    if k[0] == "aggr" and k[1] == "anchor_store::AnchorKind":
                        name_kind.setdefault(nm, set()).add(k[2])
                    # the anchor id handed to the context is the peeked node's
                    with dns.deep():
                        aid = render(dns.sym_operand(ct["args"][1]))
                    ctx.check("peek_anchor_id" in aid, "TABLE", "C14:TABLE:context-id:%s" % nm, "context carries the node's own anchor id", "the anchor context for %s is entered with `%s`" % (nm, aid[:80]), config, ctx.where(dns, cb))
        for w in WRAPPERS:
            fs = [f for f in fx.fns.values() if f.d.get("impl_trait") == "serde::Deserialize" and (f.d.get("impl_adt") or "").endswith("anchors::" + w) and f.name == "deserialize"]
            if not ctx.check(len(fs) == 1, "TABLE", "C14:TABLE:%s:impl" % w, "Deserialize impl found", "Deserialize impl of %s not found" % w, config, None):
                continue
            f = fs[0]
            ctx.saw(f)
            nm = None
            for b, t in f.calls():
                if t["f"].get("name") == "deserialize_newtype_struct":
                    a = f.sym_operand(t["args"][1])
                    if a[0] == "const":
                        nm = a[1]
            vis = [g for g in fx.fns.values() if g.name == "visit_newtype_struct" and g.npath.startswith("<<anchors::%s as serde::Deserialize>::deserialize::" % w)]
            used = {}
            consumes = []
            if vis:
                for g in fx.family(vis[0]):
                    for b, t in g.calls():
                        c = fx.callee(t)
                        if c in acc_kind:
                            used[c.rsplit("::", 1)[-1]] = acc_kind[c]
                        if t["f"].get("trait") == "serde::Deserialize" and t["f"].get("name") == "deserialize":
                            consumes.append(str(t["f"].get("self_ty")))
            k2 = name_kind.get(nm, set())
            exp = EXPECT[w]
            key = "C14:TABLE:%s" % w
            ctx.check(nm is not None and len(k2) == 1, "TABLE", key + ":name->context", "`%s` establishes context kind %s" % (nm, sorted(k2)),
                      "the reserved name `%s` of %s is not intercepted with exactly one anchor context kind (%s): the wrapper's visitor finds no / a foreign anchor id" % (nm, w, sorted(k2)), config, ctx.where(f))
            if len(k2) == 1:
                ctx.check(next(iter(k2)) == exp, "TABLE", key + ":context-kind", "context kind is %s" % exp, "%s is deserialized under context kind %s, expected %s" % (w, sorted(k2), exp), config, ctx.where(dns))
            ctx.check(bool(used) and set(used.values()) == {exp}, "TABLE", key + ":accessors", "visitor uses only %s accessors: %s" % (exp, sorted(used)),
                      "the visitor of %s mixes anchor kinds (%s) — it looks up / stores the pointer in a table its context never fills" % (w, used), config, ctx.where(vis[0]) if vis else None)
            stores = [a for a in used if a.startswith("store_")]
            if w in WEAK:
                ctx.check(not stores, "TABLE", key + ":weak-never-stores", "weak wrapper never stores", "weak wrapper %s stores a pointer (%s)" % (w, stores), config, ctx.where(vis[0]) if vis else None)
                ctx.check(any(c.replace(" ", "") in ("serde::de::IgnoredAny", "IgnoredAny") or (c.endswith("IgnoredAny") and "Option" not in c) for c in consumes), "TABLE", key + ":weak-consumes-payload", "the replayed target node is consumed (IgnoredAny)", "weak wrapper %s does not consume the replayed node: the stream goes out of sync" % w, config, ctx.where(vis[0]) if vis else None)
            else:
                ctx.check(len(stores) == 1, "TABLE", key + ":strong-stores", "strong wrapper stores its allocation once (%s)" % stores, "strong wrapper %s does not store its allocation exactly once (%s): later aliases get an independent copy" % (w, stores), config, ctx.where(vis[0]) if vis else None)
        # ---- serializer: id from the pointer, define then alias
        tf = fx.fn("<ser::TupleSer as serde::ser::SerializeTupleStruct>::serialize_field")
        ctx.saw(tf)
        allocs = [(b, t) for b, t in tf.calls() if fx.callee(t).endswith("::alloc_anchor_for")]
        ctx.floor("SER.alloc-sites", len(allocs), 2, config)
        FIN = "ser::UsizeCapture::finish"
        for b, t in allocs:
            with tf.deep():
                a = tf.sym_operand(t["args"][1])
            okp = sym_contains(a, lambda x: x[0] == "call" and x[1] == FIN)
            if not okp:
                # pointer parked in a field by an earlier tuple element: that field is only ever assigned the captured pointer
                fp = render(a)
                ws = [s_ for bb, i, s_ in tf.stmts() if s_["k"] == "assign" and s_["p"]["pr"] and render(tf.sym_place(s_["p"])) == fp]
                if ws:
                    with tf.deep():
                        okp = all(sym_contains(tf.sym_rvalue(s_["rv"]), lambda x: x[0] == "call" and x[1] == FIN) for s_ in ws)
            ctx.check(okp, "SER", "C14:SER:id-from-pointer#%d" % (allocs.index((b, t)) + 1), "the anchor id is allocated from the captured pointer", "alloc_anchor_for is called with `%s`, not the captured pointer" % render(a)[:100], config, ctx.where(tf, b))
        # on `fresh` the pending definition is set; otherwise the alias id
        fresh_sw = [(sb, tt, ff) for sb, sym, tt, ff in bool_switches(tf) if render(sym) == "fresh"]
        ctx.floor("SER.fresh-tests", len(fresh_sw), 2, config)
        for sb, tt, ff in fresh_sw:
            wr_def = [bb for bb, i, s_ in tf.stmts() if s_["k"] == "assign" and s_["p"]["pr"] and render(tf.sym_place(s_["p"])).endswith(".pending_anchor_id") and tf.edge_dominates(sb, tt, bb)]
            wr_alias = [bb for bb, i, s_ in tf.stmts() if s_["k"] == "assign" and s_["p"]["pr"] and re.search(r"(strong|weak)_alias_id$", render(tf.sym_place(s_["p"]))) and tf.edge_dominates(sb, ff, bb) and tf.sym_rvalue(s_["rv"])[0] == "aggr" and tf.sym_rvalue(s_["rv"])[2] == "Some"]
            ctx.check(bool(wr_def), "SER", "C14:SER:first-sight-defines", "first sight of a pointer stages the anchor definition", "a fresh pointer no longer stages `&anchor` before the value", config, ctx.where(tf, sb))
            ctx.check(bool(wr_alias), "SER", "C14:SER:later-sight-aliases", "a known pointer stages the alias id", "a known pointer no longer stages an alias (the node is emitted again: sharing is lost)", config, ctx.where(tf, sb))
        # alloc_anchor_for: keyed by ptr, new id only on vacant
        al = fx.fn("ser::YamlSerializer::alloc_anchor_for")
        ctx.saw(al)
        ent = [b for b, t in al.calls() if last_seg(fx.callee(t)) == "entry" and render(al.sym_operand(t["args"][1])) == "ptr"]
        ctx.check(bool(ent), "SER", "C14:SER:keyed-by-pointer", "the id table is keyed by the pointer", "alloc_anchor_for no longer keys its table by the pointer", config, ctx.where(al))
        # every wrapper's Serialize writes as_ptr of the shared allocation first
        n = 0
        for w in WRAPPERS:
            fs = [f for f in fx.fns.values() if f.d.get("impl_trait") == "serde::Serialize" and (f.d.get("impl_adt") or "").endswith("anchors::" + w) and f.name == "serialize"]
            for f in fs:
                n += 1
                asp = [b for b, t in f.calls() if last_seg(fx.callee(t)) == "as_ptr"]
                firsts = [b for b, t in f.calls() if t["f"].get("name") == "serialize_field"]
                ctx.check(bool(asp) and bool(firsts) and any(f.dominates(a, min(firsts, key=lambda x: len(f.dom[x]))) for a in asp), "SER", "C14:SER:%s:ptr-field" % w,
                          "the first tuple field is the address of the shared allocation", "%s no longer serializes the allocation's address as its identity" % w, config, ctx.where(f))
        ctx.floor("SER.wrappers", n, 8, config)
        # ---- one identity scope per document
        n3 = proto.check_p3(ctx, fx, config)
        ctx.floor("PROTO.p3", n3, 5, config)


def _strip(sym):
    while sym and sym[0] in ("ref", "deref"):
        sym = sym[1]
    return sym
