"""C02 — anchors and aliases are transparent (DESIGN §4 C02): the third sentence of the
statement (an alias without an earlier anchor in the same document is an error) and necessary
conditions of the first (every delivered event is recorded into the open anchor frames;
replayed events are served before the parser is pulled again; anchors do not outlive a document)."""
from ..mir import MissingAnchor, sym_contains
from ..rules import render, must_pass, aggregates, bool_switches, last_seg, switch_edges
from . import C11, C07

EXPLANATION = ("Static rules over the MIR of the event pump: DOM (a replay frame is pushed only after the anchor-exists check and "
               "the still-being-recorded check; the replay loop's lookup failure is the unknown-anchor error), RECORD (every "
               "delivered event except the synthetic empty-document scalar is passed to record(); container starts bump the "
               "recording depth before, container ends drop it after; an anchored scalar / closed container is stored under "
               "its own anchor id), ORDER (the parser is pulled only when the replay stack is empty), RESET (anchor table, "
               "recording and replay stacks are cleared at every document boundary — shared with C11). Value equality with "
               "the alias-free expansion is a statement about event sequences and is not decided.")
ASSUMPTIONS = ["rustc's MIR (opt-level 0) faithfully represents the compiled crate",
               "saphyr-parser assigns a fresh numeric id on anchor re-definition (dependency behaviour)",
               "equality with the expanded document, frame-depth arithmetic and the empty-quoted-scalar special case are not decided"]

LE = "live_events::LiveEvents"


def rule_record(ctx, fx, config, prop="C02"):
    """RECORD: every event the pump delivers — parser event or replayed one — was recorded into the open anchor frames first."""
    PROP = prop
    ni = fx.fn(LE + "::next_impl")
    ctx.saw(ni)
    # ---- RECORD: every delivered event is recorded
    recs = [b for b, t in ni.calls() if fx.callee(t) == LE + "::record"]
    bstart = [b for b, t in ni.calls() if fx.callee(t) == LE + "::bump_depth_on_start"]
    bend = [b for b, t in ni.calls() if fx.callee(t) == LE + "::bump_depth_on_end"]
    delivered = []
    for b, i, adt, var, fl, ops, s_ in aggregates(ni):
        if s_["p"]["l"] == 0 and adt.endswith("result::Result") and var == "Ok":
            with ni.deep():
                v = ni.sym_operand(s_["rv"]["ops"][0])
            if v[0] == "aggr" and v[2] == "Some":
                delivered.append((b, v[4][0], s_.get("ln")))
    ctx.floor("RECORD.deliveries", len(delivered), 8, config)
    k = 0
    synthetic = 0
    for b, ev, ln in delivered:
        k += 1
        kind = ev[2] if ev[0] == "aggr" else "replayed"
        dom_rec = [rb for rb in recs if ni.dominates(rb, b)]
        key = PROP + ":RECORD:delivery#%d:%s" % (k, kind)
        if not dom_rec:
            # the synthetic empty-document scalar: control-dependent on !produced_any_in_doc
            syn = any(render(sym) == "self.produced_any_in_doc" and ni.dominates(ff, b) and tt != ff for _sb, sym, tt, ff in bool_switches(ni))
            if syn and kind == "Scalar":
                synthetic += 1
                ctx.ok("RECORD", key, "synthetic empty-document scalar (no anchors can be open)", config, ctx.where(ni, ln=ln))
            else:
                ctx.bad("RECORD", PROP + ":RECORD:unrecorded:%s" % kind, "an event of kind %s is delivered (line %s) without being recorded into the open anchor frames: an enclosing anchored node replays without it" % (kind, ln), config, ctx.where(ni, ln=ln))
            continue
        ctx.ok("RECORD", key, "delivered event is recorded first", config, ctx.where(ni, ln=ln))
        if kind in ("SeqStart", "MapStart"):
            okb = any(ni.dominates(sb, rb) for sb in bstart for rb in dom_rec)
            ctx.check(okb, "RECORD", PROP + ":RECORD:%s:depth-before-record" % kind, "open frames go one level deeper before the start event is recorded",
                      "container start is recorded without bumping the recording depth of the open frames", config, ctx.where(ni, ln=ln))
        if kind in ("SeqEnd", "MapEnd"):
            okb = any(ni.dominates(rb, eb) and ni.dominates(eb, b) for eb in bend for rb in dom_rec)
            ctx.check(okb, "RECORD", PROP + ":RECORD:%s:record-before-close" % kind, "the end event is recorded before frames are closed and stored",
                      "container end is not recorded before bump_depth_on_end (the stored buffer would lack its end event)", config, ctx.where(ni, ln=ln))
    ctx.check(synthetic <= 1, "RECORD", PROP + ":RECORD:single-synthetic", "at most one unrecorded (synthetic) delivery", "%d unrecorded deliveries" % synthetic, config, ctx.where(ni))


def run(ctx):
    for config in ctx.configs:
        fx = ctx.facts(config)
        ni = fx.fn(LE + "::next_impl")
        ctx.saw(ni)
        # ---- DOM: the replay-frame push
        pushes = [b for b, t in ni.calls() if fx.callee(t) == "std::vec::Vec::push" and render(ni.sym_operand(t["args"][0])) == "self.inject"]
        ctx.floor("DOM.inject-push", len(pushes), 1, config)
        # exists check: a bool that deep-resolves to is_some(and_then(get(self.anchors, id), …))
        exists_true = []
        recording_false = []
        for b, sym, tt, ff in bool_switches(ni):
            with ni.deep():
                d = ni.sym_operand(ni.blocks[b]["term"]["o"])
            neg = False
            while d[0] == "un" and d[1] == "Not":
                d = d[2]
                neg = not neg
            r = render(d)
            e = switch_edges(ni, b)
            t_, f_ = e
            if neg:
                t_, f_ = f_, t_
            if r.startswith("is_some(") and "self.anchors" in r:
                exists_true.append((b, t_, f_))
            if r.startswith("any(") and "self.rec_stack" in r:
                recording_false.append((b, t_, f_))
        # the same test written as `let Some(buf) = self.anchors.get(id).and_then(..) else { return Err(unknown anchor) }`: a switch
        # on the discriminant of an Option obtained from `self.anchors`, whose None arm leads to the unknown-anchor error
        unk = [ub for ub, ut in ni.calls() if fx.callee(ut).endswith("Error::unknown_anchor")]
        for b in sorted(ni.live_blocks):
            t = ni.blocks[b]["term"]
            if t["k"] != "switch":
                continue
            with ni.deep():
                d = ni.sym_operand(t["o"])
            if d[0] == "discr" and "self.anchors" in render(d) and ("and_then" in render(d) or "get(" in render(d)):
                arms = dict(zip(t["vals"], t["tgts"]))
                some_t = arms.get(1)
                none_t = arms.get(0, t["tgts"][-1])
                if some_t is None:
                    some_t, none_t = t["tgts"][-1], arms.get(0)
                if some_t is not None and none_t is not None and some_t != none_t and unk and must_pass(ni, [none_t], unk):
                    exists_true.append((b, some_t, none_t))
        ctx.floor("DOM.exists-check", len(exists_true), 1, config)
        ctx.floor("DOM.recording-check", len(recording_false), 1, config)
        for pb in pushes:
            ok1 = any(ni.dominates(b, pb) and pb in ni.reachable([t_]) and pb not in ni.reachable([f_]) for b, t_, f_ in exists_true)
            ctx.check(ok1, "DOM", "C02:DOM:push-after-exists", "the replay frame is pushed only when the anchor slot holds a recorded buffer",
                      "an alias can be replayed without checking that its anchor was recorded in this document (stale / missing buffer)", config, ctx.where(ni, pb))
            ok2 = any(ni.dominates(b, pb) and pb in ni.reachable([f_]) and pb not in ni.reachable([t_]) for b, t_, f_ in recording_false)
            ctx.check(ok2, "DOM", "C02:DOM:push-after-recording-check", "an alias to an anchor that is still being recorded is never replayed",
                      "an alias to a still-open anchored container can be replayed from a partial buffer", config, ctx.where(ni, pb))
        for b, t_, f_ in exists_true:
            ua = [cb for cb, t in ni.calls() if fx.callee(t) == "de_error::Error::unknown_anchor"]
            ctx.check(must_pass(ni, [f_], ua), "DOM", "C02:DOM:unknown-anchor-error", "a missing anchor is the unknown-anchor error",
                      "the missing-anchor edge does not produce the unknown-anchor error", config, ctx.where(ni, b))
        for b, t_, f_ in recording_false:
            rr = [ab for ab, i, adt, var, fl, ops, s_ in aggregates(ni) if adt == "de_error::Error" and var == "RecursiveReferencesRequireWeakTypes"]
            inprog = [cb for cb, t in ni.calls() if fx.callee(t) == "anchor_store::recursive_anchor_in_progress"]
            ctx.check(bool(rr) and bool(inprog) and must_pass(ni, [t_], inprog), "DOM", "C02:DOM:recursive-reference", "self-reference is an error unless a recursive wrapper is in progress",
                      "an alias to its own open anchor is neither rejected nor routed through recursive_anchor_in_progress", config, ctx.where(ni, b))
            for ib in inprog:
                e = switch_edges(ni, ni.blocks[ib]["term"]["t"]) if ni.blocks[ib]["term"]["t"] is not None else None
                if e:
                    ctx.check(must_pass(ni, [e[1]], rr), "DOM", "C02:DOM:recursive-reference:error-edge", "without a recursive wrapper in progress the recursive-reference error is returned",
                              "the `not in progress` edge does not return RecursiveReferencesRequireWeakTypes", config, ctx.where(ni, ib))
        # the replay loop's lookup failure
        ok_or = [b for b, t in ni.calls() if fx.callee(t) == "std::option::Option::ok_or_else" and "self.anchors" in _deep(ni, t["args"][0])]
        okcl = False
        for b in ok_or:
            with ni.deep():
                cl = ni.sym_operand(ni.blocks[b]["term"]["args"][1])
            if cl[0] == "mkclosure":
                g = fx.fns.get(cl[1])
                okcl = g is not None and any(fx.callee(t) == "de_error::Error::unknown_anchor" for _b, t in g.calls())
        ctx.check(okcl, "DOM", "C02:DOM:replay-lookup-failure", "a replay frame whose buffer vanished yields the unknown-anchor error",
                  "the replay loop no longer turns a missing buffer into the unknown-anchor error", config, ctx.where(ni))
        rule_record(ctx, fx, config)
        # anchors are per document: the table is cleared whole at every boundary (shared rule, C11)
        from .C11 import rule_reset_whole
        rule_reset_whole(ctx, fx, config, prop="C02")
        recs = [b for b, t in ni.calls() if fx.callee(t) == LE + "::record"]
        bstart = [b for b, t in ni.calls() if fx.callee(t) == LE + "::bump_depth_on_start"]
        bend = [b for b, t in ni.calls() if fx.callee(t) == LE + "::bump_depth_on_end"]
        # ---- RECORD:seed — the protocol between an anchored container start and record(.., seeded_new_frame):
        # record(ev, true, seeded) with seeded == (anchor != 0) skips the LAST frame because that frame was just pushed and
        # already holds the start event.  So on the anchor != 0 edge the push precedes the call, the pushed frame is seeded
        # with that event, carries that anchor id and depth 1; and nothing else passes a non-false `seeded`.
        from ..rules import compares
        pushes = []
        for b, t in ni.calls():
            if last_seg(fx.callee_decl(t)) == "push" and t["args"]:
                with ni.deep():
                    if render(ni.sym_operand(t["args"][0])).endswith("self.rec_stack"):
                        pushes.append(b)
        ctx.floor("RECORD.frame-pushes", len(pushes), 2, config)
        cmps = [c for c in compares(ni) if c["op"] in ("Ne", "Eq") and c["rr"] == "0" and c["rl"] == "anchor_id"]
        nseed = 0
        for rb in recs:
            t = ni.blocks[rb]["term"]
            seeded = ni.sym_operand(t["args"][3])
            if seeded == ("const", False, "bool"):
                continue
            nseed += 1
            rs = render(seeded)
            key = "C02:RECORD:seed:%s" % (ni.blocks[rb]["term"].get("ln") and "call#%d" % nseed)
            okarg = rs == "Ne(anchor_id, 0)" and ni.sym_operand(t["args"][2]) == ("const", True, "bool")
            ctx.check(okarg, "RECORD", key + ":flag", "seeded_new_frame is exactly `anchor_id != 0` on a start event", "record() is told a frame was seeded under the condition `%s`" % rs, config, ctx.where(ni, rb))
            # the governing comparison: the nearest one whose block dominates the call
            gov = [c for c in cmps if ni.dominates(c["block"], rb)]
            okp = False
            for c in gov:
                anch = c["t"] if c["op"] == "Ne" else c["f"]
                mine = [p_ for p_ in pushes if ni.edge_dominates(c["block"], anch, p_)]
                if mine and rb not in ni.reachable([anch], avoid=mine):
                    okp = True
                    for p_ in mine:
                        # the pushed frame
                        fr = ni.sym_operand(ni.blocks[p_]["term"]["args"][1])
                        okf = fr[0] == "aggr" and fr[1].endswith("RecFrame")
                        if okf:
                            flds = dict(zip(fr[3], fr[4]))
                            okf = render(flds.get("id")) == "anchor_id" and flds.get("depth", ("?",))[:2] == ("const", 1)
                        ctx.check(okf, "RECORD", key + ":frame", "the new frame carries the node's anchor id and depth 1", "the frame pushed for an anchored start is not {id: anchor_id, depth: 1, ..}: %s" % render(fr)[:120], config, ctx.where(ni, p_))
                        # seeded with the start event: a push of a clone of the delivered event into the frame's buffer dominates the frame push
                        seeds = []
                        for b2, t2 in ni.calls():
                            if last_seg(fx.callee_decl(t2)) == "push" and ni.dominates(b2, p_) and ni.edge_dominates(c["block"], anch, b2) and b2 != p_:
                                a1 = render(ni.sym_operand(t2["args"][1]))
                                if "clone(" in a1 and "ev" in a1:
                                    seeds.append(b2)
                        ctx.check(bool(seeds), "RECORD", key + ":seeded", "the new frame's buffer starts with the start event", "the frame pushed for an anchored start is not seeded with the start event (record() skips it, so the replay buffer would lack its first event)", config, ctx.where(ni, p_))
            ctx.check(okp, "RECORD", key + ":push-first", "on the anchored edge the frame is pushed before record() is told to skip the last frame",
                      "record(.., seeded_new_frame) can run before the new frame was pushed: the innermost ENCLOSING anchor's buffer is skipped instead and loses this start event (aliases to the outer anchor replay a broken tree)", config, ctx.where(ni, rb))
        ctx.floor("RECORD.seeded-calls", nseed, 2, config)
        # record(): the seeded branch skips exactly the last frame
        rf = fx.fn(LE + "::record")
        ctx.saw(rf)
        with rf.deep():
            skip = [c for c in compares(rf) if c["op"] in ("Ne", "Eq") and any("Sub(" in x and "rec_stack" in x and x.rstrip(")").endswith(", 1") for x in (c["rl"], c["rr"]))]
        ctx.check(len(skip) == 1, "RECORD", "C02:RECORD:seed:skip-last", "record() skips only the frame at index len-1 when seeded", "record() no longer skips exactly the last frame in the seeded case (%d comparisons with len-1)" % len(skip), config, ctx.where(rf))
        # an anchored scalar is stored under its own id; a closed frame under its own id
        st = 0
        for f in (ni, fx.fn(LE + "::bump_depth_on_end")):
            ctx.saw(f)
            for b, t in f.calls():
                if fx.callee(t).endswith("IndexMut>::index_mut") and render(f.sym_operand(t["args"][0])) == "self.anchors":
                    st += 1
                    idx = render(f.sym_operand(t["args"][1]))
                    ev_anchor_ops = set()
                    for ab, i, adt, var, fl, ops, s_ in aggregates(f):
                        if adt == "de::Ev" and "anchor" in fl:
                            ev_anchor_ops.add(render(ops[fl.index("anchor")]))
                    # value stored through the returned slot
                    stored = ""
                    for sb, i, s_ in f.stmts():
                        if s_["k"] == "assign" and s_["p"]["l"] == t["dest"]["l"] and s_["p"]["pr"] == ["*"]:
                            stored = render(f.sym_rvalue(s_["rv"]))
                    okidx = idx in ev_anchor_ops or (idx.endswith(".id") and (idx[:-3] + ".buf") in stored)
                    ctx.check(okidx, "RECORD", "C02:RECORD:store-index:%s#%d" % (f.name, st),
                              "buffer stored at the node's own anchor id (%s)" % idx, "anchor buffer stored at `%s`, which is not the anchor id of the recorded node" % idx, config, ctx.where(f, b))
        # (the floor counts buffer stores however they are written — see below)
        # STORE-UNCONDITIONAL: once a node is known to be anchored its buffer *is* stored — whatever the store is written like
        # (indexing after ensuring capacity, or through a helper that hands out the slot): the store is not an `if let Some(slot)`
        # whose other arm drops the buffer silently, which turns a later, valid alias into "unknown anchor".
        def buffer_stores(f):
            out = []
            for sb, i, s_ in f.stmts():
                if s_["k"] == "assign" and s_["p"]["pr"]:
                    with f.deep():
                        v = f.sym_rvalue(s_["rv"])
                    if sym_contains(v, lambda x: x[0] == "call" and last_seg(x[1]) == "into_boxed_slice"):
                        out.append(sb)
            return out
        bd = fx.fn(LE + "::bump_depth_on_end")
        S = buffer_stores(bd)
        pops = [b for b, t in bd.calls() if last_seg(fx.callee(t)) == "pop" and render(bd.sym_operand(t["args"][0])).endswith("rec_stack")]
        from ..rules import err_return_blocks
        okst = bool(S) and bool(pops)
        for pb in pops:
            nxt = bd.blocks[pb]["term"].get("t")
            if nxt is None or not must_pass(bd, [nxt], S + list(err_return_blocks(bd)), to_blocks=list(bd.return_blocks()) + [pb]):
                okst = False
        ctx.check(okst, "RECORD", "C02:RECORD:store-unconditional:bump_depth_on_end", "a finished anchored container's buffer is stored on every path that closed its frame",
                  "bump_depth_on_end can close a recording frame without storing its buffer (the store is conditional): an alias to that anchor then fails with `unknown anchor` although the anchor is defined", config, ctx.where(bd))
        Sn = buffer_stores(ni)
        nz = [c for c in compares(ni) if c["op"] in ("Ne", "Eq") and c["rr"] == "0" and c["rl"].endswith("anchor_id")]
        pushes = [b for b, t in ni.calls() if last_seg(fx.callee(t)) == "push" and render(ni.sym_operand(t["args"][0])).endswith("rec_stack")]
        nsc = 0
        for c in nz:
            anchored = c["t"] if c["op"] == "Ne" else c["f"]
            if not (set(Sn) & ni.reachable([anchored], avoid=pushes)):
                continue  # a container arm: the frame push is its obligation (RECORD:seed)
            nsc += 1
            ctx.check(must_pass(ni, [anchored], Sn + pushes + list(err_return_blocks(ni))), "RECORD", "C02:RECORD:store-unconditional:next_impl#%d" % nsc, "an anchored scalar's one-event buffer is stored on every path of the anchored edge",
                      "next_impl can deliver an anchored scalar without storing its buffer (the store is conditional)", config, ctx.where(ni, c["block"]))
        ctx.floor("RECORD.unconditional-scalar-stores", nsc, 1, config)
        ctx.floor("RECORD.stores", len(S) + len(Sn), 2, config)
        # ---- TRANSPARENT: attaching an anchor never changes the node's own value — the scalar event built from a parser
        # scalar takes value, style and tag from the parser event unconditionally (no rewrite that depends on the anchor)
        nt = 0
        for b, i, adt, var, fl, ops, s_ in aggregates(ni):
            if adt == "de::Ev" and var == "Scalar" and render(ops[fl.index("anchor")]) == "anchor_id" and render(ops[fl.index("tag")]) != "tags::SfTag::Null{}":
                with ni.deep():
                    st = render(ni.sym_operand(s_["rv"]["ops"][fl.index("style")]))
                    vl = render(ni.sym_operand(s_["rv"]["ops"][fl.index("value")]))
                if "recursive_anchor_in_progress" in st:
                    continue
                nt += 1
                ctx.check("phi(" not in st and "ScalarStyle::" not in st, "TRANSPARENT", "C02:TRANSPARENT:scalar-style", "the delivered scalar's style is the parser's, whatever the anchor",
                          "the style of a parser scalar is rewritten on some path before delivery (`%s`): an anchored empty quoted string `&a \"\"` becomes a plain empty scalar, i.e. null" % st[:100], config, ctx.where(ni, b))
                ctx.check("phi(" not in vl, "TRANSPARENT", "C02:TRANSPARENT:scalar-value", "the delivered scalar's text is the parser's", "the text of a parser scalar is rewritten on some path before delivery", config, ctx.where(ni, b))
        ctx.floor("TRANSPARENT.scalar-sites", nt, 1, config)
        # an anchor on a `<<` key does not change what the key is (shared rule, C03)
        from .C03 import rule_merge_key_variant_blind
        rule_merge_key_variant_blind(ctx, fx, config, prop="C02")
        # ---- ORDER: parser pulled only when the replay stack is empty
        pulls = [b for b, t in ni.calls() if fx.callee(t) == "live_events::SaphyrParser::next"]
        empty_edges = []
        for b in sorted(ni.live_blocks):
            t = ni.blocks[b]["term"]
            if t["k"] == "switch":
                with ni.deep():
                    sym = ni.sym_operand(t["o"])
                r = render(sym)
                if sym[0] == "discr" and sym[1][0] == "call" and last_seg(sym[1][1]) in ("last_mut", "last", "is_empty") and "self.inject" in r:
                    for v, tg in zip(t["vals"], t["tgts"]):
                        if v == 0:
                            empty_edges.append(tg)
                    if 0 not in t["vals"]:
                        empty_edges.append(t["tgts"][-1])
        ctx.check(bool(empty_edges) and all(any(ni.dominates(e, p) for e in empty_edges) for p in pulls), "ORDER", "C02:ORDER:replay-before-pull",
                  "the parser is pulled only through the replay stack's `empty` exit", "the parser can be pulled while a replay frame is still being served", config, ctx.where(ni))
        # ---- RESET (shared with C11)
        C11.rule_reset(ctx, fx, config)


def _deep(f, op):
    with f.deep():
        return render(f.sym_operand(op))
