"""C10 — I/O faults and the input-size cap are never swallowed (DESIGN §4 C10)."""
import re
from ..mir import norm, sym_contains, MissingAnchor
from ..rules import (render, compares, aggregates, must_pass, bool_switches, discards, switch_edges,
                     STRICT_REJECT_FORMS, last_seg)
from .. import proto

EXPLANATION = ("Static rules over the resolved MIR: CHARITER (every `None` of the reader's char iterator except true EOF at "
               "the first byte is dominated by a store into the shared error cell), CAP (strict cap comparison that precedes "
               "delivery), CELL (one Rc cell shared by iterator and event source), IOCHECK (the cell is checked first in "
               "next/peek/finish), PROTO p4 (every success path of every reader entry passes finish), DISCARD (no fallible "
               "result of the event source / writer is dropped on a path that can still succeed, crate-wide), WRITER (the "
               "io::Write adapter stores the error before failing and the entry point returns it).")
ASSUMPTIONS = ["rustc's MIR (opt-level 0) faithfully represents the compiled crate",
               "std::io::Read / BufReader / encoding_rs_io report errors as documented",
               "prefix property of partial output and the exact number of bytes pulled are runtime quantities and not decided"]

NEXT = "<buffered_input::ChunkedChars as std::iter::Iterator>::next"
IOERR = "live_events::LiveEvents::io_error"


def is_err_store(fn, fx, t):
    if fx.callee(t) != "std::cell::RefCell::replace":
        return False
    with fn.deep():
        a0 = fn.sym_operand(t["args"][0])
        a1 = fn.sym_operand(t["args"][1])
    return "self.err" in render(a0) and a1[0] == "aggr" and a1[2] == "Some"


def rule_chariter(ctx, fx, config):
    f = fx.fn(NEXT)
    ctx.saw(f)
    stores = [b for b, t in f.calls() if is_err_store(f, fx, t)]
    nones = []
    for b, i, adt, var, fl, ops, s_ in aggregates(f):
        if s_["p"]["l"] == 0 and not s_["p"]["pr"] and adt.endswith("option::Option") and var == "None":
            nones.append((b, s_.get("ln")))
    # the EOF exemption: the `Ok(0)` edge of the *first* read (the read of a character's first byte that returns no byte at
    # all).  An `Err` of whatever kind is the reader reporting a failure — `read_exact`'s UnexpectedEof cannot be told from a
    # reader failing with UnexpectedEof itself (F59) — so no edge on an error's kind() may lead to a silent `None`.
    reads = [b for b, t in f.calls() if last_seg(fx.callee_decl(t)) in ("read", "read_exact")]
    first_reads = [b for b in reads if not any(f.dominates(o, b) for o in reads if o != b)]
    more_reads = [b for b in reads if b not in first_reads]
    eof_targets = set()
    for b in sorted(f.live_blocks):
        t = f.blocks[b]["term"]
        if t["k"] != "switch" or 0 not in t["vals"]:
            continue
        with f.deep():
            sym = f.sym_operand(t["o"])
        r = render(sym)
        if sym[0] not in ("discr", "bin", "un") and re.search(r"@(Ok|Continue)\.0$", r) and sym_contains(sym, lambda x: x[0] == "call" and len(x) > 3 and x[3] in first_reads):
            tg = t["tgts"][t["vals"].index(0)]
            if t["tgts"].count(tg) == 1:
                eof_targets.add(tg)
    n_exempt = 0
    k = 0
    for b, ln in nones:
        k += 1
        key = "C10:CHARITER:none#%d" % k
        if any(f.dominates(s_, b) for s_ in stores):
            ctx.ok("CHARITER", key, "`None` (line %s) is dominated by a store into the shared error cell" % ln, config, ctx.where(f, ln=ln))
            continue
        eof = any(f.dominates(tg, b) for tg in eof_targets) and any(f.dominates(r, b) for r in first_reads) and not any(f.dominates(r, b) for r in more_reads)
        if eof:
            n_exempt += 1
            ctx.ok("CHARITER", key, "true EOF: `None` on the Ok(0) edge of the first-byte read", config, ctx.where(f, ln=ln))
        else:
            ctx.bad("CHARITER", "C10:CHARITER:silent-none:after-%s" % ("continuation-read" if any(f.dominates(r, b) for r in more_reads) else "first-read"),
                    "the char iterator returns `None` (line %s) without storing an error: the parser sees a clean end of input and a value is built from the truncated prefix" % ln, config, ctx.where(f, ln=ln))
    ctx.check(n_exempt <= 1, "CHARITER", "C10:CHARITER:single-eof-exit", "at most one silent end-of-input exit", "%d silent `None` exits" % n_exempt, config, ctx.where(f))
    ctx.floor("CHARITER.none-exits", len(nones), 7, config)
    ctx.floor("CHARITER.stores", len(stores), 6, config)
    # continuation reads: both the Ok(0) and the Err arm must store — covered by none-exit domination;
    # additionally the delivery (`chars().next()`) must not be reachable from a store
    deliver = [b for b, t in f.calls() if t["dest"]["l"] == 0 and not t["dest"]["pr"]]
    reach = f.reachable(stores)
    ctx.check(deliver and not (set(deliver) & reach), "CHARITER", "C10:CHARITER:no-delivery-after-store",
              "no character is delivered after an error was stored", "a character can be delivered after an error was stored", config, ctx.where(f))


def rule_cap(ctx, fx, config):
    f = fx.fn(NEXT)
    with f.deep():
        cmps = [c for c in compares(f)]
    stores = [b for b, t in f.calls() if is_err_store(f, fx, t)]
    deliver = [b for b, t in f.calls() if t["dest"]["l"] == 0 and not t["dest"]["pr"]]
    hits = []
    for c in cmps:
        sides = (c["rl"], c["rr"])
        if any("self.max_bytes" in s_ for s_ in sides) and any("self.total_bytes" in s_ for s_ in sides):
            hits.append(c)
    ctx.floor("CAP.compare", len(hits), 1, config)
    for c in hits:
        lim_is_r = "self.max_bytes" in c["rr"]
        form = (c["op"], lim_is_r)
        key = "C10:CAP:compare"
        where = ctx.where(f, ln=c["ln"])
        if not ctx.check(form in STRICT_REJECT_FORMS, "CAP", key + ":strict", "cap is compared strictly (reject iff total > cap)",
                         "cap comparison `%s %s %s` rejects an input exactly at the cap or accepts one byte more" % (c["rl"], c["op"], c["rr"]), config, where):
            continue
        counter = c["rl"] if lim_is_r else c["rr"]
        ctx.check(counter.startswith("saturating_add(self.total_bytes") or counter.startswith("checked_add(self.total_bytes"), "CAP", key + ":sum",
                  "compared quantity is total_bytes + this code point (non-wrapping)", "compared quantity is `%s`, expected a non-wrapping sum of self.total_bytes and the code-point length" % counter, config, where)
        reject = c["t"] if STRICT_REJECT_FORMS[form] else c["f"]
        accept = c["f"] if STRICT_REJECT_FORMS[form] else c["t"]
        ctx.check(must_pass(f, [reject], stores), "CAP", key + ":reject-stores", "reject edge stores the FileTooLarge error", "the reject edge of the cap check reaches a return without storing an error", config, where)
        ctx.check(not (set(deliver) & f.reachable([reject])), "CAP", key + ":reject-no-delivery", "no character is delivered past the cap", "a character is delivered on the reject edge of the cap check", config, where)
        # total_bytes updated on the accept path before delivery
        upd = [b for b, i, s_ in f.stmts() if s_["k"] == "assign" and s_["p"]["pr"] and render(f.sym_place(s_["p"])) == "self.total_bytes"]
        ctx.check(must_pass(f, [accept], upd, to_blocks=deliver), "CAP", key + ":accumulates", "accepted bytes are added to the running total before delivery",
                  "the running total is not updated on the accept path: the cap applies per code point instead of to the whole input", config, where)
    # every path from entry to delivery passes the compare or the `max_bytes == None` edge
    none_edges = set()
    for b in sorted(f.live_blocks):
        t = f.blocks[b]["term"]
        if t["k"] == "switch":
            sym = f.sym_operand(t["o"])
            if sym[0] == "discr" and render(sym[1]) == "self.max_bytes":
                for v, tg in zip(t["vals"], t["tgts"]):
                    if v == 0:
                        none_edges.add((b, tg))
                if 0 not in t["vals"]:
                    none_edges.add((b, t["tgts"][-1]))
    seen = set()
    st = [0]
    cmpb = {c["block"] for c in hits}
    while st:
        x = st.pop()
        if x in seen or x in cmpb:
            continue
        seen.add(x)
        for s2 in f.succ[x]:
            if (x, s2) not in none_edges:
                st.append(s2)
    ctx.check(not (seen & set(deliver)), "CAP", "C10:CAP:precedes-delivery", "the cap check precedes every delivery when a cap is configured",
              "a character can be delivered without passing the cap check although max_bytes is set", config, ctx.where(f))


def rule_cap_source(ctx, fx, config):
    """CAP:limit-is-the-configured-cap — the byte limit handed to the reader pipeline is `max_reader_input_bytes` itself,
    reached through Option plumbing only: no arithmetic, no other budget field, no closure that computes.  (An input no
    larger than the configured cap must be unaffected by it; a limit derived from anything else cuts such inputs short.)"""
    PLUMB = ("and_then", "as_ref", "map", "copied", "cloned", "as_deref", "clone")
    n = 0
    for f in sorted(fx.fns.values(), key=lambda g: g.npath):
        for b, t in f.calls():
            if not fx.callee(t).endswith("buffered_input::buffered_input_from_reader_with_limit") or f.npath.startswith("buffered_input::tests"):
                continue
            n += 1
            ctx.saw(f)
            with f.deep():
                sym = f.sym_operand(t["args"][1])
            bad, fields = [], []

            def projection_only(k):
                # the closure returns a field of its argument and does nothing else
                for kb in sorted(k.live_blocks):
                    blk = k.blocks[kb]
                    if blk["term"]["k"] not in ("return", "goto"):
                        return False
                    for s_ in blk["stmts"]:
                        if s_["k"] != "assign":
                            continue
                        rv = s_["rv"]
                        if rv["k"] != "use":
                            return False
                        o = rv["o"]
                        pl = o.get("cp") or o.get("mv")
                        if pl is None:
                            return False
                        for pr in pl["pr"]:
                            if isinstance(pr, dict) and "f" in pr:
                                fields.append(pr["f"])
                return True

            def walk(x):
                if not isinstance(x, tuple) or not x:
                    return
                if x[0] == "call":
                    if last_seg(x[1]) not in PLUMB:
                        bad.append("call " + x[1])
                    for a in x[2]:
                        walk(a)
                    return
                if x[0] == "mkclosure":
                    k = fx.fn_opt(norm(x[1]))
                    if k is None or not projection_only(k):
                        bad.append("closure " + x[1].rsplit("::", 1)[-1] + " computes")
                    return
                if x[0] in ("bin", "un", "phi", "const", "aggr"):
                    bad.append(x[0] + " " + render(x)[:40])
                    return
                if x[0] == "field":
                    fields.append(x[2])
                for a in x[1:]:
                    if isinstance(a, tuple):
                        walk(a)
            walk(sym)
            okk = not bad and "max_reader_input_bytes" in fields and not [q for q in fields if q not in ("max_reader_input_bytes", "budget", "0")]
            ctx.check(okk, "CAP", "C10:CAP:limit-is-the-configured-cap:%s" % f.name, "the reader's byte limit is `max_reader_input_bytes`, passed through unchanged (%s)" % render(sym)[:60],
                      "the limit handed to the reader pipeline is not the configured cap itself (%s; fields read: %s): inputs no larger than the cap can be cut short" % (", ".join(bad) or "no computation", sorted(set(fields))), config, ctx.where(f, b))
    ctx.floor("CAP.limit-sources", n, 1, config)
    # ... and the pipeline stores it unchanged
    g = fx.fn("buffered_input::buffered_input_from_reader_with_limit")
    thr = [render(g.sym_operand(t["args"][1])) for b, t in g.calls() if fx.callee(t) == "buffered_input::ChunkedChars::new" and len(t["args"]) > 1]
    ctx.check(thr == ["max_bytes"], "CAP", "C10:CAP:limit-passed-through", "the pipeline constructor passes its limit on unchanged", "buffered_input_from_reader_with_limit hands ChunkedChars::new `%s` instead of its own limit" % thr, config, ctx.where(g))
    h = fx.fn("buffered_input::ChunkedChars::new")
    st = [render(ops[fl.index("max_bytes")]) for b, i, adt, var, fl, ops, s_ in aggregates(h) if adt == "buffered_input::ChunkedChars" and "max_bytes" in fl]
    ctx.check(st == ["max_bytes"], "CAP", "C10:CAP:limit-stored", "ChunkedChars::new stores the limit unchanged", "ChunkedChars::new stores `%s` as its limit" % st, config, ctx.where(h))


def rule_cell(ctx, fx, config):
    g = fx.fn("buffered_input::buffered_input_from_reader_with_limit")
    ctx.saw(g)
    rc_new = [b for b, t in g.calls() if fx.callee(t) == "std::rc::Rc::new"]
    ctx.check(len(rc_new) == 1, "CELL", "C10:CELL:one-cell", "exactly one shared cell is created", "%d Rc::new calls: iterator and event source may hold different cells" % len(rc_new), config, ctx.where(g))
    okc = False
    for b, t in g.calls():
        if fx.callee(t) == "buffered_input::ChunkedChars::new":
            with g.deep():
                a = g.sym_operand(t["args"][2])
            okc = a[0] == "call" and a[1].endswith("Clone>::clone") and sym_contains(a, lambda s_: s_[0] == "call" and s_[1] == "std::rc::Rc::new")
    ctx.check(okc, "CELL", "C10:CELL:iterator-gets-clone", "the char iterator receives a clone of the cell", "ChunkedChars::new does not receive a clone of the one shared error cell", config, ctx.where(g))
    okr = False
    for b, i, s_ in g.stmts():
        if s_["k"] == "assign" and s_["p"]["l"] == 0 and not s_["p"]["pr"] and s_["rv"]["k"] == "aggr" and s_["rv"]["ak"] == "tuple":
            with g.deep():
                a = g.sym_operand(s_["rv"]["ops"][1])
            okr = a[0] == "call" and a[1] == "std::rc::Rc::new"
    ctx.check(okr, "CELL", "C10:CELL:returned", "the same cell is returned to the event source", "the returned error cell is not the one given to the iterator", config, ctx.where(g))
    h = fx.fn("live_events::LiveEvents::from_reader")
    ctx.saw(h)
    okf = False
    for b, i, adt, var, fl, ops, s_ in aggregates(h):
        if adt == "live_events::LiveEvents" and "error" in fl:
            with h.deep():
                a = h.sym_operand(s_["rv"]["ops"][fl.index("error")])
            okf = sym_contains(a, lambda s_: s_[0] == "call" and s_[1] == g.npath) and "1" in render(a).split(".")[-1:]
    ctx.check(okf, "CELL", "C10:CELL:stored-in-source", "LiveEvents.error is the cell returned by the input constructor", "LiveEvents::from_reader does not store the cell returned by buffered_input_from_reader_with_limit", config, ctx.where(h))


def rule_iocheck(ctx, fx, config):
    for name in (proto.NEXT, proto.PEEK, proto.FINISH):
        f = fx.fn(name)
        ctx.saw(f)
        t0 = f.blocks[0]["term"]
        first = t0["k"] == "call" and fx.callee(t0) == IOERR
        ctx.check(first, "IOCHECK", "C10:IOCHECK:%s:first" % name, "the stored I/O error is checked before anything else",
                  "%s no longer starts with the io_error() check: an event (or success) can be produced after the reader failed" % name, config, ctx.where(f))
        if first:
            # its error edge returns
            ioblk = 0
            others = [b for b, t in f.calls() if b != ioblk and not fx.callee(t).endswith("Try>::branch") and not fx.callee(t).endswith("from_residual")]
            # every other call is reachable only through the Continue edge: weaker but structural —
            # the result must flow to a `?`/match: it is used
            from ..rules import local_uses
            ctx.check(bool(local_uses(f, t0["dest"]["l"])), "IOCHECK", "C10:IOCHECK:%s:propagated" % name, "the check's result is propagated",
                      "the result of io_error() is ignored in %s" % name, config, ctx.where(f))
    # TAKE-ONCE: io_error() *takes* the stored error out of the cell.  The single-document entries drop the error of their
    # final peek() once the document-end marker was seen (trailing garbage) and rely on finish() to find a stored I/O error;
    # so within one pump call nothing may take the error after seen_doc_end was set.
    le = [f for f in fx.fns.values() if f.d.get("impl_adt") == "live_events::LiveEvents" or f.npath.startswith("<live_events::LiveEvents as ")]
    le += [c for f in list(le) for c in fx.closures_of(f)]
    byname = {f.npath: f for f in le}

    def direct_set(f, b):
        for s_ in f.blocks[b]["stmts"]:
            if s_["k"] == "assign" and s_["p"]["pr"] and render(f.sym_place(s_["p"])) == "self.seen_doc_end" and f.sym_rvalue(s_["rv"]) == ("const", True, "bool"):
                return True
        return False
    sets = {f.npath for f in le if any(direct_set(f, b) for b in f.live_blocks)}
    takers = {IOERR}
    changed = True
    while changed:
        changed = False
        for f in le:
            cs = {fx.callee(t) for b, t in f.calls()}
            if f.npath not in sets and cs & sets:
                sets.add(f.npath); changed = True
            if f.npath not in takers and cs & takers:
                takers.add(f.npath); changed = True
    ctx.check(bool(sets) and proto.PEEK in sets, "IOCHECK", "C10:IOCHECK:take-once:anchor", "seen_doc_end is set inside the pump (%d functions may set it)" % len(sets), "cannot find where seen_doc_end is set", config, None)
    nchk = 0
    for f in le:
        setb = [b for b in f.live_blocks if direct_set(f, b)] + [b for b, t in f.calls() if fx.callee(t) in sets]
        takeb = [b for b, t in f.calls() if fx.callee(t) in takers]
        if not setb or not takeb:
            continue
        nchk += 1
        after = set()
        for b in setb:
            t = f.blocks[b]["term"]
            after |= f.reachable(f.succ[b])
        leak = sorted(b for b in takeb if b in after)
        ctx.check(not leak, "IOCHECK", "C10:IOCHECK:take-once:%s" % f.npath, "the stored I/O error is never taken after the document-end marker was recorded in the same call",
                  "%s can take the stored I/O error (line(s) %s) after seen_doc_end was set: the entry points drop the error of that peek() as trailing garbage and finish() no longer finds it — a reader failure is reported as success" %
                  (f.npath, sorted({f.blocks[b]["term"].get("ln") for b in leak})), config, ctx.where(f, leak[0] if leak else None))
    ctx.floor("IOCHECK.take-once.functions", nchk, 1, config)
    g = fx.fn(IOERR)
    ctx.saw(g)
    takes = [b for b, t in g.calls() if fx.callee(t) in ("std::cell::RefCell::take", "std::cell::RefCell::replace", "std::cell::RefCell::borrow_mut", "std::cell::RefCell::borrow")]
    errs = [b for b, i, adt, var, fl, ops, s_ in aggregates(g) if adt == "de_error::Error" and var == "IOError"]
    ctx.check(bool(takes) and bool(errs), "IOCHECK", "C10:IOCHECK:io_error:shape", "io_error() reads the cell and builds Error::IOError",
              "io_error() no longer converts the stored error into Error::IOError", config, ctx.where(g))


def rule_no_output_after_held_error(ctx, fx, config):
    """PREFIX: what the serializer writes after a failed write is not a prefix of the fault-free output any more.  A
    serializer function that keeps the Result of a nested serialization in a local (instead of propagating it at once)
    writes nothing before it returns that local."""
    n = 0
    writers = ("write_str", "write_char", "write_fmt")
    for f in sorted(fx.fns.values(), key=lambda f: f.npath):
        if not f.file.endswith("src/ser.rs"):
            continue
        for b, t in f.calls():
            if not (t["f"].get("trait") == "serde::Serialize" and t["f"].get("name") == "serialize"):
                continue
            d = t["dest"]
            if d["pr"] or t["t"] is None:
                continue
            # is the destination returned as is (moved into _0) rather than branched on right away?
            rets = []
            for rb, ri, s_ in f.stmts():
                if s_["k"] == "assign" and s_["p"]["l"] == 0 and not s_["p"]["pr"] and s_["rv"]["k"] == "use":
                    src = s_["rv"]["o"].get("mv") or s_["rv"]["o"].get("cp")
                    if src is not None and not src["pr"]:
                        v = f.sym_local(src["l"])
                        if src["l"] == d["l"] or (v[0] == "call" and len(v) > 3 and v[3] == b):
                            rets.append(rb)
            if not rets:
                continue
            n += 1
            ctx.saw(f)
            between = f.reachable([t["t"]])
            outs = []
            for wb, wt in f.calls():
                if wb in between and wb != b and any(wb in f.reachable([t["t"]]) and r in f.reachable([wb]) for r in rets):
                    c = fx.callee(wt)
                    cd = fx.callee_decl(wt)
                    if last_seg(cd) in writers or c.endswith(("::newline", "::write_indent", "::write_space_if_pending", "::write_end_of_scalar")):
                        outs.append(wb)
            ctx.check(not outs, "WRITER", "C10:WRITER:no-output-after-held-error:%s" % f.npath.split("::")[-1], "nothing is written between a nested serialization and the return of its (held) result",
                      "%s keeps the Result of a nested serialization in a local, writes more output (line(s) %s) and only then returns it: after a failed write the output is no longer a prefix of the fault-free output" % (f.npath, sorted({f.blocks[x]["term"].get("ln") for x in outs})), config, ctx.where(f, b))
    ctx.check(True, "WRITER", "C10:WRITER:no-output-after-held-error:census", "functions holding a nested result: %d" % n, "", config, None)


def rule_skip_end(ctx, fx, config):
    """SKIP-END: skip_to_next_document() answers `false` both for a clean end of the stream and for a stream cut short by a
    reader failure / the byte cap (the char source just ends).  An iterator that stops on that answer consults finish(),
    which is where a stored I/O error surfaces, before it returns."""
    n = 0
    for f in proto.iterator_nexts(fx):
        sk = [(b, t) for b, t in f.calls() if fx.callee(t) == "live_events::LiveEvents::skip_to_next_document"]
        fin = [b for b, t in f.calls() if fx.callee(t) == proto.FINISH]
        for b, t in sk:
            n += 1
            ctx.saw(f)
            e = switch_edges(f, t["t"]) if t["t"] is not None else None
            if not e:
                ctx.bad("IOCHECK", "C10:IOCHECK:skip-end:%s" % f.npath, "the result of skip_to_next_document() is not branched on", config, ctx.where(f, b))
                continue
            sym = f.sym_operand(f.blocks[t["t"]]["term"]["o"])
            ended = e[0] if sym[0] == "un" else e[1]
            ctx.check(bool(fin) and must_pass(f, [ended], fin), "IOCHECK", "C10:IOCHECK:skip-end:%s" % f.npath, "when the skip reaches the end of the stream the iterator consults finish() before returning",
                      "%s returns after skip_to_next_document() reported the end of the stream without consulting finish(): a reader failure (or the byte cap) that ended the stream during the skip is reported as a clean end" % f.npath, config, ctx.where(f, b))
    ctx.floor("IOCHECK.skip-end-sites", n, 1, config)


def rule_failure_latched(ctx, fx, config):
    """LATCH: the stored I/O error is handed out once (take), so the fact that the input failed has to be remembered
    separately: every path of io_error() that returns the error sets the latch first, and skip_to_next_document() — the
    iterators' way to recover from a *document* error — pulls nothing and reports "no next document" once the latch is set.
    Otherwise the iterators go on after a reader failure / the byte cap and yield values built from the input cut short
    by it (F60)."""
    io = fx.fn("live_events::LiveEvents::io_error")
    ctx.saw(io)
    errs = [b for b, i, adt, var, fl, ops, s_ in aggregates(io) if adt == "de_error::Error" and var == "IOError"]
    sets = {}
    for b, i, s_ in io.stmts():
        if s_["k"] == "assign" and s_["p"]["pr"] and io.sym_rvalue(s_["rv"]) == ("const", True, "bool"):
            sets.setdefault(render(io.sym_place(s_["p"])), []).append(b)
    latch = [k for k, bs in sets.items() if errs and all(any(io.dominates(b, e) or b == e for b in bs) for e in errs)]
    if not ctx.check(bool(errs) and len(latch) >= 1, "LATCH", "C10:LATCH:failure-is-remembered", "io_error() sets `%s` whenever it hands out the stored error" % (latch[0] if latch else "?"),
                     "io_error() hands out the stored I/O error without recording that the input failed: the error is gone after one report and the iterators carry on", config, ctx.where(io)):
        return
    sk = fx.fn("live_events::LiveEvents::skip_to_next_document")
    ctx.saw(sk)
    pulls = [b for b, t in sk.calls() if fx.callee(t) == "live_events::SaphyrParser::next"]
    guards = [(sb, tt, ff) for sb, sym, tt, ff in bool_switches(sk) if render(sym) in latch]
    okk = bool(pulls) and bool(guards) and all(any(sk.edge_dominates(sb, ff, pb) for sb, tt, ff in guards) for pb in pulls)
    # ... and the latched edge answers `false` without pulling
    falses = [b for b, i, s_ in sk.stmts() if s_["k"] == "assign" and s_["p"]["l"] == 0 and not s_["p"]["pr"] and sk.sym_rvalue(s_["rv"]) == ("const", False, "bool")]
    ans = all(must_pass(sk, [tt], falses) and not (set(pulls) & sk.reachable([tt])) for sb, tt, ff in guards)
    ctx.check(okk and ans, "LATCH", "C10:LATCH:no-next-document-after-failure", "skip_to_next_document() pulls only while the input has not failed, and answers `false` once it has",
              "skip_to_next_document() still looks for a next document after the input has failed: the parser may hold the start of a document buffered before the failure, and the iterator yields a value built from the truncated input after the error", config, ctx.where(sk))
    # writers of the latch: io_error (true) and the constructors (aggregate) only
    fld = latch[0].rsplit(".", 1)[-1]
    extra = []
    for g in fx.fns.values():
        for b, i, s_ in g.stmts():
            if s_["k"] == "assign" and s_["p"]["pr"] and render(g.sym_place(s_["p"])).endswith("." + fld) and g is not io:
                extra.append(g.npath)
    ctx.check(not extra, "LATCH", "C10:LATCH:who-writes", "the latch is written by io_error() only", "the failure latch is also written by %s (a reset would let the iterators carry on)" % sorted(set(extra)), config, ctx.where(io))


def rule_discard(ctx, fx, config):
    n = 0
    allowed = 0
    for f in sorted(fx.fns.values(), key=lambda f: f.npath):
        ds = discards(f, fx)
        if not ds:
            continue
        ctx.saw(f)
        per = {}
        for b, t, e, via in ds:
            n += 1
            callee = fx.callee(t)
            idx = per.get(callee, 0) + 1
            per[callee] = idx
            key = "C10:DISCARD:%s:%s#%d" % (f.npath, callee, idx)
            where = ctx.where(f, b)
            # (i) infallible: writes into a String
            fd = t["f"]
            if fd.get("trait") == "std::fmt::Write" and (fd.get("self_ty") == "std::string::String" or (fd.get("args") or [""])[0] == "std::string::String"):
                allowed += 1
                ctx.ok("DISCARD", key, "allowed: <String as fmt::Write> is infallible", config, where)
                continue
            # (ii) every path from here yields only error-carrying results
            if f.d.get("impl_trait") == "std::iter::Iterator":
                okp = proto.returns_only_err_items(f, t["t"])
            else:
                okp = not any(b2 in f.reachable([t["t"]]) for b2, _s, _l in proto.ok_sources(f))
            if okp:
                allowed += 1
                ctx.ok("DISCARD", key, "allowed: every path from the discard returns an error", config, where)
            else:
                ctx.bad("DISCARD", key, "the %s result of %s is dropped (%s) on a path that can still succeed: an I/O or budget error taken out of the shared cell is lost" % (e, callee, via), config, where)
    ctx.floor("DISCARD.sites", n, 6, config)


def rule_writer(ctx, fx, config):
    ws = [f for f in fx.fns.values() if f.name == "write_str" and "to_io_writer_with_options::Adapter" in f.npath]
    if len(ws) != 1:
        raise MissingAnchor("io::Write adapter write_str not found")
    f = ws[0]
    ctx.saw(f)
    wr = [b for b, t in f.calls() if last_seg(fx.callee_decl(t)) in ("write_all", "write")]
    ctx.check(len(wr) == 1, "WRITER", "C10:WRITER:adapter:write", "adapter forwards to write_all", "adapter no longer forwards exactly one write_all", config, ctx.where(f))
    stores = [b for b, i, s_ in f.stmts() if s_["k"] == "assign" and s_["p"]["pr"] and render(f.sym_place(s_["p"])) == "self.last_err"]
    errs = [b for b, i, adt, var, fl, ops, s_ in aggregates(f) if s_["p"]["l"] == 0 and var == "Err"]
    ctx.check(bool(errs) and all(any(f.dominates(s_, e) for s_ in stores) for e in errs), "WRITER", "C10:WRITER:adapter:store-before-fail",
              "the I/O error is stored before fmt::Error is returned", "the adapter returns fmt::Error without remembering the I/O error", config, ctx.where(f))
    # the Ok path must be control-dependent on write_all's success: Ok not reachable from the Err arm
    oks = [b for b, i, adt, var, fl, ops, s_ in aggregates(f) if s_["p"]["l"] == 0 and var == "Ok"]
    ctx.check(bool(oks) and bool(stores) and not (set(oks) & f.reachable(stores)), "WRITER", "C10:WRITER:adapter:no-ok-after-error",
              "a failed write never reports success", "the adapter can report success after a failed write", config, ctx.where(f))
    g = fx.fn("to_io_writer_with_options")
    ctx.saw(g)
    takes = []
    for b, t in g.calls():
        if fx.callee(t) == "std::option::Option::take" and render(g.sym_operand(t["args"][0])) == "adapter.last_err":
            takes.append(b)
    ctx.check(len(takes) >= 1, "WRITER", "C10:WRITER:entry:consults-last-err", "the entry point consults the stored I/O error", "to_io_writer_with_options no longer consults adapter.last_err", config, ctx.where(g))
    conv = [b for b, t in g.calls() if "From<std::io::Error>" in fx.callee_decl(t) or (fx.callee(t).endswith("::from") and "io::Error" in str(t["f"].get("args")))]
    ctx.check(bool(conv) and all(any(g.dominates(tb, cb) for tb in takes) for cb in conv), "WRITER", "C10:WRITER:entry:returns-io-error",
              "the stored I/O error is converted and returned", "the stored I/O error is not returned by to_io_writer_with_options", config, ctx.where(g))
    # every Err result of the entry that is not the io error must be dominated by the take (so io error wins)
    for b, i, adt, var, fl, ops, s_ in aggregates(g):
        if s_["p"]["l"] == 0 and var == "Err":
            ser_call = [cb for cb, t in g.calls() if last_seg(fx.callee_decl(t)) == "serialize"]
            if ser_call and g.dominates(ser_call[0], b):
                ctx.check(any(g.dominates(tb, b) for tb in takes), "WRITER", "C10:WRITER:entry:io-error-first", "formatting error is returned only after the stored I/O error was looked for",
                          "a serialization error is returned without first checking the stored I/O error", config, ctx.where(g, ln=s_.get("ln")))


def rule_read_ahead_bounded(ctx, fx, config):
    """LIMIT (pull bound): besides what the parser consumes, the only place that pulls bytes from the user's reader is the snapshot
    taken for an error's snippet (`read_ahead_at_most`).  How much it may pull is a compile-time constant: the argument resolves
    — through the ring reader's own functions and their callers — to constants, the stash length and non-wrapping subtractions /
    `min`s of those; never to an option value (a crop radius of a million would drain a megabyte past the cap)."""
    target = "ring_reader::RingReader::read_ahead_at_most"
    n = [0]

    def bounded(f, sym, depth, trail):
        """list of unbounded leaves"""
        k = sym[0]
        if k == "const":
            return []
        if k == "call":
            nm = last_seg(sym[1])
            if nm in ("len", "capacity"):
                return []
            if nm in ("min",) and any(a[0] == "const" for a in sym[2]):
                return []
            if nm in ("saturating_sub", "checked_sub", "min", "unwrap_or", "saturating_add", "max", "saturating_mul", "from", "into", "try_from", "unwrap_or_default"):
                out = []
                for a in sym[2]:
                    out += bounded(f, a, depth, trail)
                return out
            return ["%s: result of %s" % (trail, sym[1])]
        if k in ("bin", "un", "cast", "field", "deref", "ref", "phi", "downcast"):
            out = []
            for a in sym[1:]:
                if isinstance(a, tuple) and a and isinstance(a[0], str):
                    out += bounded(f, a, depth, trail)
                elif isinstance(a, (tuple, list)):
                    for x in a:
                        if isinstance(x, tuple) and x and isinstance(x[0], str):
                            out += bounded(f, x, depth, trail)
            return out
        if k == "arg":
            if sym[1] == 1 and sym[2] == "self":
                return []
            if depth >= 3:
                return ["%s: parameter `%s` (call depth exhausted)" % (trail, sym[2])]
            out = []
            cs = fx.callers.get(f.npath, [])
            if not cs:
                return ["%s: parameter `%s` of an uncalled function" % (trail, sym[2])]
            for g, cb in cs:
                t = g.blocks[cb]["term"]
                if sym[1] - 1 < len(t["args"]):
                    with g.deep():
                        a = g.sym_operand(t["args"][sym[1] - 1])
                    out += bounded(g, a, depth + 1, trail + " <- " + g.name)
            return out
        # a local that did not resolve, a closure capture, anything else: a run-time value
        return ["%s: `%s`" % (trail, render(sym)[:60])]
    for g, cb in fx.callers.get(target, []):
        if g.file.endswith("ring_reader.rs") and "tests" in g.npath:
            continue
        t = g.blocks[cb]["term"]
        with g.deep():
            a = g.sym_operand(t["args"][1])
        n[0] += 1
        ctx.saw(g)
        bad = bounded(g, a, 0, g.name)
        ctx.check(not bad, "LIMIT", "C10:LIMIT:snapshot-read-ahead-is-constant-bounded:%s" % g.name, "the snapshot's read-ahead is bounded by constants and the stash length",
                  "the amount the error snapshot may pull from the reader depends on a run-time value (%s): with a large crop radius an error (e.g. the byte cap itself) drains far more than the cap plus a fixed allowance" % "; ".join(bad)[:300],
                  config, ctx.where(g, cb))
    ctx.floor("LIMIT.read-ahead-sites", n[0], 1, config)


def run(ctx):
    for config in ctx.configs:
        fx = ctx.facts(config)
        rule_chariter(ctx, fx, config)
        rule_cap(ctx, fx, config)
        rule_cap_source(ctx, fx, config)
        rule_cell(ctx, fx, config)
        rule_iocheck(ctx, fx, config)
        n4 = proto.check_p4(ctx, fx, config) + proto.check_p4_iter(ctx, fx, config)
        ctx.floor("PROTO.p4", n4, 6, config)
        rule_skip_end(ctx, fx, config)
        rule_failure_latched(ctx, fx, config)
        rule_discard(ctx, fx, config)
        rule_writer(ctx, fx, config)
        rule_read_ahead_bounded(ctx, fx, config)
        rule_no_output_after_held_error(ctx, fx, config)
