"""C08 — expansion work is bounded by the budget and the alias limits (DESIGN §4 C08)."""
import re
from ..mir import MissingAnchor, sym_contains
from ..rules import render, limit_rule, must_pass, aggregates, bool_switches, last_seg
from . import C07, C11

EXPLANATION = ("Static rules over the resolved MIR of the event source: LIMIT (the three alias limits are compared strictly with "
               "their own counters and yield their own errors), DOM (both push-side limits dominate the replay-frame push; the "
               "total-replayed check and the budget observation dominate every replayed return), ARITH (counters use checked / "
               "saturating adds), WHO-WRITES (alias counters are written only by the pump and the document reset), WHO-PULLS "
               "(only the event source reads the parser, so buffered subtrees are budget-counted). Peak heap and visitor call "
               "counts are runtime scaling laws and are not decided.")
ASSUMPTIONS = ["rustc's MIR (opt-level 0) faithfully represents the compiled crate",
               "peak heap (recording clones events into every open frame) is a runtime quantity: not decided",
               "capture_node / merge expansion can only obtain events through the Events trait (type-level: they hold no parser)"]

LE = "live_events::LiveEvents"


def _deep(f, op):
    with f.deep():
        return render(f.sym_operand(op))


FINISH_CALLERS = {
    "<read_with_options::ReadIter as std::iter::Iterator>::next", "<read_with_options_valid::ReadValidIter as std::iter::Iterator>::next",
    "<read_with_options_validate::ReadValidateIter as std::iter::Iterator>::next", "de::with_deserializer::enforce_single_document_and_finish",
    "from_multiple_with_options", "from_multiple_with_options_valid", "from_multiple_with_options_validate", "from_reader_with_options",
    "from_reader_with_options_valid", "from_reader_with_options_validate", "from_str_with_options_and_path_recorder", "from_str_with_options_impl",
}


def rule_budget_outlives_reading(ctx, fx, config):
    """WHO-CALLS:finish — `finish()` takes the budget enforcer out of the event source (`self.budget.take()`): whatever is read
    afterwards is read without any budget.  It is called by the entry points and iterators when *they* are done (C11 / C10
    decide on which of their paths), never by a function of the event source itself or a new helper that a caller may use
    mid-stream.  And nothing else takes the enforcer."""
    callers = sorted({(fx.fns[f.root].npath if f.kind == "closure" and f.root in fx.fns else f.npath) for f, b in fx.callers.get(LE + "::finish", [])})
    extra = [c for c in callers if c not in FINISH_CALLERS]
    ctx.check(not extra, "WHO-CALLS", "C08:WHO-CALLS:finish", "finish() is called by the %d reviewed entry points / iterators only" % len(callers),
              "finish(), which drops the budget enforcer, is also called by %s: every document read after that call is read without node, event, depth or alias budgets" % extra, config, None)
    ctx.floor("WHO-CALLS.finish-callers", len(callers), 5, config)
    takers = set()
    for f in fx.fns.values():
        for b, t in f.calls():
            if last_seg(fx.callee(t)) in ("take", "replace") and t["args"]:
                with f.deep():
                    a0 = render(f.sym_operand(t["args"][0]))
                if re.search(r"self\.budget$", a0) and f.npath.startswith(LE):
                    takers.add(f.npath)
    ctx.check(takers <= {LE + "::finish"}, "WHO-CALLS", "C08:WHO-CALLS:budget-taken-only-by-finish", "only finish() takes the enforcer", "the budget enforcer is also taken by %s" % sorted(takers - {LE + "::finish"}), config, None)


def run(ctx):
    for config in ctx.configs:
        fx = ctx.facts(config)
        rule_budget_outlives_reading(ctx, fx, config)
        ni = fx.fn(LE + "::next_impl")
        table = {
            "self.alias_limits.max_total_replayed_events": dict(counter="self.total_replayed_events", variant="AliasReplayLimitExceeded"),
            "self.alias_limits.max_alias_expansions_per_anchor": dict(
                counter=lambda c: c.startswith("self.per_anchor_expansions[") or c.startswith("index(self.per_anchor_expansions, "), counter_desc="self.per_anchor_expansions[anchor_id]", variant="AliasExpansionLimitExceeded"),
            "self.alias_limits.max_replay_stack_depth": dict(
                counter=lambda c: c in ("Add(len(self.inject), 1)", "Add(1, len(self.inject))"), counter_desc="self.inject.len() + 1", variant="AliasReplayStackDepthExceeded"),
        }
        le_fns = [f for f in fx.fns.values() if f.d.get("impl_adt") == LE]
        seen = limit_rule(ctx, fx, le_fns, table, "de_error::Error", config, is_limit=lambda r: r.startswith("self.alias_limits."))
        # DOM: push-side limits dominate the frame push
        pushes = []
        for b, t in ni.calls():
            if fx.callee(t) == "std::vec::Vec::push" and render(ni.sym_operand(t["args"][0])) == "self.inject":
                pushes.append(b)
        ctx.floor("DOM.inject-push", len(pushes), 1, config)
        for lim in ("self.alias_limits.max_alias_expansions_per_anchor", "self.alias_limits.max_replay_stack_depth"):
            for pb in pushes:
                okd = any(f is ni and ni.dominates(c["block"], pb) and pb not in ni.reachable([rej]) for f, c, rej in seen[lim])
                ctx.check(okd, "DOM", "C08:DOM:push-after:%s" % lim.rsplit(".", 1)[-1], "the replay frame is pushed only after the %s check passed" % lim.rsplit(".", 1)[-1],
                          "a replay frame can be pushed without passing the %s check" % lim.rsplit(".", 1)[-1], config, ctx.where(ni, pb))
        # per-anchor counter is incremented before it is compared (saturating), total with checked_add.  The counting, the comparison
        # and the budget re-observation may live in next_impl or in a helper of the event source in which they are unavoidable
        # (rules.lifted): the rules below are stated over next_impl's blocks either way.
        from ..rules import lifted, err_return_blocks
        def is_inc_total(g, b, t):
            return fx.callee(t) == "core::num::checked_add" and render(g.sym_operand(t["args"][0])) == "self.total_replayed_events"
        direct_inc = [(g, b) for g in le_fns for b, t in g.calls() if is_inc_total(g, b, t)]
        ctx.check(len(direct_inc) == 1 and direct_inc[0][0].sym_operand(direct_inc[0][0].blocks[direct_inc[0][1]]["term"]["args"][1])[:2] == ("const", 1), "ARITH", "C08:ARITH:total:checked_add", "total replayed events is advanced by exactly 1 with checked_add",
                  "total_replayed_events is no longer advanced by the constant 1 with exactly one checked_add", config, ctx.where(ni))
        inc_total = lifted(fx, ni, is_inc_total, same_adt=LE)
        inc_per = [b for b, t in ni.calls() if fx.callee(t) in ("core::num::saturating_add", "core::num::checked_add") and _deep(ni, t["args"][0]).startswith(("self.per_anchor_expansions[", "index(self.per_anchor_expansions, "))]
        ctx.check(len(inc_per) == 1, "ARITH", "C08:ARITH:per-anchor:non-wrapping", "per-anchor counter is advanced with a non-wrapping add", "per_anchor_expansions is no longer advanced with one saturating/checked add", config, ctx.where(ni))
        for f, c, rej in seen["self.alias_limits.max_alias_expansions_per_anchor"]:
            ctx.check(bool(inc_per) and f.dominates(inc_per[0], c["block"]), "DOM", "C08:DOM:per-anchor:inc-before-compare", "the expansion is counted before it is compared",
                      "the per-anchor expansion count is compared before it is advanced (one extra expansion allowed)", config, ctx.where(f, c["block"]))
        cmp_blocks = []
        for f, c, rej in seen["self.alias_limits.max_total_replayed_events"]:
            inc_here = [b for g, b in direct_inc if g is f]
            ctx.check(bool(inc_here) and f.dominates(inc_here[0], c["block"]), "DOM", "C08:DOM:total:inc-before-compare", "the replayed event is counted before the comparison",
                      "the total is compared before it is advanced", config, ctx.where(f, c["block"]))
            if f is ni:
                cmp_blocks.append(c["block"])
            elif must_pass(f, [0], [c["block"]] + list(err_return_blocks(f))):
                cmp_blocks += [b for b, t in ni.calls() if fx.local_callee(t) is f]
        # every replayed return passes the comparison
        okret = [b for b, i, adt, var, fl, ops, s_ in aggregates(ni) if s_["p"]["l"] == 0 and not s_["p"]["pr"] and adt.endswith("result::Result") and var == "Ok"]
        ctx.check(bool(cmp_blocks) and must_pass(ni, inc_total, cmp_blocks, to_blocks=okret), "DOM", "C08:DOM:total:before-delivery", "no replayed event is delivered without the total check",
                  "a replayed event can be delivered without passing the total-replayed check", config, ctx.where(ni))
        # ... and every replayed delivery is counted at all: the replay-only site (the budget re-observation of a replayed
        # event, which C07:REPLAY shows every replayed delivery passes) is unreachable on paths that avoid the increment / the comparison
        replay_sites = lifted(fx, ni, lambda g, b, t: fx.callee(t) == LE + "::observe_budget_for_replay", same_adt=LE)
        ctx.floor("DOM.replay-sites", len(replay_sites), 1, config)
        for what, gate in (("counted", inc_total), ("compared with the limit", cmp_blocks)):
            free = ni.reachable([0], avoid=gate) if gate else set(ni.live_blocks)
            leak = [b for b in replay_sites if b in free]
            ctx.check(bool(gate) and not leak, "DOM", "C08:DOM:total:every-replayed-event-%s" % what.split()[0], "every replayed event is %s before it is handed on" % what,
                      "a replayed event can reach the budget re-observation / delivery on a path where it is not %s (e.g. only counted under a condition): the total-replayed-events limit is not enforced for those events" % what,
                      config, ctx.where(ni, (leak or [None])[0]))
        # replayed events consume the budget (shared rule with C07)
        C07.rule_replay(ctx, fx, config)
        # a replayed scalar is charged its full text, borrowed or not: it is materialised again in the target (shared rule with C07)
        C07.rule_scalar_bytes_operand(ctx, fx, config, prop="C08")
        # recording frames, replay frames and anchor buffers do not outlive their document — also when a document is abandoned
        # after an error: a frame left open clones every later event of the stream into itself (shared rule, C11)
        C11.rule_reset(ctx, fx, config)
        # WHO-WRITES: the alias counters.  They *advance* only in the pump (or a private helper of the event source that only the
        # pump calls) and are *cleared* (a constant written) only by the document reset.
        for fld in ("total_replayed_events", "per_anchor_expansions"):
            advancers, clearers = set(), set()
            for f in fx.fns.values():
                for b, i, s_ in f.stmts():
                    if s_["k"] == "assign" and s_["p"]["pr"]:
                        r = render(f.sym_place(s_["p"]))
                        if r == "self." + fld or r.startswith("self.%s[" % fld):
                            v = f.sym_rvalue(s_["rv"])
                            (clearers if v[0] == "const" else advancers).add(f.npath)
                for b, t in f.calls():
                    for a in t["args"]:
                        pl = a.get("mv") or a.get("cp")
                        if pl is not None and not pl["pr"] and f.local_ty(pl["l"]).startswith("&mut ") and render(f.sym_operand(a)) == "self." + fld and (f.d.get("impl_adt") == LE):
                            (clearers if last_seg(fx.callee(t)) in ("clear", "fill", "truncate", "take") else advancers).add(f.npath)
            allowed = {LE + "::next_impl"}
            grew = True
            while grew:
                grew = False
                for w in sorted(advancers - allowed):
                    cs = {g.npath for g, _b in fx.callers.get(w, [])}
                    wf = fx.fn_opt(w)
                    if cs and cs <= allowed and wf is not None and wf.d.get("impl_adt") == LE:
                        allowed.add(w)
                        grew = True
            okw = bool(advancers | clearers) and advancers <= allowed | {LE + "::reset_document_state"} and clearers <= {LE + "::reset_document_state"}
            ctx.check(okw, "WHO-WRITES", "C08:WHO-WRITES:%s" % fld, "`%s` advances only in the pump and is cleared only by the document reset" % fld,
                      "`%s` is also written by %s: the counter can be cleared / altered outside a document boundary" % (fld, sorted((advancers - allowed - {LE + "::reset_document_state"}) | (clearers - {LE + "::reset_document_state"}))), config, ctx.where(ni))
        # WHO-PULLS: parser pulls and parser construction
        pullers = {f.npath for f in fx.fns.values() for b, t in f.calls() if fx.callee(t) == "live_events::SaphyrParser::next"}
        ctx.check(pullers <= {LE + "::next_impl", LE + "::skip_to_next_document"} and pullers, "WHO-PULLS", "C08:WHO-PULLS:parser",
                  "the parser is pulled only by the event pump and the document skipper", "the parser is also pulled by %s, bypassing budget and alias accounting" % sorted(pullers - {LE + "::next_impl", LE + "::skip_to_next_document"}), config, ctx.where(ni))
        makers = {f.npath for f in fx.fns.values() for b, t in f.calls() if fx.callee(t).startswith("saphyr_parser_bw::Parser::new")}
        allowed_m = {LE + "::from_str", LE + "::from_reader", "budget::check_yaml_budget"}
        ctx.check(makers <= allowed_m and makers, "WHO-PULLS", "C08:WHO-PULLS:constructors", "parsers are constructed only by the event source (and the stand-alone budget pre-scan)",
                  "a parser is also constructed in %s" % sorted(makers - allowed_m), config, ctx.where(ni))
        impls = [f for f in fx.fns.values() if f.d.get("impl_adt") == "live_events::SaphyrParser"]
        ctx.floor("WHO-PULLS.wrapper", len(impls), 1, config)
