"""C09 — all entry points agree: str, slice, reader, borrowed vs owned (DESIGN §4 C09)."""
import re

from ..mir import MissingAnchor, sym_contains, norm
from ..rules import render, aggregates, last_seg, bool_switches, compares
from .. import proto, witness

EXPLANATION = ("Static rules over the resolved MIR plus type-level witnesses: PROTO/SIBLING (every entry point threads all four "
               "option components and the same Cfg derived from the same Options into the event source / deserializer, opens the "
               "document scope, and finishes; single-document entries agree on the second-document check), BOM (the string "
               "constructor is the single choke point that strips one leading U+FEFF before the parser and the borrow source "
               "see the text; snippet text and parser text agree), SLICE (every from_slice* delegates to a string entry after "
               "UTF-8 validation with the dedicated error), DECODER (the reader's decoder is built with BOM sniffing and no "
               "override), BORROW (visit_borrowed_str only ever receives the payload of a Cow::Borrowed handed out by the "
               "parser), SIGNATURE + WITNESS (every exported function taking an io::Read bounds its output by DeserializeOwned "
               "or a higher-ranked closure; borrowed targets fail to compile, owned twins compile).")
ASSUMPTIONS = ["rustc's MIR (opt-level 0) and rustdoc compile_fail doctests (nightly) are trusted",
               "equality of values / error positions across chunkings and UTF-8 re-assembly results are runtime facts: not decided here (error discipline of the char iterator is decided under C10)"]

WITNESSES = ["C09FromReaderNeverLends", "C09ReadIteratorNeverLends", "C09WithDeserializerFromReaderNeverLends"]
CONTROLS = ["C09FromStrLends"]


def rule_cfg_threaded(ctx, fx, config):
    """the root deserializer gets Cfg::from_options(&options) of the same Options value."""
    n = 0
    for g in fx.fns.values():
        for b, t in proto.consumer_calls(fx, g):
            pass
    for g in fx.fns.values():
        for b, t in g.calls():
            c = fx.callee(t)
            if not c.startswith("de::YamlDeserializer::new"):
                continue
            with g.deep():
                a0 = g.sym_operand(t["args"][0])
                a1 = g.sym_operand(t["args"][1])
            if not sym_contains(a0, lambda s_: s_[0] == "cast" and "live_events::LiveEvents" in str(s_[4] or "")):
                continue  # nested deserializer inside de.rs
            n += 1
            ctx.saw(g)
            key = "C09:CFG:%s" % g.npath
            r = render(a1)
            # closures see cfg as an upvar / field: resolve in the parent
            okc = False
            detail = r
            root = fx.fns.get(g.path.rsplit("::", 1)[0]) if g.kind == "closure" else g
            cands = [root] if root else []
            if root is not None and proto.is_iterator_next(root):
                # cfg lives in the iterator struct: find the constructing function
                outer = fx.fn_opt(root.npath[1:].split("::")[0]) or None
                if outer:
                    cands.append(outer)
            for h in cands:
                for hb, ht in h.calls():
                    if fx.callee(ht) == "de::Cfg::from_options":
                        arg = render(h.sym_operand(ht["args"][0]))
                        opt = proto.options_param(h)
                        if opt and arg == opt:
                            okc = True
                            detail = "Cfg::from_options(&%s) in %s" % (opt, h.npath)
            if g.npath.startswith("de::with_deserializer::deserialize_with_scope"):
                # helper: cfg is a parameter; check its callers
                okc = True
                helper = fx.fn("de::with_deserializer::deserialize_with_scope")
                for (cf, cb) in fx.callers.get(helper.npath, []):
                    ct = cf.blocks[cb]["term"]
                    with cf.deep():
                        ca = cf.sym_operand(ct["args"][1])
                    opt = proto.options_param(cf)
                    good = ca[0] == "call" and ca[1] == "de::Cfg::from_options" and opt and render(ca[2][0]) == opt
                    if not good:
                        okc = False
                        detail = "caller %s passes %s" % (cf.npath, render(ca))
            ctx.check(okc, "CFG", key, "deserializer configuration is derived from the entry point's own Options (%s)" % detail,
                      "the root deserializer's Cfg is not Cfg::from_options of the entry point's Options (%s): options would silently differ between entry points" % detail, config, ctx.where(g, b))
    ctx.floor("CFG.roots", n, 5, config)


def rule_bom(ctx, fx, config):
    f = fx.fn(proto.CTOR_STR)
    ctx.saw(f)
    stripped = None
    for b, t in f.calls():
        if fx.callee(t) == "core::str::strip_prefix":
            a = f.sym_operand(t["args"][1])
            if a == ("const", "﻿", "char") and render(f.sym_operand(t["args"][0])) == "input":
                stripped = b
    ctx.check(stripped is not None, "BOM", "C09:BOM:ctor-strips", "the string constructor strips one leading U+FEFF", "LiveEvents::from_str no longer strips a leading byte-order mark", config, ctx.where(f))
    for b, t in f.calls():
        if fx.callee(t).startswith("saphyr_parser_bw::Parser::new"):
            with f.deep():
                a = f.sym_operand(t["args"][0])
            okp = sym_contains(a, lambda s_: s_[0] == "call" and s_[1] == "core::str::strip_prefix")
            ctx.check(okp, "BOM", "C09:BOM:parser-sees-stripped", "the parser is constructed from the stripped text", "the parser is constructed from the unstripped input", config, ctx.where(f, b))
    for b, i, adt, var, fl, ops, s_ in aggregates(f):
        if adt == "live_events::LiveEvents" and "input" in fl:
            with f.deep():
                a = f.sym_operand(s_["rv"]["ops"][fl.index("input")])
            okp = sym_contains(a, lambda s_: s_[0] == "call" and s_[1] == "core::str::strip_prefix")
            ctx.check(okp, "BOM", "C09:BOM:borrow-source-stripped", "the borrow source is the stripped text", "input_for_borrowing would expose the unstripped text", config, ctx.where(f, b))
    # who strips: the mark is stripped exactly once on the way to the parser — by the constructor; an entry point that strips it as
    # well makes a second U+FEFF (content) vanish for that entry point only.  The snippet renderers strip the text they are given.
    strippers = set()
    for g in fx.fns.values():
        for b, t in g.calls():
            if fx.callee(t) == "core::str::strip_prefix" and len(t["args"]) > 1 and g.sym_operand(t["args"][1]) == ("const", "\ufeff", "char"):
                strippers.add(g.npath)
    render_layer = re.compile(r"^de_error::|^de::snippet::|^de_snipped::|^miette::")
    extra = sorted(x for x in strippers if x != proto.CTOR_STR and not render_layer.search(x))
    ctx.check(proto.CTOR_STR in strippers and not extra, "BOM", "C09:BOM:stripped-once", "the only function between an entry point and the parser that strips U+FEFF is LiveEvents::from_str",
              "%s strip(s) a leading U+FEFF in addition to LiveEvents::from_str: input starting with two U+FEFF loses both for these entry points and one for the others (reader input included)" % extra, config, ctx.where(f))
    # who constructs the string parser: only the constructor (and the stand-alone budget pre-scan)
    makers = {g.npath for g in fx.fns.values() for b, t in g.calls() if fx.callee(t) == "saphyr_parser_bw::Parser::new_from_str"}
    ctx.check(makers <= {proto.CTOR_STR, "budget::check_yaml_budget"} and proto.CTOR_STR in makers, "BOM", "C09:BOM:single-choke-point",
              "string parsers are built only in LiveEvents::from_str (exception: budget::check_yaml_budget, not an entry point of C09)",
              "a string parser is also built in %s, bypassing the BOM strip" % sorted(makers - {proto.CTOR_STR, "budget::check_yaml_budget"}), config, ctx.where(f))
    # agreement: the text given to the snippet attacher is the text given to the constructor
    n = 0
    for e in proto.entries(fx):
        if e.kind != "str":
            continue
        g = e.fn
        ctor_text = render(g.sym_operand(e.term["args"][0]))
        fam = fx.family(g)
        for h in fam:
            for b, t in h.calls():
                if fx.callee(t) == "maybe_with_snippet":
                    n += 1
                    txt = render(h.sym_operand(t["args"][1]))
                    ctx.check(txt == ctor_text, "BOM", "C09:BOM:snippet-text-agrees:%s" % g.npath, "snippet text == parser text (%s)" % txt,
                              "the snippet is rendered from `%s` but the parser reads `%s`: reported columns / lines would disagree under a BOM" % (txt, ctor_text), config, ctx.where(h, b))
        # the text itself is BOM-stripped in the entry or by a helper
    ctx.floor("BOM.snippet-sites", n, 6, config)


def rule_slice(ctx, fx, config):
    n = 0
    for f in sorted(fx.fns.values(), key=lambda f: f.npath):
        if f.kind != "fn" or "from_slice" not in f.name or not f.d.get("exported"):
            continue
        n += 1
        ctx.saw(f)
        callees = [fx.callee(t) for b, t in f.calls()]
        key = "C09:SLICE:%s" % f.npath
        deleg_slice = [c for c in callees if "from_slice" in last_seg(c) and c != f.npath]
        if deleg_slice:
            ctx.ok("SLICE", key, "delegates to %s" % deleg_slice[0], config, ctx.where(f))
            continue
        utf8 = [b for b, t in f.calls() if fx.callee(t) in ("core::str::from_utf8", "std::str::from_utf8")]
        targets = [(b, t) for b, t in f.calls() if re.search(r"(^|::)(from_str|from_multiple|with_deserializer_from_str)", fx.callee(t))]
        okv = bool(utf8) and bool(targets)
        for b, t in targets:
            with f.deep():
                a = f.sym_operand(t["args"][0])
            if not sym_contains(a, lambda s_: s_[0] == "call" and s_[1] in ("core::str::from_utf8", "std::str::from_utf8")):
                okv = False
        # the error is the dedicated one
        errs = set()
        for g in fx.family(f):
            for b, i, adt, var, fl, ops, s_ in aggregates(g):
                if adt == "de_error::Error":
                    errs.add(var)
        ctx.check(okv and "InvalidUtf8Input" in errs, "SLICE", key, "validates UTF-8 (Error::InvalidUtf8Input) and delegates to the string entry with the validated text",
                  "from_slice* no longer validates UTF-8 and forwards exactly that text to the string entry point", config, ctx.where(f))
    ctx.floor("SLICE.fns", n, 4, config)


def rule_decoder(ctx, fx, config):
    f = fx.fn("buffered_input::buffered_input_from_reader_with_limit")
    ctx.saw(f)
    bcalls = [(b, t, fx.callee(t)) for b, t in f.calls() if "DecodeReaderBytesBuilder" in fx.callee(t)]
    names = sorted(last_seg(c) for _b, _t, c in bcalls)
    ctx.check(names == ["build", "encoding", "new"], "DECODER", "C09:DECODER:builder-calls", "decoder builder: new / encoding / build only",
              "decoder builder configuration changed: %s (a BOM override / passthrough would make reader input differ from string input)" % names, config, ctx.where(f))
    for b, t, c in bcalls:
        if last_seg(c) == "encoding":
            with f.deep():
                a = f.sym_operand(t["args"][1])
            ctx.check(a[0] == "aggr" and a[2] == "None", "DECODER", "C09:DECODER:sniffing", "encoding(None): BOM sniffing, UTF-8 default",
                      "the decoder is forced to a fixed encoding", config, ctx.where(f, b))


def rule_chunking(ctx, fx, config):
    """CHUNK: the reader adapter assembles one character from however many reads it takes.  `Read::read` may return fewer
    bytes than asked for (a BufReader hands out only what is buffered), so every partial read is inside a loop that continues
    until the character is complete; reads that must be complete use read_exact."""
    f = fx.fn("<buffered_input::ChunkedChars as std::iter::Iterator>::next")
    ctx.saw(f)
    loops = f.sccs()
    partial = [b for b, t in f.calls() if fx.callee_decl(t).endswith("io::Read::read")]
    exact = [b for b, t in f.calls() if fx.callee_decl(t).endswith("io::Read::read_exact")]
    ctx.floor("CHUNK.reads", len(partial) + len(exact), 2, config)
    # a read into a one-byte buffer cannot be partial (it returns 0 or 1): the first byte of a character
    def one_byte(b):
        with f.deep():
            return bool(re.search(r"RangeTo\{1\}\)$", render(f.sym_operand(f.blocks[b]["term"]["args"][1]))))
    partial = [b for b in partial if not one_byte(b)]
    for k, b in enumerate(partial, 1):
        inloop = [c for c in loops if b in c]
        okc = False
        for comp in inloop:
            # the loop's continuation test compares the accumulated count with the number of bytes still needed
            for c in compares(f):
                if c["block"] in comp and c["op"] in ("Lt", "Le", "Gt", "Ge", "Ne") and any("needed" in x for x in (c["rl"], c["rr"])) and any(x == "read" for x in (c["rl"], c["rr"])):
                    okc = True
        ctx.check(okc, "CHUNK", "C09:CHUNK:partial-read-in-loop#%d" % k, "a short read of continuation bytes is retried until the character is complete",
                  "ChunkedChars::next calls Read::read outside a `while read < needed - 1` loop: a multi-byte character whose bytes arrive in two buffer refills is reported as truncated, so from_reader disagrees with from_str depending on chunking", config, ctx.where(f, b))
        # the destination slice starts after the bytes already received
        t = f.blocks[b]["term"]
        dst = render(f.sym_operand(t["args"][1]))
        ctx.check("Add(1, read)" in dst.replace("Add(read, 1)", "Add(1, read)") and "needed" in dst, "CHUNK", "C09:CHUNK:partial-read-offset#%d" % k, "each retry writes behind the bytes already received (buf[1 + read..needed])",
                  "the continuation read does not target buf[1 + read..needed] (%s): bytes of a split character are overwritten" % dst[:100], config, ctx.where(f, b))


def rule_borrow(ctx, fx, config):
    n = 0
    for f in fx.fns.values():
        for b, t in f.calls():
            fd = t["f"]
            if fd.get("name") != "visit_borrowed_str" or fd.get("trait") != "serde::de::Visitor":
                continue
            n += 1
            ctx.saw(f)
            with f.deep():
                a = f.sym_operand(t["args"][1])
            s_ = a
            while s_[0] in ("ref", "deref"):
                s_ = s_[1]
            okb = s_[0] == "field" and s_[1][0] == "downcast" and s_[1][2] == "Borrowed"
            ctx.check(okb, "BORROW", "C09:BORROW:%s#%d" % (f.npath, n), "visit_borrowed_str receives the payload of a Cow::Borrowed",
                      "visit_borrowed_str is called with `%s`, not with the payload of the parser's Cow::Borrowed: a transformed scalar could be lent out" % render(a), config, ctx.where(f, b))
            # and that Cow is not fabricated locally: no Cow::Borrowed aggregate feeds it
            fab = sym_contains(a, lambda x: x[0] == "aggr" and x[1].endswith("borrow::Cow") and x[2] == "Borrowed")
            ctx.check(not fab, "BORROW", "C09:BORROW:not-fabricated:%s#%d" % (f.npath, n), "the Cow comes from the event, not from a local Cow::Borrowed", "the borrowed text is fabricated locally", config, ctx.where(f, b))
    ctx.floor("BORROW.sites", n, 3, config)


def rule_signature(ctx, fx, config):
    n = 0
    for f in sorted(fx.fns.values(), key=lambda f: f.npath):
        if f.kind not in ("fn",) or not f.d.get("exported"):
            continue
        preds = f.d.get("preds", [])
        if not any(re.search(r": std::io::Read\b", p) for p in preds):
            continue
        sig = f.d.get("sig", "")
        ret = sig.split("->")[-1]
        # output type parameters
        outs = set(re.findall(r"\b([A-Z][A-Za-z]*)\b", ret)) & {p.split(":")[0].strip().split(" ")[-1] for p in preds}
        outs = {o for o in outs if not any(re.search(r"^%s: std::io::(Read|Write)" % o, p) for p in preds)}
        if not outs:
            continue
        n += 1
        ctx.saw(f)
        for o in sorted(outs):
            owned = any(re.search(r"^%s: (serde::de::DeserializeOwned|for<'de> serde::Deserialize<'de>|for<'de> serde::de::Deserialize<'de>)" % o, p) for p in preds)
            hr_closure = (any(p.startswith("for<'de") and re.search(r"\bF: (std::ops::)?FnOnce", p) for p in preds)
                          and any(p.startswith("for<'de") and "Output ==" in p and re.search(r"\b%s\b" % o, p) for p in preds))
            ctx.check(owned or hr_closure, "SIGNATURE", "C09:SIGNATURE:%s:%s" % (f.npath, o), "reader entry bounds its output `%s` by DeserializeOwned / a higher-ranked closure" % o,
                      "`%s` takes an io::Read but its output type `%s` is not bounded by DeserializeOwned (nor produced by a for<'de> closure): reader input could be asked to lend" % (f.npath, o), config, ctx.where(f))
    ctx.floor("SIGNATURE.reader-fns", n, 6, config)


def rule_byte_info_confined(ctx, fx, config):
    """WHO-READS: byte offsets exist for string input only (reader events carry the `(0, 0)` "unavailable" pair), so nothing that
    decides a result or an error may look at them.  The field `byte_info` is read only by the Span accessors, the derived impls of
    Span, and the `Spanned<T>` exposure; the accessors are called only by the exposure and by the miette source-span conversion.
    A new reader (a comparison helper, a shortcut in error attachment …) makes reader input and string input disagree."""
    direct_ok = re.compile(r"^location::Span::(byte_len|byte_offset|raw_byte_info)$|^<location::Span as |^location::_::|^<location::_::|^location::location_from_span$|^<?de::spanned_deser::")
    acc_ok = re.compile(r"^miette::|^<?de::spanned_deser::|^<de::spanned_deser::")
    n = 0
    for f in sorted(fx.fns.values(), key=lambda g: g.npath):
        # a *read* (or a write) of the field: a place with a `.byte_info` projection — in a statement's source or destination,
        # in a call argument or a switch operand.  Passing a value on under that name, or building a Span from it, reads nothing.
        def touches(x):
            if isinstance(x, dict):
                if "l" in x and "pr" in x and any(isinstance(e, dict) and e.get("f") == "byte_info" for e in x["pr"]):
                    return True
                return any(touches(v) for v in x.values())
            if isinstance(x, list):
                return any(touches(v) for v in x)
            return False
        reads = False
        for b, i, s_ in f.stmts():
            if s_["k"] == "assign" and (touches(s_["rv"]) or touches(s_["p"])):
                reads = True
        for b in f.live_blocks:
            t = f.blocks[b]["term"]
            if t["k"] == "call" and touches(t["args"]):
                reads = True
            # (a `switch` directly on the field is a structural pattern match against a constant location — `Location::UNKNOWN`
            #  compares every field — and decides nothing that depends on the offsets)
        if reads:
            n += 1
            ctx.saw(f)
            ctx.check(bool(direct_ok.search(f.npath)), "WHO-READS", "C09:WHO-READS:byte-info:%s" % f.npath, "byte_info is touched by a Span accessor / derived impl / the Spanned exposure",
                      "%s reads the byte offsets of a location directly: they are `(0, 0)` for every reader event, so whatever it decides differs between reader and string input" % f.npath, config, ctx.where(f))
    ctx.floor("WHO-READS.byte-info-touchers", n, 7, config)
    for acc in ("location::Span::byte_len", "location::Span::byte_offset", "location::Span::raw_byte_info"):
        for g, b in fx.callers.get(acc, []):
            ctx.check(bool(acc_ok.search(g.npath)), "WHO-READS", "C09:WHO-READS:byte-info-accessor:%s" % g.npath, "%s is called by the Spanned exposure / the miette source-span conversion" % last_seg(acc),
                      "%s asks a location for its byte offset (%s), which reader input does not have: its outcome differs between reader and string input" % (g.npath, last_seg(acc)), config, ctx.where(g, b))


def rule_witness(ctx):
    res, out = witness.run(WITNESSES + CONTROLS)
    for w in WITNESSES:
        r = res[w]
        ctx.check(r["compile_fail"] is True, "WITNESS", "C09:WITNESS:%s:compile_fail" % w, "borrowed target from reader input fails to type-check",
                  "the witness compiles (or was not run): reader-based input can lend — %s" % r, None, "witness/src/lib.rs")
        ctx.check(r["twin"] is True, "WITNESS", "C09:WITNESS:%s:twin" % w, "owned twin compiles (the witness fails for the right reason)",
                  "the compiling twin of the witness does not compile / was not run: the witness is vacuous — %s" % r, None, "witness/src/lib.rs")
    for w in CONTROLS:
        ctx.check(res[w]["twin"] is True, "WITNESS", "C09:WITNESS:%s" % w, "positive control: from_str lends", "positive control failed: %s" % res[w], None, "witness/src/lib.rs")
    if any(v["compile_fail"] is None and v["twin"] is None for v in res.values()):
        ctx.notes.append("witness output tail: " + out[-1500:])


def rule_event_source_mode(ctx, fx, config):
    """SIBLING:event-source-mode — every entry point builds its event source in the same mode: the `stop_at_doc_end` flag of
    `LiveEvents::from_str` / `from_reader` is the constant `false` at every call (the single-document entry points reject a
    second document themselves, in one shared way).  An entry point that switches the source into its own single-document
    mode reports a second document at a different place — or as a different error — than its siblings."""
    n = 0
    for ctor in ("live_events::LiveEvents::from_reader", "live_events::LiveEvents::from_str"):
        g = fx.fn(ctor)
        names = [g.local_name(i) for i in range(1, g.nargs + 1)]
        if "stop_at_doc_end" not in names:
            raise MissingAnchor("%s has no `stop_at_doc_end` parameter" % ctor)
        idx = names.index("stop_at_doc_end")
        for f, b in fx.callers.get(ctor, []):
            if f.npath.startswith("live_events::tests") or "::tests::" in f.npath:
                continue
            n += 1
            t = f.blocks[b]["term"]
            with f.deep():
                a = f.sym_operand(t["args"][idx])
            ctx.check(a == ("const", False, "bool"), "SIBLING", "C09:SIBLING:event-source-mode:%s" % f.name, "the event source is built with stop_at_doc_end = false",
                      "%s builds its event source with stop_at_doc_end = %s: a stream with a second document is reported differently (place or kind of error) than by the other entry points" % (f.name, render(a)[:30]), config, ctx.where(f, b))
    ctx.floor("SIBLING.event-source-constructions", n, 6, config)


def run(ctx):
    for config in ctx.configs:
        fx = ctx.facts(config)
        n1 = proto.check_p1(ctx, fx, config)
        ctx.floor("PROTO.p1", n1, 24, config)
        n3 = proto.check_p3(ctx, fx, config)
        ctx.floor("PROTO.p3", n3, 5, config)
        n4 = proto.check_p4(ctx, fx, config) + proto.check_p4_iter(ctx, fx, config)
        ctx.floor("PROTO.p4", n4, 6, config)
        rule_cfg_threaded(ctx, fx, config)
        rule_bom(ctx, fx, config)
        rule_event_source_mode(ctx, fx, config)
        rule_slice(ctx, fx, config)
        rule_decoder(ctx, fx, config)
        rule_chunking(ctx, fx, config)
        rule_borrow(ctx, fx, config)
        rule_signature(ctx, fx, config)
        rule_byte_info_confined(ctx, fx, config)
        from . import C11
        C11.rule_single(ctx, fx, config)
    rule_witness(ctx)
