"""C13 — every data-model shape round-trips as one well-formed document (narrow: DESIGN §4 C13).

Decides only the PAIR clause: emitter layout state that is saved before a nested node is
emitted is restored on every non-error path on which it was overwritten, and option validation
precedes serializer construction.  Well-formedness and round-trip equality are not decided."""
import re

from ..mir import MissingAnchor, sym_contains, norm
from ..rules import render, aggregates, last_seg, bool_switches, must_pass, switch_edges, err_return_blocks, compares

EXPLANATION = ("PAIR rule over the resolved MIR of the serializer: every (field, saved local) pair of the emitter state — a field of "
               "YamlSerializer copied into a named local, or replaced / taken through Option::replace / take, or bumped by a "
               "counter increment — that is written back somewhere in the function is written back on every non-error path from "
               "the save to a return on which the field was overwritten after the save (path search with same-predicate "
               "correlation: two branches on the same unchanged flag take the same edge). Both `*_with_options` entry points "
               "validate the options before constructing the serializer. Well-formedness and equality of the re-parsed value for "
               "every shape x option vector are properties of the emitter's output, not of its shape: declared not applicable.")
ASSUMPTIONS = ["rustc's MIR (opt-level 0) faithfully represents the compiled crate",
               "on error paths (`?`) the emitter is abandoned, so unrestored state there is not a violation",
               "well-formedness / round-trip equality of emitted documents is not decided (DESIGN §4 C13)"]

SER = "ser::YamlSerializer"


TRACKED = [SER]


def ser_field(fn, place):
    """name of the tracked struct's field a place denotes (last projection), else None"""
    for e in reversed(place["pr"]):
        if isinstance(e, dict) and "i" in e:
            if e.get("of") in TRACKED and e.get("f"):
                return e["f"]
            return None
        if e == "*":
            continue
        return None
    return None


def named_source(f, rv):
    """index of the user-named local an rvalue copies (through temporaries), else None"""
    s_ = f.sym_rvalue(rv)
    if s_[0] == "local" and len(s_) > 2 and s_[2]:
        return s_[1]
    return None


def find_pairs(f, fx):
    """(save block, save stmt index or 'T', field, local, dirty_at_save) for every save that has a restore."""
    saves = []
    restores = {}  # (field, local) -> [(block, idx)]
    for b, i, s_ in f.stmts():
        if s_["k"] != "assign":
            continue
        # restore: ser.F = copy/move L   (L user-named)
        fld = ser_field(f, s_["p"]) if s_["p"]["pr"] else None
        rv = s_["rv"]
        if fld and rv["k"] == "use":
            src = named_source(f, rv)
            if src is not None:
                restores.setdefault((fld, src), []).append((b, i))
        # save: L = copy ser.F
        if not s_["p"]["pr"] and f.local_name(s_["p"]["l"]) and rv["k"] == "use":
            pl = rv["o"].get("cp") or rv["o"].get("mv")
            if pl is not None and pl["pr"]:
                sf = ser_field(f, pl)
                if sf:
                    saves.append((b, i, sf, s_["p"]["l"], False))
    for b, t in f.calls():
        c = fx.callee(t)
        if last_seg(c) in ("replace", "take") and not t["dest"]["pr"] and f.local_name(t["dest"]["l"]):
            a0 = t["args"][0]
            pl = a0.get("mv") or a0.get("cp")
            if pl is not None and not pl["pr"]:
                # the &mut temp: find its definition `&mut ser.F`
                for bb, ii, kind, payload in f.defs.get(pl["l"], []):
                    if kind == "assign" and payload["k"] == "ref" and payload.get("mut"):
                        sf = ser_field(f, payload["p"])
                        if sf:
                            saves.append((b, "T", sf, t["dest"]["l"], True))
    out = [(b, i, fld, l, dirty) for (b, i, fld, l, dirty) in saves if (fld, l) in restores]
    return out, restores


def counter_pairs(f):
    """ser.F += 1 … ser.F -= 1"""
    incs, decs = [], []
    for b, i, s_ in f.stmts():
        if s_["k"] == "assign" and s_["p"]["pr"]:
            fld = ser_field(f, s_["p"])
            if not fld:
                continue
            with f.deep():
                v = render(f.sym_rvalue(s_["rv"]))
            if re.match(r"^Add\(.*\.%s, 1\)$" % re.escape(fld), v):
                incs.append((b, i, fld))
            elif re.match(r"^Sub\(.*\.%s, 1\)$" % re.escape(fld), v):
                decs.append((b, i, fld))
    return incs, decs


def writes_field(f, fx, blk_index, fld, local):
    """yield (idx, kind) for statements / terminator of block writing ser.<fld>: 'restore' | 'overwrite'"""
    blk = f.blocks[blk_index]
    for i, s_ in enumerate(blk["stmts"]):
        if s_["k"] == "assign" and s_["p"]["pr"] and ser_field(f, s_["p"]) == fld:
            if named_source(f, s_["rv"]) == local:
                yield i, "restore"
            else:
                yield i, "overwrite"
    t = blk["term"]
    if t["k"] == "call":
        c = fx.callee(t)
        if last_seg(c) in ("replace", "take") and t["args"]:
            a0 = t["args"][0]
            pl = a0.get("mv") or a0.get("cp")
            if pl is not None and not pl["pr"]:
                for bb, ii, kind, payload in f.defs.get(pl["l"], []):
                    if kind == "assign" and payload["k"] == "ref" and payload.get("mut") and ser_field(f, payload["p"]) == fld:
                        yield "T", "overwrite"


def path_search(f, fx, start_b, start_i, fld, local, dirty0, errb, is_restore=None):
    """explore paths from the save; returns list of (return block) reached dirty, not through an error block"""
    bad = []
    seen = set()
    # predicate correlation: remember the edge taken at switches on a place, invalidated by writes to it
    st = [(start_b, start_i, dirty0, ())]
    while st:
        b, i0, dirty, preds = st.pop()
        key = (b, i0 if i0 == start_i and b == start_b else None, dirty, preds)
        if key in seen:
            continue
        seen.add(key)
        blk = f.blocks[b]
        pd = dict(preds)
        # statements after i0 (if starting mid-block)
        for i, s_ in enumerate(blk["stmts"]):
            if b == start_b and isinstance(start_i, int) and i0 is not None and i <= i0 and (b, i0) == (start_b, start_i):
                continue
            if s_["k"] == "assign":
                if s_["p"]["pr"] and ser_field(f, s_["p"]) == fld:
                    restored = named_source(f, s_["rv"]) == local
                    if is_restore:
                        restored = is_restore(f, s_)
                    dirty = not restored
                # invalidate remembered predicates written here
                if s_["p"]["pr"]:
                    r = render(f.sym_place(s_["p"]))
                    pd.pop(r, None)
        t = blk["term"]
        if t["k"] == "call" and not (b == start_b and start_i == "T" and i0 == "T"):
            for _i, kind in writes_field(f, fx, b, fld, local):
                if _i == "T" and kind == "overwrite":
                    dirty = True
        if t["k"] == "return":
            if dirty:
                bad.append(b)
            continue
        if b in errb and b != start_b:
            continue
        succs = f.succ[b]
        if t["k"] == "switch" and t["ty"] == "bool":
            sym = f.sym_operand(t["o"])
            while sym[0] == "un" and sym[1] == "Not":
                sym = sym[2]
            r = render(sym)
            e = switch_edges(f, b)
            if e and r and not r.startswith("?"):
                if r in pd:
                    succs = [e[0] if pd[r] else e[1]]
                else:
                    for pol, s2 in ((True, e[0]), (False, e[1])):
                        pd2 = dict(pd)
                        pd2[r] = pol
                        st.append((s2, None, dirty, tuple(sorted(pd2.items()))))
                    continue
        for s2 in succs:
            st.append((s2, None, dirty, tuple(sorted(pd.items()))))
    return bad


def _reaches_unindented(fx, f, targets):
    """is some block of `targets` reachable from the entry of `f` on a path on which the line may still be at its start
    (no `write_indent` call passed, and not on the false edge of an `at_line_start` test)?"""
    ind = {b for b, t in f.calls() if fx.callee(t).endswith("::write_indent")}
    skip = set()
    for sb, sym, tt, ff in bool_switches(f):
        if render(sym).endswith("at_line_start"):
            skip.add((sb, ff))
    seen, st = set(), [0]
    while st:
        x = st.pop()
        if x in seen:
            continue
        seen.add(x)
        if x in targets:
            return True
        if x in ind:
            continue
        for y in f.succ[x]:
            if (x, y) not in skip:
                st.append(y)
    return False


def rule_anchor_after_indent(ctx, fx, config):
    """ORDER:anchor-mark-after-indent — `write_indent` is also what writes the document header (`%YAML 1.2` / `---`) before
    the first node: an anchor or alias mark (`&name`, `*name`) written while the line is still at its start lands before
    the header and the indentation, and the document does not parse.  Every writer of a mark indents first when
    `at_line_start` — itself, or (if the writer leaves it to its callers) at every one of its call sites."""
    n = 0
    for w in sorted(fx.fns.values(), key=lambda g: g.npath):
        if not w.file.endswith("src/ser.rs") or w.kind == "closure":
            continue
        marks = {b for b, t in w.calls() if fx.callee(t).endswith("Write::write_char") and len(t["args"]) > 1 and render(w.sym_operand(t["args"][1])) in ("'&'", "'*'")}
        if not marks:
            continue
        n += 1
        ctx.saw(w)
        if not _reaches_unindented(fx, w, marks):
            ctx.ok("ORDER", "C13:ORDER:anchor-mark-after-indent:%s" % w.name, "the mark is written after the line's indentation (and the document header)", config, ctx.where(w))
            continue
        # the writer relies on its callers: every call site must have indented
        bad = []
        for g in fx.fns.values():
            for b, t in g.calls():
                if fx.local_callee(t) is w and _reaches_unindented(fx, g, {b}):
                    bad.append(g.name)
        ctx.check(not bad, "ORDER", "C13:ORDER:anchor-mark-after-indent:%s" % w.name, "every caller indents before the mark is written",
                  "`%s` writes an anchor / alias mark without indenting first, and so do its callers %s: at the start of a line the mark lands before the indentation — and, for the first node of a document, before the `%%YAML` / `---` header" % (w.name, sorted(set(bad))[:6]), config, ctx.where(w))
    ctx.floor("ORDER.mark-writers", n, 3, config)


def rule_empty_seq_indent(ctx, fx, config, prop="C13"):
    """LAYOUT:empty-seq-deeper-than-its-key — an empty block sequence that starts a line is written as `[]`; when it is the
    value of a key at the sequence's own depth (compact list indentation) it must be indented one level deeper than the key,
    or the line reads as a new key.  At the start of a line every pending-separator flag has been spent (the line break and
    the anchor writer clear them), so the decision can only depend on positions: the test guarding `write_indent(depth + 1)`
    reads `current_map_depth` and `depth`, nothing else."""
    f = fx.fn("<ser::SeqSer as serde::ser::SerializeSeq>::end")
    ctx.saw(f)
    deeper = [b for b, t in f.calls() if fx.callee(t).endswith("::write_indent") and render(f.sym_operand(t["args"][1])) == "Add(self.depth, 1)"]
    key = "%s:LAYOUT:empty-seq-deeper-than-its-key" % prop
    if not ctx.check(bool(deeper), "LAYOUT", key, "", "SeqSer::end never indents `[]` deeper than the key it is the value of", config, ctx.where(f)):
        return
    line_start = [(sb, tt) for sb, sym, tt, ff in bool_switches(f) if render(sym).endswith("at_line_start")]
    bad = []
    with f.deep():
        sw = list(bool_switches(f))
    for b in deeper:
        guards = [(sb, sym) for sb, sym, tt, ff in sw if (f.edge_dominates(sb, tt, b) or f.edge_dominates(sb, ff, b)) and any(f.edge_dominates(lb, lt, sb) for lb, lt in line_start)]
        if not guards:
            bad.append("unguarded")
        for sb, sym in guards:
            r = render(sym)
            leaves = set(re.findall(r"self(?:\.ser)?\.(\w+)", r))
            if not leaves <= {"current_map_depth", "depth"} or "current_map_depth" not in leaves:
                bad.append(r[:80])
    ctx.check(not bad, "LAYOUT", key, "the deeper indentation of `[]` is decided from current_map_depth and depth alone",
              "the test that gives an empty sequence at the start of a line its deeper indentation reads %s: pending-separator flags are always spent at the start of a line, so `[]` lands in the key's own column and the document does not parse" % bad, config, ctx.where(f, deeper[0]))


def run(ctx):
    for config in ctx.configs:
        fx = ctx.facts(config)
        rule_anchor_after_indent(ctx, fx, config)
        rule_empty_seq_indent(ctx, fx, config)
        npairs = 0
        for f in sorted(fx.fns.values(), key=lambda f: f.npath):
            if not f.file.endswith("src/ser.rs"):
                continue
            errb = err_return_blocks(f)
            pairs, restores = find_pairs(f, fx)
            for b, i, fld, l, dirty0 in pairs:
                npairs += 1
                ctx.saw(f)
                bad = path_search(f, fx, b, i, fld, l, dirty0, errb)
                ordn = sum(1 for (b2, i2, f2, l2, d2) in pairs if f2 == fld and f.local_name(l2) == f.local_name(l) and l2 < l)
                key = "C13:PAIR:%s:%s<-%s%s" % (f.npath, fld, f.local_name(l), "#%d" % (ordn + 1) if ordn else "")
                ctx.check(not bad, "PAIR", key, "`%s` saved in `%s` is restored on every non-error path on which it was overwritten" % (fld, f.local_name(l)),
                          "emitter state `%s` (saved in `%s` at line %s) is overwritten and a non-error return is reachable without writing it back: the layout of every following sibling / parent node is shifted" % (fld, f.local_name(l), (f.blocks[b]["stmts"][i].get("ln") if isinstance(i, int) else f.blocks[b]["term"].get("ln"))),
                          config, ctx.where(f, b))
            incs, decs = counter_pairs(f)
            for b, i, fld in incs:
                if not any(d[2] == fld for d in decs):
                    continue
                npairs += 1
                ctx.saw(f)

                def is_dec(fn, s_, fld=fld):
                    with fn.deep():
                        return bool(re.match(r"^Sub\(.*\.%s, 1\)$" % re.escape(fld), render(fn.sym_rvalue(s_["rv"]))))
                # for counters even the error path matters little, but the function returns `r` (the closure's result) after the decrement
                bad = path_search(f, fx, b, i, fld, -1, True, set(), is_restore=is_dec)
                ctx.check(not bad, "PAIR", "C13:PAIR:%s:%s+-1" % (f.npath, fld), "`%s` is incremented around the nested emission and decremented on every path" % fld,
                          "`%s` is incremented and a return is reachable without the matching decrement: the emitter stays in flow mode" % fld, config, ctx.where(f, b))
        # (two save/restore pairs of one function may legitimately be merged into one: the floor leaves room for that)
        ctx.floor("PAIR.pairs", npairs, 10, config)
        # HINT-RESET: the one-shot layout hints left by the enclosing sequence item / previous sibling are cleared at the start
        # of every block-map entry, *before* the composite-key branch saves them — otherwise the stale hint is what gets
        # restored after the key and the entry's value is indented from the dash depth.
        sk = fx.fn("<ser::MapSer as serde::ser::SerializeMap>::serialize_key")
        ctx.saw(sk)
        pairs, _r = find_pairs(sk, fx)
        nh = 0
        for b, i, fld, l, dirty0 in pairs:
            if fld not in ("after_dash_depth", "pending_inline_map"):
                continue
            nh += 1
            resets = []
            for rb, ri, s_ in sk.stmts():
                if s_["k"] == "assign" and s_["p"]["pr"] and ser_field(sk, s_["p"]) == fld:
                    v = sk.sym_rvalue(s_["rv"])
                    neutral = (v[0] == "const" and v[1] is False) or (v[0] == "aggr" and v[2] == "None")
                    if neutral and ((rb == b and isinstance(i, int) and ri < i) or (rb != b and sk.dominates(rb, b))):
                        resets.append(rb)
            ctx.check(bool(resets), "PAIR", "C13:HINT-RESET:serialize_key:%s" % fld, "`%s` is cleared for the new entry before the composite-key branch saves it" % fld,
                      "serialize_key saves `%s` around a composite key without having cleared it first: the hint left by the enclosing `- ` item is restored after the key and the entry's value (a block mapping) is indented one level too shallow" % fld, config, ctx.where(sk, b))
        ctx.floor("PAIR.hint-resets", nh, 2, config)
        # ... and after the composite key itself the `last_value_was_block` hint is *cleared*: what the key (or the previous
        # entry) looked like must not decide where this entry's value starts (a stale `true` puts the value's first dash at column 0)
        keycalls = [b for b, t in sk.calls() if t["f"].get("trait") == "serde::Serialize" and t["f"].get("name") == "serialize"]
        lv = []
        for b, i, s_ in sk.stmts():
            if s_["k"] == "assign" and s_["p"]["pr"] and ser_field(sk, s_["p"]) == "last_value_was_block" and any(sk.dominates(kb, b) for kb in keycalls):
                lv.append((b, sk.sym_rvalue(s_["rv"])))
        ctx.check(bool(lv) and all(v == ("const", False, "bool") for b, v in lv), "PAIR", "C13:HINT-RESET:serialize_key:last_value_was_block-after-key", "after a composite key `last_value_was_block` is cleared",
                  "serialize_key leaves / restores `last_value_was_block` after a composite key (%s) instead of clearing it: the layout of the previous entry decides where this entry's value starts" % [render(v) for b, v in lv], config, ctx.where(sk, lv[0][0] if lv else None))
        # HINT-RESET (variant labels): a serializer that writes `Variant:` and then hands the payload to `value.serialize` clears the
        # inline-first hint on *every* path to that call — whichever position the label was written in (after a dash, at the top,
        # or as a mapping value, where MapSer stages the hint after a composite key).  A path that keeps the hint lets a struct /
        # map payload start on the label's line: `Wrap: a: 3`.
        nv = 0
        for vf in sorted(fx.fns.values(), key=lambda g: g.npath):
            if not (vf.file.endswith("src/ser.rs") and vf.name in ("serialize_newtype_variant",) and "YamlSerializer" in vf.npath):
                continue
            ctx.saw(vf)
            pays = [b for b, t in vf.calls() if t["f"].get("trait") == "serde::Serialize" and t["f"].get("name") == "serialize"]
            clears = []
            for rb, ri, s_ in vf.stmts():
                if s_["k"] == "assign" and s_["p"]["pr"] and ser_field(vf, s_["p"]) == "pending_inline_map" and vf.sym_rvalue(s_["rv"]) == ("const", False, "bool"):
                    clears.append(rb)
            # the flow form (`{Variant: payload}` inside a flow collection) never consults the hint; its payload call is exempt
            # when it is dominated by a test of the flow state
            for pb in pays:
                nv += 1
                okp = bool(clears) and must_pass(vf, [0], clears, to_blocks=[pb])
                ctx.check(okp, "PAIR", "C13:HINT-RESET:%s:pending_inline_map-before-payload#%d" % (vf.name, nv), "`pending_inline_map` is cleared on every path from the entry to the payload's serialize call",
                          "%s reaches `value.serialize` on a path that does not clear `pending_inline_map`: a hint staged by the enclosing mapping (after a composite key) or sequence makes a struct / map payload start on the label's line (`Wrap: a: 3`)" % vf.name,
                          config, ctx.where(vf, pb))
        ctx.floor("PAIR.variant-payload-calls", nv, 2, config)
        # SIBLING (dash emitters): every emitter that writes the `- ` marker of a block sequence element and then serializes
        # the element stages the same two hints the sequence serializer stages — the dash's depth (after_dash_depth) and the
        # inline-first hint (pending_inline_map) — so that a nested collection lays itself out relative to *that* dash; and
        # the variant serializers that write `Variant:` position themselves by the same three cases (value position /
        # after a dash / line start).  Ordinary tuple structs delegate to the sequence serializer.
        dash_fns = []
        for f in sorted(fx.fns.values(), key=lambda f: f.npath):
            if not f.file.endswith("src/ser.rs"):
                continue
            for b, t in f.calls():
                if last_seg(fx.callee_decl(t)) == "write_str" and len(t["args"]) > 1 and f.sym_operand(t["args"][1])[:2] == ("const", "- "):
                    dash_fns.append((f, b))
        ctx.floor("SIBLING.dash-emitters", len(dash_fns), 1, config)
        for f, db in dash_fns:
            ctx.saw(f)
            nm = f.npath.split(" as ")[0].strip("<").split("::")[-1]
            nested = [b for b, t in f.calls() if t["f"].get("trait") == "serde::Serialize" and t["f"].get("name") == "serialize" and b in f.reachable([db])]
            staged = {"after_dash_depth": [], "pending_inline_map": []}
            for b, i, s_ in f.stmts():
                if s_["k"] == "assign" and s_["p"]["pr"]:
                    fld = ser_field(f, s_["p"])
                    if fld in staged:
                        v = f.sym_rvalue(s_["rv"])
                        if (fld == "after_dash_depth" and v[0] == "aggr" and v[2] == "Some") or (fld == "pending_inline_map" and v == ("const", True, "bool")):
                            staged[fld].append(b)
            for fld, bl in staged.items():
                after = [b2 for b2 in bl if b2 in f.reachable([db]) or b2 == db]
                if nested:
                    okh = all(any(f.dominates(b2, nb) or b2 == nb for b2 in after) for nb in nested)
                else:
                    # a helper that only writes the marker: it stages the hints itself on every path to its return
                    okret = [b3 for b3, i3, adt3, var3, fl3, ops3, s3 in aggregates(f) if s3["p"]["l"] == 0 and var3 == "Ok"]
                    okh = (db in after) or (bool(after) and must_pass(f, [db], after, to_blocks=okret or None))
                ctx.check(okh, "SIBLING", "C13:SIBLING:dash-emitter:%s:%s" % (nm, fld), "after writing `- ` the emitter stages `%s` before the element is serialized" % fld,
                          "%s writes `- ` without staging `%s` for the element that follows (the sequence serializer does): a nested collection is indented from the wrong base and the document does not read back" % (f.npath, fld), config, ctx.where(f, db))
            # PROLOGUE / line state: write_indent is what emits the document prologue and pads the line; the marker may skip it
            # only on a path that consulted a line-state boolean (first element inline after a dash, …) — never because of a
            # numeric coincidence such as depth == 0
            wi = {b for b, t in f.calls() if fx.callee(t).endswith("::write_indent")}
            bs = {sb for sb, sym, tt, ff in bool_switches(f) if sym[0] not in ("bin",) and not (sym[0] == "un" and sym[2][0] == "bin")}
            from .C07 import reach_avoiding
            free = reach_avoiding(f, [0], wi | bs, set())
            ctx.check(db not in free or db in bs, "SIBLING", "C13:SIBLING:dash-emitter:%s:indent-or-line-state" % nm, "the marker is preceded by write_indent unless a line-state flag says the line continues",
                      "%s can write `- ` at a line start without calling write_indent and without consulting a line-state flag (e.g. because depth == 0): the `%%YAML` prologue, which write_indent emits first, then lands in the middle of the document" % f.npath, config, ctx.where(f, db))
        # ... and whoever stages the hints for its elements clears them when the collection is finished (SeqSer::end does):
        # a hint that survives the collection is consumed by the next sibling value (`b: k: 3`)
        for f, db in dash_fns:
            if not f.npath.startswith("<"):
                continue
            endf = fx.fn_opt(f.npath.rsplit("::", 1)[0] + "::end")
            if endf is None:
                continue
            ctx.saw(endf)
            cleared = {}
            for b, i, s_ in endf.stmts():
                if s_["k"] == "assign" and s_["p"]["pr"]:
                    fld = ser_field(endf, s_["p"])
                    v = endf.sym_rvalue(s_["rv"])
                    if fld in ("pending_inline_map", "after_dash_depth") and ((v[0] == "const" and v[1] is False) or (v[0] == "aggr" and v[2] == "None")):
                        cleared[fld] = True
            nm = f.npath.split(" as ")[0].strip("<").split("::")[-1]
            ctx.check({"pending_inline_map", "after_dash_depth"} <= set(cleared), "SIBLING", "C13:SIBLING:dash-emitter:%s:end-clears-hints" % nm, "`end` clears the hints its elements staged",
                      "%s::end leaves `%s` staged after the last element: the next sibling value consumes them and is laid out as if it followed a dash" % (nm, sorted({"pending_inline_map", "after_dash_depth"} - set(cleared))), config, ctx.where(endf))
        ts = fx.fn("<&mut ser::YamlSerializer as serde::Serializer>::serialize_tuple_struct")
        ctx.saw(ts)
        ctx.check(any(fx.callee(t).endswith("::serialize_seq") for b, t in ts.calls()), "SIBLING", "C13:SIBLING:tuple-struct-delegates", "ordinary tuple structs are laid out by serialize_seq",
                  "serialize_tuple_struct no longer delegates ordinary tuple structs to the sequence layout", config, ctx.where(ts))
        # ... and adds nothing of its own: after the sequence serializer has positioned the node, the tuple-struct path neither
        # writes output nor touches the emitter's layout state (a line break written here is invisible to the deferred-newline
        # branch of the element writer, which is what withdraws the inline hint staged after a composite key)
        seqcalls = [b for b, t in ts.calls() if fx.callee(t).endswith("::serialize_seq")]
        after = set()
        for sb in seqcalls:
            nxt = ts.blocks[sb]["term"].get("t")
            if nxt is not None:
                after |= ts.reachable([nxt])
        touched = []
        for b, i, s_ in ts.stmts():
            if b in after and s_["k"] == "assign" and s_["p"]["pr"]:
                fld = ser_field(ts, s_["p"])
                if fld in ("pending_space_after_colon", "pending_inline_map", "after_dash_depth", "at_line_start", "last_value_was_block", "current_map_depth", "depth", "inline_map_after_dash"):
                    touched.append("%s (line %s)" % (fld, s_.get("ln")))
        for b, t in ts.calls():
            if b in after and last_seg(fx.callee(t)) in ("newline", "write_indent", "write_str", "write_char", "write_space_if_pending", "write_fmt"):
                touched.append("%s() (line %s)" % (last_seg(fx.callee(t)), t.get("ln")))
        ctx.check(bool(seqcalls) and not touched, "SIBLING", "C13:SIBLING:tuple-struct-adds-nothing", "after delegating to serialize_seq the tuple-struct path writes nothing and leaves the layout state alone",
                  "serialize_tuple_struct writes output / layout state of its own after delegating to serialize_seq (%s): the element writer's deferred-newline branch no longer sees the pending key and a hint staged after a composite key survives (`:\\n- 3\\n  - 4`)" % ", ".join(touched)[:200], config, ctx.where(ts))
        sv = fx.fn("<&mut ser::YamlSerializer as serde::Serializer>::serialize_struct_variant")
        tv = fx.fn("<&mut ser::YamlSerializer as serde::Serializer>::serialize_tuple_variant")
        for f in (sv, tv):
            ctx.saw(f)
            reads = set()
            for b in sorted(f.live_blocks):
                t = f.blocks[b]["term"]
                if t["k"] == "switch":
                    with f.deep():
                        r = render(f.sym_operand(t["o"]))
                    for fld in ("pending_space_after_colon", "after_dash_depth", "at_line_start"):
                        if fld in r:
                            reads.add(fld)
            for b, t in f.calls():
                with f.deep():
                    r = " ".join(render(f.sym_operand(a)) for a in t["args"])
                for fld in ("after_dash_depth", "current_map_depth"):
                    if fld in r:
                        reads.add(fld)
            need = {"pending_space_after_colon", "after_dash_depth", "at_line_start", "current_map_depth"}
            ctx.check(need <= reads, "SIBLING", "C13:SIBLING:variant-position:%s" % f.name, "`Variant:` is positioned by value position / after-dash / line start (reads %s)" % sorted(reads),
                      "%s does not consider %s when positioning the variant's body (its sibling does): the body is indented from the wrong base in that position" % (f.name, sorted(need - reads)), config, ctx.where(f))
        # ALIGN: the `- ` marker is two columns wide, while the lines that continue the element's node are indented by
        # indent_step * depth.  The two agree only when the step is 2, so either the options restrict the step to 2 or the
        # marker / continuation arithmetic must use the same unit.
        cons = fx.fn("serializer_options::SerializerOptions::consistent")
        ctx.saw(cons)
        step2 = False
        for c in compares(cons):
            if "indent_step" in c["rl"] + c["rr"] and "2" in (c["rl"], c["rr"]) and c["op"] in ("Ne", "Eq"):
                step2 = True
        for f, db in dash_fns:
            nm = f.npath.split(" as ")[0].strip("<").split("::")[-1]
            uses_step = any(fx.callee(t).endswith("::write_indent") for b, t in f.calls())
            ctx.check(step2 or not uses_step, "ALIGN", "C13:ALIGN:dash-marker-width-vs-indent-step:%s" % nm, "marker width and indentation unit agree (indent_step restricted to 2)",
                      "%s writes the two-column marker `- ` while continuation lines are indented by indent_step * depth, and SerializerOptions::consistent() accepts any step >= 1: with a step other than 2 nested collections after a dash are mis-aligned (e.g. step 4: `- - 1\\n    - 2`)" % nm, config, ctx.where(f, db))
        # EMPTY: an empty collection is written as a token on every path; writing nothing makes it a null
        for name, tok in (("<ser::SeqSer as serde::ser::SerializeSeq>::end", "[]"), ("<ser::MapSer as serde::ser::SerializeMap>::end", "{}")):
            f = fx.fn(name)
            ctx.saw(f)
            toks = [b for b, t in f.calls() if last_seg(fx.callee_decl(t)) == "write_str" and len(t["args"]) > 1 and f.sym_operand(t["args"][1])[:2] == ("const", tok)]
            sw = [(sb, tt, ff) for sb, sym, tt, ff in bool_switches(f) if render(sym).endswith(".empty_as_braces")]
            nm = name.split(" as ")[0].strip("<").split("::")[-1]
            if not ctx.check(bool(sw) and bool(toks), "EMPTY", "C13:EMPTY:%s:anchor" % nm, "empty-collection branch found", "cannot find the empty_as_braces branch / the `%s` token in %s" % (tok, name), config, ctx.where(f)):
                continue
            sb, tt, ff = sw[0]
            ctx.check(must_pass(f, [ff], toks), "EMPTY", "C13:EMPTY:%s:legacy-writes-nothing" % nm, "an empty collection is written as `%s` under every option" % tok,
                      "with empty_as_braces = false %s writes nothing for an empty collection: the node reads back as null, so Option<Vec<_>> / Option<Map> holding an empty collection comes back as None (and an untyped target sees null)" % nm, config, ctx.where(f, sb))
        # ---- KEYSINK: the scalar-key sink writes text it did not choose itself only through its quoting analysis.  In every
        # method of `<&mut KeyScalarSink as Serializer>` a `push_str` / `write_str` of a non-constant string happens in
        # `serialize_str` alone (whose plain write is guarded by the predicates, rule C12:TABLE:emitter-consults); a method
        # that receives a `&str` (variant names, chars) hands it to `serialize_str`.  A variant renamed to `x: y`, `~` or
        # `# z`, or called `Null` / `True`, written raw is a different key — or not a key at all — when read back.
        sink = [f for f in fx.fns_matching(r"^<&mut ser::KeyScalarSink as serde::Serializer>::") if "{closure" not in f.npath]
        ctx.floor("KEYSINK.methods", len(sink), 30, config)
        raw, routed = [], 0
        for f in sink:
            ctx.saw(f)
            isstr = f.npath.endswith("::serialize_str")
            for b, t in f.calls():
                c = last_seg(fx.callee_decl(t) or fx.callee(t))
                if c in ("push_str", "write_str") and len(t["args"]) > 1:
                    with f.deep():
                        a = f.sym_operand(t["args"][1])
                    if not sym_contains(a, lambda n: n[0] == "arg"):
                        continue   # text the method chose itself (`null`, `true` / `false`)
                    if not isstr:
                        raw.append("%s writes `%s`" % (last_seg(f.npath), render(a)[:40]))
                if fx.callee(t).endswith("KeyScalarSink as serde::Serializer>::serialize_str"):
                    routed += 1
        ctx.floor("KEYSINK.routed-to-serialize_str", routed, 2, config)
        ctx.check(not raw, "WHO-WRITES", "C13:KEYSINK:text-only-through-serialize_str", "only serialize_str writes caller-supplied text into a scalar key (%d methods, %d hand their text to it)" % (len(sink), routed),
                  "a scalar-key method writes caller-supplied text without the quoting analysis (%s): a unit variant renamed to `x: y`, `~`, `# z` or named `Null` / `True` is emitted as a plain key that reads back as something else" % "; ".join(raw), config, ctx.where(sink[0]) if sink else None)
        # option validation precedes serializer construction
        for name in ("to_fmt_writer_with_options", "to_io_writer_with_options"):
            f = fx.fn(name)
            ctx.saw(f)
            cons = [b for b, t in f.calls() if fx.callee(t).endswith("SerializerOptions::consistent")]
            mk = [b for b, t in f.calls() if fx.callee(t).endswith("YamlSerializer::with_options")]
            ctx.check(bool(cons) and bool(mk) and all(any(f.dominates(c, m) for c in cons) for m in mk), "PAIR", "C13:OPTIONS:%s:validated-first" % name,
                      "options.consistent() precedes serializer construction", "%s constructs the serializer without validating the options first" % name, config, ctx.where(f))
            # its error is propagated
            from ..rules import local_uses
            for c in cons:
                ctx.check(bool(local_uses(f, f.blocks[c]["term"]["dest"]["l"])), "PAIR", "C13:OPTIONS:%s:validation-propagated" % name, "the validation result is propagated", "the result of options.consistent() is ignored", config, ctx.where(f, c))
