"""C12 — every scalar survives the round trip (narrow: DESIGN §4 C12).

Decides only the TABLE clause: every class of plain token to which the *reader* gives a
non-string meaning is covered by the *writer's* must-quote predicates, the quoted emitters
escape at least the parser's break alphabet, and every emitter that writes string content raw
into a line-structured context is guarded against the breaks it does not split on."""
from ..mir import MissingAnchor, sym_contains
from ..rules import (compares, render, aggregates, last_seg, bool_switches, str_compare_consts, str_consts, char_consts, int_consts,
                     must_pass, switch_edges, consts_of)

EXPLANATION = ("TABLE agreement between reader and writer, extracted from the MIR of both sides (and of the pinned parser): null / "
               "bool / special-float / numeric-prefix / merge-key / document-marker token classes recognised by the reader are each "
               "covered by a comparison, a call to the reader's own classifier or a dedicated guard in the writer's plain-safety "
               "predicates, which both emission predicates (key and value position) reach; blank-at-either-end and leading-BOM "
               "guards are two-sided; quoted emitters escape `\\\\`, `\\\"` and every control character (⊇ the parser's break set); "
               "block-scalar bodies (split on \\n only) are emitted only after a guard that rejects every other control character. "
               "Round-trip identity of values, float text and block-scalar layout are value-level and not decided.")
ASSUMPTIONS = ["rustc's MIR (opt-level 0) faithfully represents the compiled crate; the parser's alphabets are read from the MIR of the pinned saphyr-parser",
               "round-trip identity of strings, floats, integers and bytes is a value-level statement: not decided"]

SQ = "ser_quoting::"
SER_STR = "<&mut ser::YamlSerializer as serde::Serializer>::serialize_str"
KEY_STR = "<&mut ser::KeyScalarSink as serde::Serializer>::serialize_str"


def callees_closure(fx, f, depth=3):
    """f plus crate-local functions it (transitively, bounded) calls, plus their closures."""
    out = {f.npath: f}
    frontier = [f]
    for _ in range(depth):
        nxt = []
        for g in frontier:
            for h in fx.family(g):
                out.setdefault(h.npath, h)
                for b, t in h.calls():
                    c = fx.local_callee(t)
                    if c is not None and c.npath not in out and c.file.endswith(("ser_quoting.rs", "parse_scalars.rs")):
                        out[c.npath] = c
                        nxt.append(c)
        frontier = nxt
    return list(out.values())


def compare_table(fx, fns):
    tab = {}
    for g in fns:
        for k, v in str_compare_consts(g, fx).items():
            tab.setdefault(k, set()).update(v)
    return tab


def _walk(sym):
    if isinstance(sym, tuple):
        yield sym
        for x in sym:
            if isinstance(x, (tuple, list)):
                for y in (x if isinstance(x, list) else [x]):
                    yield from _walk(y)


def _compared_on_stripped(f, fx, word):
    """the eq_ignore_ascii_case(.., word) call's other operand derives from a strip_prefix result"""
    for b, t in f.calls():
        if last_seg(fx.callee(t)) == "eq_ignore_ascii_case":
            with f.deep():
                ops = [f.sym_operand(a) for a in t["args"]]
            if any(o[0] == "const" and o[1] == word for o in ops):
                if any(sym_contains(o, lambda x: x[0] == "call" and last_seg(x[1]) == "strip_prefix") for o in ops):
                    return True
    return False


def rule_float_writers(ctx, fx, config):
    """SIBLING / APPEND-ONLY: the two float writers (String target for scalar keys, fmt::Write target for everything else) emit
    the same pieces, and only by appending — the digits zmij produced are copied slice by slice with `.0` and the exponent sign
    put between the slices.  An edit of the target at a computed offset (insert / insert_str / replace_range) has to know how
    many characters precede the mantissa (a leading `-`), which is exactly what goes wrong."""
    a = fx.fn("zmij_format::push_float_string")
    b_ = fx.fn("zmij_format::write_float_string")
    APPEND = {"push_str": "str", "write_str": "str", "push": "char", "write_char": "char"}
    NEUTRAL = {"reserve"}
    sig = {}
    for f in (a, b_):
        ctx.saw(f)
        pieces, positional = set(), []
        for bb, t in f.calls():
            if not t["args"]:
                continue
            first = render(f.sym_operand(t["args"][0]))
            if first not in ("target", "deref(target)", "*target"):
                continue
            nm = last_seg(fx.callee_decl(t) or fx.callee(t))
            if nm in APPEND:
                with f.deep():
                    arg = render(f.sym_operand(t["args"][1]))
                pieces.add((APPEND[nm], arg))
            elif nm in NEUTRAL:
                continue
            else:
                positional.append((bb, nm))
        sig[f.name] = pieces
        ctx.check(not positional, "SIBLING", "C12:SIBLING:float-writers:append-only:%s" % f.name, "%s only appends to its target" % f.name,
                  "%s edits its target in place (%s): the offset of the mantissa's first digit depends on a leading `-`, so negative floats in exponent form come out outside the float grammar (`-.04e-6`)" % (f.name, sorted({nm for _b, nm in positional})),
                  config, ctx.where(f, positional[0][0]) if positional else ctx.where(f))
        need = {("str", "'.0'"), ("char", "'+'"), ("str", "'.nan'"), ("str", "'.inf'"), ("str", "'-.inf'")}
        ctx.check(need <= pieces, "SIBLING", "C12:SIBLING:float-writers:pieces:%s" % f.name, "%s writes `.0`, the exponent `+`, and the three special spellings" % f.name,
                  "%s no longer writes %s" % (f.name, sorted(x[1] for x in need - pieces)), config, ctx.where(f))
    ctx.check(sig[a.name] == sig[b_.name], "SIBLING", "C12:SIBLING:float-writers:agree", "both float writers emit the same pieces (%d)" % len(sig[a.name]),
              "the key-position float writer and the value-position float writer emit different pieces: only in %s: %s; only in %s: %s" % (a.name, sorted(sig[a.name] - sig[b_.name]), b_.name, sorted(sig[b_.name] - sig[a.name])),
              config, ctx.where(a))
    ctx.floor("SIBLING.float-pieces", len(sig[a.name]), 8, config)


def run(ctx):
    for config in ctx.configs:
        fx = ctx.facts(config)
        amb = fx.fn(SQ + "is_ambiguous")
        ambv = fx.fn(SQ + "is_ambiguous_value")
        psafe = fx.fn(SQ + "is_plain_safe")
        pvsafe = fx.fn(SQ + "is_plain_value_safe")
        for f in (amb, ambv, psafe, pvsafe):
            ctx.saw(f)
        amb_fns = callees_closure(fx, amb)
        ambv_fns = callees_closure(fx, ambv)
        amb_tab = compare_table(fx, amb_fns)
        ambv_tab = compare_table(fx, ambv_fns)
        where = ctx.where(amb)

        # -- both emission predicates reach the ambiguity predicates
        ctx.check(any(fx.callee(t) == amb.npath for b, t in psafe.calls()), "TABLE", "C12:TABLE:reach:is_plain_safe->is_ambiguous", "key-position predicate consults is_ambiguous", "is_plain_safe no longer consults is_ambiguous", config, ctx.where(psafe))
        ctx.check(any(fx.callee(t) == ambv.npath for b, t in pvsafe.calls()), "TABLE", "C12:TABLE:reach:is_plain_value_safe->is_ambiguous_value", "value-position predicate consults is_ambiguous_value", "is_plain_value_safe no longer consults is_ambiguous_value", config, ctx.where(pvsafe))
        ctx.check(any(fx.callee(t) == amb.npath for b, t in ambv.calls()), "TABLE", "C12:TABLE:reach:is_ambiguous_value->is_ambiguous", "value ambiguity includes key ambiguity", "is_ambiguous_value no longer includes is_ambiguous", config, ctx.where(ambv))
        # their `true` answer means "not plain": the result of the call must lead to `false`
        for f, callee in ((psafe, amb.npath), (pvsafe, ambv.npath)):
            for b, t in f.calls():
                if fx.callee(t) == callee:
                    e = switch_edges(f, t["t"])
                    okk = False
                    if e:
                        falses = [bb for bb, i, s_ in f.stmts() if s_["k"] == "assign" and s_["p"]["l"] == 0 and f.sym_rvalue(s_["rv"]) == ("const", False, "bool")]
                        okk = must_pass(f, [e[0]], falses)
                    ctx.check(okk, "TABLE", "C12:TABLE:polarity:%s" % f.name, "ambiguous => not plain-safe", "an ambiguous token is no longer refused by %s" % f.name, config, ctx.where(f, b))

        # -- the emitters consult the predicates
        uses = {
            "ser::YamlSerializer::write_plain_or_quoted": [psafe.npath],
            "ser::YamlSerializer::write_plain_or_quoted_value": [pvsafe.npath],
            KEY_STR: [psafe.npath, pvsafe.npath],
        }
        for fn_name, preds in uses.items():
            f = fx.fn(fn_name)
            ctx.saw(f)
            got = {fx.callee(t) for b, t in f.calls()}
            ctx.check(all(p in got for p in preds), "TABLE", "C12:TABLE:emitter-consults:%s" % f.name if f.name != "serialize_str" else "C12:TABLE:emitter-consults:KeyScalarSink::serialize_str",
                      "emitter consults %s" % [p.rsplit("::", 1)[-1] for p in preds], "emitter %s no longer consults %s before writing plain" % (fn_name, preds), config, ctx.where(f))
            # the raw (plain) write of the argument is reached only through the predicate's true edge
            for b, t in f.calls():
                c = last_seg(fx.callee_decl(t))
                if c in ("write_str", "push_str") and len(t["args"]) > 1 and render(f.sym_operand(t["args"][1])) in ("s", "v"):
                    okd = False
                    for p in preds:
                        for pb, pt in f.calls():
                            if fx.callee(pt) == p:
                                e = switch_edges(f, pt["t"])
                                if e and f.edge_dominates(pt["t"], e[0], b):
                                    okd = True
                    # conjunction of two predicates: dominated by the true edge of the last one and by the call of the first
                    ctx.check(okd, "TABLE", "C12:TABLE:plain-only-if-safe:%s" % fn_name.rsplit("::", 2)[-2 if f.name == "serialize_str" else -1] + ":" + f.name,
                              "the raw write of the string is reached only through the predicate's `safe` edge", "the string can be written plain without the plain-safety predicate answering `safe`", config, ctx.where(f, b))

        # -- class: null
        rn = fx.fn("parse_scalars::scalar_is_nullish")
        rn_tab = str_compare_consts(rn, fx)
        for lit in sorted(rn_tab.get("eq", set())):
            ctx.check(lit in amb_tab.get("eq", set()) | amb_tab.get("eq_ignore_ascii_case", set()), "TABLE", "C12:TABLE:null:%s" % lit, "reader null literal `%s` is quoted" % lit, "reader null literal `%s` is not covered by is_ambiguous" % lit, config, where)
        for lit in sorted(rn_tab.get("eq_ignore_ascii_case", set())):
            ctx.check(lit in amb_tab.get("eq_ignore_ascii_case", set()), "TABLE", "C12:TABLE:null:%s" % lit, "case-insensitive reader null literal `%s` is quoted case-insensitively" % lit, "reader null literal `%s` (any case) is not covered case-insensitively" % lit, config, where)
        ctx.check(any(last_seg(fx.callee(t)) == "is_empty" for b, t in amb.calls()), "TABLE", "C12:TABLE:null:empty", "empty string is quoted", "the empty string is no longer treated as ambiguous (reads back as null)", config, where)
        # -- class: strict bools
        for lit in ("true", "false"):
            ctx.check(lit in amb_tab.get("eq_ignore_ascii_case", set()), "TABLE", "C12:TABLE:bool:%s" % lit, "`%s` (any case) is quoted" % lit, "`%s` is not covered case-insensitively by is_ambiguous" % lit, config, where)
        # -- class: YAML 1.1 bools — covered by calling the reader's own classifier
        okb = False
        for b, t in ambv.calls():
            if fx.callee(t) == "parse_scalars::parse_yaml11_bool":
                okb = True
        ctx.check(okb, "TABLE", "C12:TABLE:yaml11-bool:classifier", "value predicate calls the reader's parse_yaml11_bool", "is_ambiguous_value no longer calls parse_yaml11_bool: yes/no/on/off/y/n strings are emitted plain", config, ctx.where(ambv))
        # -- class: special floats — dedicated guard with the right alphabet
        rf = fx.fn("parse_scalars::parse_yaml12_float")
        rf_lits = str_compare_consts(rf, fx).get("eq", set())
        letters = set("".join(rf_lits))
        guard_ints = set()
        guard_fn = None
        for g in amb_fns:
            ints = int_consts(g)
            if {ord("n"), ord("a"), ord("i"), ord("f")} <= ints:
                guard_fn = g
                guard_ints = ints
        need = {ord(c) for c in letters}
        ctx.check(guard_fn is not None and need <= guard_ints and 0x20 in (int_consts(guard_fn) | set().union(*[int_consts(h) for h in amb_fns])), "TABLE", "C12:TABLE:special-floats:guard",
                  "a byte-level guard covers the alphabet of %s case-insensitively" % sorted(rf_lits), "no guard in is_ambiguous covers the reader's special float literals %s (alphabet %s)" % (sorted(rf_lits), sorted(letters)), config, where)
        if guard_fn is not None:
            ctx.check(any(fx.callee(t) == guard_fn.npath for g in amb_fns for b, t in g.calls()), "TABLE", "C12:TABLE:special-floats:called", "the special-float guard is called", "the special-float guard is not called", config, where)
        # bare spellings the reader's float parser accepts through its `str::parse` fallback (core's FromStr for floats takes
        # nan / inf / infinity, any case, with an optional sign): quoted in value position
        core_parse = [b for g in fx.family(rf) for b, t in g.calls() if last_seg(fx.callee_decl(t)) in ("parse", "from_str")]
        words = {"nan", "inf", "infinity"} if core_parse else set()
        ctx.notes.append("%s: reader float parser %s core's str::parse (decides whether nan / inf / infinity spellings need quoting)" % (config, "falls back to" if core_parse else "does not use"))
        # the compared operand: either the words are compared on the sign-stripped text, or every signed spelling is listed
        stripped = set()
        for b, t in ambv.calls():
            if last_seg(fx.callee(t)) == "strip_prefix":
                with ambv.deep():
                    pat = ambv.sym_operand(t["args"][1])
                stripped |= {x[1] for x in _walk(pat) if len(x) > 2 and x[0] == "const" and x[2] == "char"}
        ci = ambv_tab.get("eq_ignore_ascii_case", set())
        for w in sorted(words):
            for sign in ("", "+", "-"):
                okw = (sign + w) in ci or (sign in stripped and w in ci and _compared_on_stripped(ambv, fx, w))
                ctx.check(okw, "TABLE", "C12:TABLE:bare-float:%s%s" % (sign, w), "`%s%s` (any case) quoted in value position" % (sign, w),
                          "`%s%s` is emitted plain in value position: core's float parser accepts it, so an untyped target reads it back as a float / `.inf` / `.nan`" % (sign, w), config, ctx.where(ambv))
        # -- class: numbers — the regex mentions every radix prefix the reader strips (lower case) and exponent / underscore forms
        nl = fx.fn(SQ + "is_numeric_looking")
        ctx.saw(nl)
        regex_src = ""
        for g in fx.family(nl):
            for v in str_consts(g):
                if "0x" in v and "[" in v:
                    regex_src = v
        rr = fx.fn("parse_scalars::radix_and_digits")
        prefixes = set()
        for g in fx.family(rr):
            prefixes |= str_compare_consts(g, fx).get("strip_prefix", set())
        for p in sorted({p.lower() for p in prefixes}):
            if p.isdigit():
                continue  # `00`: a digits-only prefix is covered by the pattern's decimal digits
            ctx.check(p in regex_src, "TABLE", "C12:TABLE:numeric:prefix:%s" % p, "numeric-looking pattern covers radix prefix %s" % p, "numeric-looking pattern does not cover the reader's radix prefix %s" % p, config, ctx.where(nl))
        for tok, what in (("[eE]", "exponent"), ("_", "digit separators"), ("[+-]?", "sign"), ("\\.", "decimal point")):
            ctx.check(tok in regex_src, "TABLE", "C12:TABLE:numeric:%s" % what, "numeric-looking pattern covers %s" % what, "numeric-looking pattern lost %s" % what, config, ctx.where(nl))
        ctx.check(any(fx.callee(t) == nl.npath for b, t in amb.calls()), "TABLE", "C12:TABLE:numeric:called", "is_ambiguous calls is_numeric_looking", "is_ambiguous no longer calls is_numeric_looking", config, where)
        # -- class: merge key
        mk = fx.fn("de::is_merge_key")
        mk_lits = set()
        for g in fx.family(mk):
            mk_lits |= set().union(*str_compare_consts(g, fx).values()) if str_compare_consts(g, fx) else set()
        ctx.check(bool(mk_lits), "TABLE", "C12:TABLE:merge-key:reader", "reader merge-key literal extracted (%s)" % sorted(mk_lits), "cannot extract the merge-key literal from is_merge_key", config, ctx.where(mk))
        for lit in sorted(mk_lits):
            ctx.check(lit in amb_tab.get("eq", set()), "TABLE", "C12:TABLE:merge-key:%s" % lit, "`%s` is quoted (key and value position)" % lit,
                      "the string `%s` is emitted plain: as a mapping key it reads back as a merge key" % lit, config, where)
        # -- class: document markers — from the pinned parser
        ind = fx.foreign.get("saphyr_parser_bw::Input::next_is_document_indicator")
        if ind is None:
            raise MissingAnchor("foreign MIR of saphyr_parser_bw::Input::next_is_document_indicator")
        marks = set()
        for b, t in ind.calls():
            cs = [ind.sym_operand(a) for a in t["args"]]
            chars = [c[1] for c in cs if c[0] == "const" and c[2] == "char"]
            if len(chars) == 3:
                marks.add("".join(chars))
        ctx.check(len(marks) == 2, "TABLE", "C12:TABLE:doc-markers:parser", "parser document indicators extracted: %s" % sorted(marks), "cannot extract document indicators from the parser", config, ctx.where(ind))
        covered = amb_tab.get("strip_prefix", set()) | amb_tab.get("starts_with", set()) | amb_tab.get("eq", set())
        for m in sorted(marks):
            ctx.check(m in covered, "TABLE", "C12:TABLE:doc-markers:%s" % m, "`%s` is covered by a prefix guard" % m,
                      "the string `%s` is emitted plain: at the start of a line it reads back as a document marker" % m, config, where)
        # -- class: edge blanks and leading BOM (two-sided).  SIBLING: the reader's scalar parsers trim with `str::trim`
        # (Unicode White_Space), so the writer's edge test must use the same predicate (char::is_whitespace), not the ASCII one.
        readers = [g for g in fx.fns.values() if g.npath.startswith("parse_scalars::") or g.npath.endswith("Deserializer>::deserialize_any")]
        unicode_trim = sorted({g.npath for g in readers for b, t in g.calls() if fx.callee_decl(t) in ("core::str::trim", "str::trim") or (last_seg(fx.callee_decl(t)) == "trim" and "str" in fx.callee_decl(t))})
        ctx.check(True, "TABLE", "C12:TABLE:edge-blank:reader-trim", "reader functions trimming with str::trim: %d" % len(unicode_trim), "", config, None)
        for f in (psafe, pvsafe):
            fam = callees_closure(fx, f, depth=1)
            first = last = bom = False
            ufirst = ulast = False
            for g in fam:
                for b, t in g.calls():
                    if last_seg(fx.callee(t)) == "is_ascii_whitespace":
                        with g.deep():
                            a = render(g.sym_operand(t["args"][0]))
                        if "[0]" in a or ", 0)" in a:
                            first = True
                        if "Sub(" in a and "len(" in a:
                            last = True
                    if last_seg(fx.callee(t)) in ("starts_with", "ends_with") and "is_whitespace}" in str(t["f"].get("args")) and "is_ascii" not in str(t["f"].get("args")):
                        if last_seg(fx.callee(t)) == "starts_with":
                            first = ufirst = True
                        else:
                            last = ulast = True
                    if last_seg(fx.callee(t)) in ("starts_with", "strip_prefix"):
                        for a in t["args"]:
                            if g.sym_operand(a) == ("const", "\ufeff", "char"):
                                bom = True
            key = "C12:TABLE:edge-blank:%s" % f.name
            ctx.check(first, "TABLE", key + ":leading", "leading blank refused", "%s no longer refuses a leading blank" % f.name, config, ctx.where(f))
            ctx.check(last or not first, "TABLE", key + ":trailing", "trailing blank refused as well (the reader strips both ends)",
                      "%s refuses a leading blank but not a trailing one: `a ` is emitted plain and reads back as `a`" % f.name, config, ctx.where(f))
            ctx.check((ufirst and ulast) or not unicode_trim, "TABLE", key + ":unicode", "edge blanks are tested with char::is_whitespace — the predicate the reader's str::trim uses",
                      "%s tests edge blanks with an ASCII predicate while the reader trims with str::trim (any Unicode white space) in %s: `12\u00a0` is emitted plain and an untyped target reads it back as the number 12" % (f.name, unicode_trim[:3]), config, ctx.where(f))
            ctx.check(bom, "TABLE", key + ":leading-bom", "leading U+FEFF refused (every string entry point strips it)", "%s lets a leading U+FEFF through: a root string loses it" % f.name, config, ctx.where(f))
        # -- escape alphabet of the quoted emitters ⊇ parser break set
        brk = fx.foreign.get("saphyr_parser_bw::input::is_break")
        if brk is None:
            raise MissingAnchor("foreign MIR of saphyr_parser_bw::input::is_break")
        breaks = char_consts(brk)
        ctx.check(breaks and all(ord(c) < 0x20 for c in breaks), "TABLE", "C12:TABLE:breaks:are-control", "parser break set %s ⊆ control characters" % sorted(map(repr, breaks)), "parser break set %s is not within the control characters" % sorted(map(repr, breaks)), config, ctx.where(brk))
        for name in ("ser::YamlSerializer::write_quoted", KEY_STR):
            f = fx.fn(name)
            ctx.saw(f)
            cc = char_consts(f)
            ctrl = any(last_seg(fx.callee(t)) == "is_control" for g in fx.family(f) for b, t in g.calls())
            key = "C12:TABLE:escapes:%s" % ("write_quoted" if name.endswith("write_quoted") else "KeyScalarSink")
            ctx.check({"\\", '"'} <= cc, "TABLE", key + ":backslash-quote", "`\\\\` and `\\\"` are escaped", "quoted emitter no longer escapes backslash / double quote", config, ctx.where(f))
            ctx.check(ctrl, "TABLE", key + ":control", "every control character goes through an escape arm (⊇ break set)", "quoted emitter no longer escapes arbitrary control characters", config, ctx.where(f))
        # -- integers: every integer is written by core's Display at its own width (one `{}` argument, no width / fill
        # specification, no hand-rolled digit grouping); narrower types delegate to the 64-bit method by a widening cast
        ni_ = 0
        for sink in ("<&mut ser::YamlSerializer as serde::Serializer>::", "<&mut ser::KeyScalarSink as serde::Serializer>::"):
            for ty in ("i64", "u64", "i128", "u128"):
                g = fx.fn(sink + "serialize_" + ty)
                ctx.saw(g)
                ni_ += 1
                disp = [(t["f"].get("args") or ["", ""])[-1] for b, t in g.calls() if last_seg(fx.callee(t)) == "new_display"]
                other = sorted({last_seg(fx.callee(t)) for b, t in g.calls() if last_seg(fx.callee(t)) in ("new_v1_formatted", "new_lower_hex", "new_upper_hex", "new_debug", "new_lower_exp", "new_octal", "new_binary") or "Placeholder" in fx.callee(t)})
                helpers = sorted({fx.callee(t) for b, t in g.calls() if fx.callee(t).startswith("ser::") and "write_" in fx.callee(t) and ("dec" in fx.callee(t) or "int" in fx.callee(t) or "digit" in fx.callee(t))})
                def _is_v(t):
                    with g.deep():
                        r = render(g.sym_operand(t["args"][0]))
                    return r.lstrip("&") in ("v", "tuple::None{v}.0", "tuple::None{&v}.0")
                argok = all(_is_v(t) for b, t in g.calls() if last_seg(fx.callee(t)) == "new_display")
                ctx.check(disp == [ty] and not other and not helpers and argok, "TABLE", "C12:INT:%s:%s" % (sink.split(" as ")[0].split("::")[-1], ty), "serialize_%s writes `{}` of the %s value (core Display)" % (ty, ty),
                          "serialize_%s does not write the value through core's Display at its own type (display arguments %s, formatting specs %s, helpers %s): digits can be lost, padded or regrouped" % (ty, disp, other, helpers), config, ctx.where(g))
            for ty, wide in (("i8", "i64"), ("i16", "i64"), ("i32", "i64"), ("u8", "u64"), ("u16", "u64"), ("u32", "u64")):
                g = fx.fn(sink + "serialize_" + ty)
                ni_ += 1
                tgt = [fx.callee(t) for b, t in g.calls() if fx.callee(t).startswith(sink + "serialize_")]
                casts = [s_["rv"] for b, i, s_ in g.stmts() if s_["k"] == "assign" and s_["rv"]["k"] == "cast" and s_["rv"].get("ck") == "IntToInt"]
                okw = tgt == [sink + "serialize_" + wide] and all(c.get("from") == ty and c.get("ty") == wide for c in casts) and len(casts) == 1
                ctx.check(okw, "TABLE", "C12:INT:%s:%s" % (sink.split(" as ")[0].split("::")[-1], ty), "serialize_%s widens to %s and delegates" % (ty, wide),
                          "serialize_%s no longer delegates to serialize_%s through a widening cast (calls %s, casts %s)" % (ty, wide, tgt, [(c.get("from"), c.get("ty")) for c in casts]), config, ctx.where(g))
        ctx.floor("INT.methods", ni_, 20, config)
        # -- byte arrays: the `!!binary` text is one padded standard-alphabet encoding of the whole slice (base64 groups are
        # three bytes wide: an encoder applied to chunks whose length is not a multiple of three emits out-of-phase text)
        sb = fx.fn("<&mut ser::YamlSerializer as serde::Serializer>::serialize_bytes")
        ctx.saw(sb)
        enc = [(b, t) for g in [sb] + list(fx.closures_of(sb)) for b, t in g.calls() if "base64" in fx.callee_decl(t) and "encode" in last_seg(fx.callee_decl(t))]
        whole = []
        for b, t in enc:
            args = [render(sb.sym_operand(a)) for a in t["args"]]
            whole.append(any(a.lstrip("&") == "v" for a in args))
        inloop = [b for b, t in enc if any(b in comp for comp in sb.sccs())]
        chunking = sorted({last_seg(fx.callee_decl(t)) for b, t in sb.calls() if last_seg(fx.callee_decl(t)) in ("chunks", "chunks_exact", "windows", "split_at", "rchunks")})
        ctx.check(len(enc) == 1 and all(whole) and not inloop and not chunking, "TABLE", "C12:BYTES:one-encoding-of-the-whole-slice", "`!!binary` is one encoder call over the whole byte slice",
                  "serialize_bytes encodes the payload piecewise (%d encoder call(s), in a loop: %s, chunking: %s): unless every piece is a multiple of three bytes the base64 text is out of phase and reads back as different bytes or not at all" % (len(enc), bool(inloop), chunking), config, ctx.where(sb))
        engs = sorted({str(t["f"].get("args")) for b, t in enc})
        ctx.check(all("NoPad" not in e and "NO_PAD" not in e for e in engs) and all("NO_PAD" not in render(sb.sym_operand(a)) for b, t in enc for a in t["args"]), "TABLE", "C12:BYTES:padded-engine", "the encoder is the padded standard engine", "serialize_bytes uses an unpadded base64 engine (the reader requires canonical padding)", config, ctx.where(sb))
        # -- line-oriented emitters: block scalar bodies
        rule_block_guard(ctx, fx, config, breaks, "C12")
        rule_float_writers(ctx, fx, config)
        # what the writer leaves plain is read back by the untyped inference in the order null, bool, int, float, string — an
        # integer token must be tried as i64 / u64 before it can become a float (shared rule, C06)
        from .C06 import rule_any_order
        rule_any_order(ctx, fx, config)


def rule_block_guard(ctx, fx, config, breaks, prop):
    f = fx.fn(SER_STR)
    ctx.saw(f)
    headers = []
    for b, t in f.calls():
        if last_seg(fx.callee_decl(t)) == "write_char" and len(t["args"]) > 1:
            a = f.sym_operand(t["args"][1])
            if a[0] == "const" and a[1] in ("|", ">"):
                headers.append((b, a[1]))
    ctx.floor("BLOCK.headers", len(headers), 2, config)
    # the guard: a bool switch whose condition is any(<chars>, closure calling is_control)
    guards = []
    for b, sym, tt, ff in bool_switches(f):
        with f.deep():
            d = f.sym_operand(f.blocks[b]["term"]["o"])
        neg = False
        while d[0] == "un" and d[1] == "Not":
            d = d[2]
            neg = not neg
        if d[0] == "call" and last_seg(d[1]) == "any":
            cl = [a for a in d[2] if a[0] == "mkclosure"]
            if cl:
                g = fx.fns.get(cl[0][1])
                if g is not None and any(last_seg(fx.callee(t)) == "is_control" for _b, t in g.calls()):
                    e = switch_edges(f, b)
                    t_, f_ = e
                    if neg:
                        t_, f_ = f_, t_
                    guards.append((b, t_, f_, g))
    for hb, ch in headers:
        okg = any(f.dominates(gb, hb) and hb not in f.reachable([gt]) for gb, gt, gf, g in guards)
        ctx.check(okg, "BLOCK", "%s:BLOCK:guarded:%s" % (prop, "literal" if ch == "|" else "folded"),
                  "the `%s` block header is written only after a guard rejected every non-LF control character in the body" % ch,
                  "a `%s` block scalar can be emitted although its body contains a carriage return / control character: the body is written raw and split on \\n only, but the parser also breaks lines on %s" % (ch, sorted(map(repr, breaks - {"\n"}))),
                  config, ctx.where(f, hb))
    # ... and never inside a flow collection (block scalars do not exist there: `[|` reads back as text)
    flow_cmp = []
    for c in compares(f):
        if "self.in_flow" in (c["rl"], c["rr"]) and "0" in (c["rl"], c["rr"]):
            inflow = c["t"] if c["op"] in ("Gt", "Ne") else (c["f"] if c["op"] in ("Eq", "Le") else None)
            if inflow is not None:
                flow_cmp.append((c["block"], inflow))
    for hb, ch in headers:
        okf = any(f.dominates(cb, hb) and hb not in f.reachable([e]) for cb, e in flow_cmp)
        ctx.check(okf, "BLOCK", "%s:BLOCK:not-in-flow:%s" % (prop, "literal" if ch == "|" else "folded"), "the `%s` block header is never written inside a flow collection" % ch,
                  "a `%s` block scalar can be emitted while in_flow > 0: inside `[..]` / `{..}` the header is read as text (`[|\\n  a\\n]` -> \"| a\")" % ch, config, ctx.where(f, hb))
    for gb, gt, gf, g in guards:
        exempt = char_consts(g)
        ctx.check(not ((breaks - {"\n"}) & exempt), "BLOCK", "%s:BLOCK:guard-exempts-only-lf" % prop, "the guard exempts only %s" % sorted(map(repr, exempt)),
                  "the block-body guard exempts %s, which the parser treats as a line break" % sorted(map(repr, (breaks - {"\n"}) & exempt)), config, ctx.where(g))
    # body lines are split on the LF only (so the guard's exemption matches the splitter)
    splits = set()
    for b, t in f.calls():
        if last_seg(fx.callee(t)) in ("split", "lines", "split_terminator"):
            for a in t["args"][1:]:
                s_ = f.sym_operand(a)
                if s_[0] == "const":
                    splits.add(s_[1])
    ctx.check(splits <= {"\n"}, "BLOCK", "%s:BLOCK:split-alphabet" % prop, "bodies are split on %s" % sorted(map(repr, splits)), "bodies are split on %s" % sorted(map(repr, splits)), config, ctx.where(f))
    # INDICATOR (F16): the digit after `|` / `>` is relative to the parent node.  The body is written at
    # indent_step * (base + 1); passing that absolute amount as the indicator is only right at depth 0.
    ind = [(b, t) for b, t in f.calls() if fx.callee(t).endswith("::block_indent_indicator_digit")]
    ctx.floor("BLOCK.indicator-sites", len(ind), 2, config)
    for k, (b, t) in enumerate(ind, 1):
        with f.deep():
            a = f.sym_operand(t["args"][0])
        absolute = sym_contains(a, lambda x: x[0] == "bin" and x[1] in ("Mul", "MulWithOverflow"))
        ctx.check(not absolute and "indent_step" in render(a), "BLOCK", "%s:BLOCK:indicator-relative#%d" % (prop, k), "the indentation indicator is the step (relative to the parent node), not a product with the depth",
                  "the block-scalar indentation indicator is computed as `%s`: an absolute indentation only parses back at nesting depth 0 (`inner:\\n  s: |4-` is rejected)" % render(a)[:80], config, ctx.where(f, b))
    # ... and is only used with the step for which `- ` keeps nested nodes aligned (2); otherwise the string is quoted
    okstep = False
    for c in compares(f):
        if c["op"] in ("Ne", "Eq") and "2" in (c["rl"], c["rr"]) and any("indent_step" in x or x == "indent_n" for x in (c["rl"], c["rr"])):
            quoted = c["t"] if c["op"] == "Ne" else c["f"]
            away = f.reachable([quoted])
            okstep = bool(ind) and all(ib not in away for ib, _t in ind)
    ctx.check(okstep, "BLOCK", "%s:BLOCK:indicator-step-guard" % prop, "an indicator is written only when the indentation step is 2 (else the string is quoted)",
              "the step-2 guard in front of the indentation indicator is gone: with another step the compact `- ` forms misalign the parent column and the indicator is wrong", config, ctx.where(f))

    # LONG KEYS (F18): implicit keys are limited to 1024 characters by YAML; beyond a bound <= 1024 the explicit `? ` form is used
    ks = fx.fn("<ser::MapSer as serde::ser::SerializeMap>::serialize_key")
    ctx.saw(ks)
    nk = 0
    for c in compares(ks):
        for side, other in ((c["rl"], c["rr"]), (c["rr"], c["rl"])):
            if other.isdigit() and 256 <= int(other) <= 1024 and "count(" in side:
                nk += 1
                longe = c["t"] if (c["op"] in ("Gt", "Ge") and other == c["rr"]) or (c["op"] in ("Lt", "Le") and other == c["rl"]) else c["f"]
                q = [b for b, t in ks.calls() if last_seg(fx.callee_decl(t)) == "write_str" and len(t["args"]) > 1 and ks.sym_operand(t["args"][1])[:2] == ("const", "? ")]
                ctx.check(any(ks.edge_dominates(c["block"], longe, b) or b in ks.reachable([longe]) for b in q) and bool(q), "BLOCK", "%s:KEYS:long-key-explicit#%d" % (prop, nk),
                          "a key longer than %s characters is written in the explicit `? key` form" % other, "the long-key edge does not write `? `", config, ctx.where(ks, c["block"]))
    ctx.check(nk >= 2, "BLOCK", "%s:KEYS:long-key-guard" % prop, "block and flow key emitters compare the key length with a bound <= 1024 (%d sites)" % nk,
              "a scalar key is written as an implicit `key: value` whatever its length (%d length guards, expected 2): beyond 1024 characters YAML parsers reject it" % nk, config, ctx.where(ks))
    # FIRST LINE: whether an indicator is needed is decided on the first line that is not *empty* (zero length).  A line of
    # blanks only is content of a block scalar and, being over-indented, must not be left to the parser's auto-detection.
    fl = fx.fn("wrapping::first_line_leading_spaces")
    ctx.saw(fl)
    tests = []
    for g in fx.family(fl):
        for b, t in g.calls():
            if last_seg(fx.callee(t)) == "is_empty":
                with g.deep():
                    a = g.sym_operand(t["args"][0])
                tests.append((g, b, sym_contains(a, lambda x: x[0] == "call" and last_seg(x[1]).startswith("trim"))))
    ctx.check(len(tests) == 1 and not tests[0][2], "BLOCK", "%s:BLOCK:indicator-first-line" % prop, "the skipped leading lines are exactly the zero-length ones",
              "first_line_leading_spaces skips lines by a test on trimmed text (%d emptiness tests): a first line made of blanks only no longer forces an indentation indicator, and the parser mis-detects the block's indentation" % len(tests), config, ctx.where(fl))
    ctx.check(any(fx.callee(t) == fl.npath for b, t in f.calls()), "BLOCK", "%s:BLOCK:indicator-first-line:used" % prop, "serialize_str derives needs_indicator from it", "serialize_str no longer consults first_line_leading_spaces", config, ctx.where(f))
