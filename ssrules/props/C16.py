"""C16 — reported locations are consistent with the input and name the right node (DESIGN §4 C16)."""
import re
from ..mir import MissingAnchor, sym_contains, norm
from ..rules import render, aggregates, last_seg, bool_switches, must_pass, switch_edges

EXPLANATION = ("SIBLING / DOM / TABLE rules over the resolved MIR: both constructors that turn parser marks into locations use the "
               "mark's line unchanged, column + 1 and the mark's character index as offset, and fill byte information only from "
               "the parser's byte offsets (else the explicit `unknown` pair); the span-carrying wrapper captures the definition "
               "site (peek) and the use site (reference_location) before handing the node to the visitor; every element / value / "
               "variant-payload deserialization site captures both locations before the call and maps the error through "
               "attach_alias_locations_if_missing with (use-site, definition-site) in that order; for every error variant that "
               "carries a location, with_location writes it and location() / locations() read it; serde's five static error "
               "constructors route through the fallback-location attachment. Whether line / column / offsets denote the same "
               "text position is a runtime fact about parser marks and is not decided.")
ASSUMPTIONS = ["rustc's MIR (opt-level 0) faithfully represents the compiled crate",
               "saphyr-parser's Marker line() is 1-based and col() 0-based (dependency contract)",
               "coordinate <-> text consistency, span == node text and use-/definition-site correctness through arbitrary nesting are not decided (DESIGN §4 C16)"]

ATTACH = "de::attach_alias_locations_if_missing"


def check_ctor(ctx, fx, config, f, mark_hint):
    ctx.saw(f)
    news = [(b, t) for b, t in f.calls() if fx.callee(t) == "location::Location::new"]
    key = "C16:SIBLING:%s" % f.name
    if not ctx.check(len(news) == 1, "SIBLING", key + ":new", "one Location::new", "%s does not build its location with exactly one Location::new" % f.name, config, ctx.where(f)):
        return None
    b, t = news[0]
    with f.deep():
        a0 = render(f.sym_operand(t["args"][0]))
        a1 = render(f.sym_operand(t["args"][1]))
    okl = a0.startswith("line(") and mark_hint in a0
    okc = a1.startswith("Add(col(") and a1.endswith(", 1)") and mark_hint in a1
    ctx.check(okl, "SIBLING", key + ":line", "line = mark.line() unchanged", "line is `%s`, expected the mark's line() unchanged" % a0, config, ctx.where(f, b))
    ctx.check(okc, "SIBLING", key + ":column", "column = mark.col() + 1", "column is `%s`, expected mark.col() + 1 (the parser's columns are 0-based)" % a1, config, ctx.where(f, b))
    spans = [(bb, fl, s_) for bb, i, adt, var, fl, ops, s_ in aggregates(f) if adt == "location::Span"]
    off = None
    for bb, fl, s_ in spans:
        with f.deep():
            off = render(f.sym_operand(s_["rv"]["ops"][fl.index("offset")]))
            binfo = f.sym_operand(s_["rv"]["ops"][fl.index("byte_info")])
        ctx.check("index(" in off and mark_hint in off, "SIBLING", key + ":offset", "character offset = mark.index()", "span offset is `%s`, expected the mark's index()" % off, config, ctx.where(f, bb))
        return (a0.replace(mark_hint, "M"), a1.replace(mark_hint, "M"), binfo)
    ctx.bad("SIBLING", key + ":span", "no Span aggregate found", config, ctx.where(f))
    return None


def _walk(sym):
    if isinstance(sym, tuple):
        yield sym
        for x in sym:
            if isinstance(x, (tuple, list)):
                for y in (x if isinstance(x, list) else [x]):
                    yield from _walk(y)


def loc_prov(fx, sym_or_render, depth=0):
    """provenance classes of a Location-valued symbolic value: 'ref' (Events::reference_location), 'def' (location of the
    peeked node).  A crate-local helper that returns a tuple is followed through its return aggregate, so extracting the
    `peek … reference_location` sequence into a function keeps the facts the rules are about."""
    r = sym_or_render if isinstance(sym_or_render, str) else render(sym_or_render)
    out = set()
    if "reference_location(" in r:
        out.add("ref")
    if "peek(" in r:
        out.add("def")
    if out or depth > 2:
        return out
    mk = re.search(r"\.(\d)$", r)
    if mk and not isinstance(sym_or_render, str):
        k = int(mk.group(1))
        for x in _walk(sym_or_render):
            if len(x) > 1 and x[0] == "call" and x[1] in fx.fns and fx.fns[x[1]].file.startswith("src/") and fx.fns[x[1]].kind in ("fn", "assoc"):
                h = fx.fns[x[1]]
                for b, i, adt, var, fl, ops, s_ in aggregates(h):
                    with h.deep():
                        whole = h.sym_rvalue(s_["rv"])
                    for y in _walk(whole):
                        if len(y) > 4 and y[0] == "aggr" and str(y[1]).startswith("tuple") and len(y[4]) > k:
                            sub = loc_prov(fx, y[4][k], depth + 1)
                            if sub:
                                return sub
    return out


REPLAY_OWN_LOCATION = {
    "<de::YamlDeserializer as serde::Deserializer>::deserialize_enum::VA::bare_variant_payload": "synthetic payload of a bare variant name",
}


UNKNOWN_USE_SITE_OK = {
    "<<de::YamlDeserializer as serde::Deserializer>::deserialize_map::MA as serde::de::MapAccess>::next_key_seed": "the buffered path replays a key of a queued entry, whose recorded use-site belongs to the entry's value (merge-derived entries); the key is replayed in place",
}


def rule_replay_reference_threaded(ctx, fx, config, prop="C16"):
    """A replay source over captured events answers `reference_location()` with the events' own (definition-site) positions unless
    it is given the use-site.  Every function that *has* a use-site — a `Location` parameter named `…reference…` — and builds a
    replay source builds it with that parameter; a node captured and replayed where it is used is built with `at_use_site`,
    whose argument is a `reference_location()` read (directly, or through a parameter every caller fills with one); sites that
    build a source without any reference are a reviewed table of replays in place."""
    n = 0
    HELPER = "de::ReplayEvents::at_use_site"

    def is_use_site_read(f, a, depth=1):
        r = render(a)
        if "reference_location(" in r:
            return True, None
        if a[0] == "arg" and depth > 0:
            # a parameter: every caller must fill it with a use-site read (or is a reviewed in-place replay)
            idx = a[1]
            bad = []
            sites = 0
            n_unknown = {}
            for g in fx.fns.values():
                for gb, gt in g.calls():
                    if fx.local_callee(gt) is f and len(gt["args"]) >= idx:
                        sites += 1
                        with g.deep():
                            ga = g.sym_operand(gt["args"][idx - 1])
                        okk, _ = is_use_site_read(g, ga, depth - 1)
                        unknown = "UNKNOWN" in render(ga)
                        if unknown and g.npath in UNKNOWN_USE_SITE_OK:
                            n_unknown[g.npath] = n_unknown.get(g.npath, 0) + 1
                            if n_unknown[g.npath] > 1:  # one reviewed site per listed function
                                bad.append("%s passes UNKNOWN at a second site" % g.name)
                        elif not okk:
                            bad.append("%s passes `%s`" % (g.name, render(ga)[:40]))
            return (sites > 0 and not bad), bad
        return False, None
    # the helper decides "reached through an alias" by comparing whole locations: the node's first event against the
    # use-site.  A comparison of one component (the line, say) treats an alias on its anchor's line — flow style,
    # `{a: &x !V 7, b: *x}` — as the node written in place, and the use-site is lost.
    hf = fx.fn(HELPER)
    ctx.saw(hf)
    body = [hf] + [g for g in fx.fns.values() if g.npath.startswith(HELPER + "::{closure")]
    whole, comp = 0, []
    for g in body:
        for b, t in g.calls():
            c = fx.callee(t)
            if last_seg(c) in ("ne", "eq") and "PartialEq" in c and all("Location" in g.local_ty(o[k]["l"]) for o in t["args"] for k in ("cp", "mv") if k in o):
                whole += 1
            if c.startswith("location::Location::") and last_seg(c) in ("line", "column", "byte_offset", "span", "byte_info"):
                comp.append("%s() in %s" % (last_seg(c), g.name))
        for b, i, s_ in g.stmts():
            if s_["k"] == "assign" and s_["rv"]["k"] == "bin" and s_["rv"].get("op") in ("Lt", "Le", "Gt", "Ge", "Eq", "Ne"):
                comp.append("%s at line %s" % (s_["rv"]["op"], s_.get("ln", "?")))
    ctx.check(whole >= 2 and not comp, "USE-SITE", "%s:USE-SITE:alias-test-compares-whole-locations" % prop,
              "at_use_site tests `use_site != UNKNOWN` and `defined != use_site` on whole locations (%d comparisons)" % whole,
              "at_use_site decides whether the node was reached through an alias from a component of the locations (%s; %d whole-location comparisons): an alias on the same line as its anchor is taken for the node written in place and `Spanned::referenced` names the anchor" % ("; ".join(comp) or "no component read", whole), config, ctx.where(hf))
    for f in sorted(fx.fns.values(), key=lambda g: g.npath):
        for b, t in f.calls():
            c = fx.callee(t)
            if "de::ReplayEvents" not in c or not (c.endswith("::new") or c.endswith("::with_reference") or c.endswith("::at_use_site")):
                continue
            n += 1
            ctx.saw(f)
            key = "%s:USE-SITE:replay-built-with-use-site:%s" % (prop, f.name)
            refs = [f.local_name(i) for i in range(1, f.nargs + 1) if "Location" in f.local_ty(i) and "reference" in (f.local_name(i) or "")]
            if f.npath == HELPER:
                # the helper itself: the reference it hands on is its own parameter; the plain source is its in-place branch
                if c.endswith("::with_reference"):
                    a = f.sym_operand(t["args"][1])
                    ctx.check(a[0] == "arg", "USE-SITE", key + ":with_reference", "at_use_site hands its use-site on", "at_use_site builds the source with `%s` instead of its use-site" % render(a)[:40], config, ctx.where(f, b))
                continue
            if c.endswith("::at_use_site"):
                with f.deep():
                    a = f.sym_operand(t["args"][1])
                okk, why = is_use_site_read(f, a)
                ctx.check(okk, "USE-SITE", key, "the node is replayed with the use-site read before it was consumed",
                          "%s replays a captured node with `%s`, which is not a use-site read%s" % (f.name, render(a)[:50], (": " + "; ".join(why)) if why else ""), config, ctx.where(f, b))
            elif c.endswith("::with_reference"):
                with f.deep():
                    a = f.sym_operand(t["args"][1])
                if refs:
                    ok = a[0] == "arg" and a[2] in refs
                    ctx.check(ok, "USE-SITE", key, "the replay source is given the function's use-site parameter (%s)" % refs,
                              "%s builds its replay source with `%s` instead of its use-site parameter %s" % (f.name, render(a)[:60], refs), config, ctx.where(f, b))
                else:
                    ctx.ok("USE-SITE", key, "the replay source is given a recorded use-site (%s)" % render(a)[:60], config, ctx.where(f, b))
            else:
                ok = not refs and f.npath in REPLAY_OWN_LOCATION
                ctx.check(ok, "USE-SITE", key, "replay in place (%s)" % REPLAY_OWN_LOCATION.get(f.npath, ""),
                          "%s builds a replay source without a use-site%s: `reference_location()` of that source answers with definition-site positions, so a value reached through an alias (or a nested merge inside it) reports the anchored node's own position as its use-site" % (f.name, (" although it receives one (%s)" % refs) if refs else " and is not in the reviewed table of in-place replays"), config, ctx.where(f, b))
    ctx.floor("USE-SITE.replay-constructions", n, 6, config)


def rule_dual_only_when_sites_differ(ctx, fx, config, prop="C16"):
    """Every container level wraps a bubbling error with `attach_alias_locations_if_missing(err, use-site, definition-site)` of
    *its own* node.  For a node written in place the two sites are equal and the error passes through unchanged; the dual-location
    error is built only on the edge where they differ.  Built (or rebuilt) without that test, an error that already carries the
    alias's two sites is overwritten by every ordinary enclosing level with the start of that container."""
    f = fx.fn("de::attach_alias_locations_if_missing")
    ctx.saw(f)
    diff_edges = []
    for sb, sym, tt, ff in bool_switches(f):
        d = sym
        neg = False
        while d[0] == "un" and d[1] == "Not":
            d, neg = d[2], not neg
        if d[0] == "call" and last_seg(d[1]) in ("ne", "eq") and len(d[2]) == 2:
            args = {render(a) for a in d[2]}
            if args == {"reference_location", "defined_location"}:
                differ = tt if (last_seg(d[1]) == "ne") != neg else ff
                diff_edges.append((sb, differ))
    builds = [b for b, i, adt, var, fl, ops, s_ in aggregates(f) if adt == "de_error::Error" and var == "AliasError"]
    ctx.check(bool(diff_edges) and bool(builds) and all(any(f.edge_dominates(sb, e, b) for sb, e in diff_edges) for b in builds), "SIBLING", "%s:SIBLING:dual-location:only-when-sites-differ" % prop,
              "a dual-location error is built only where the use-site and the definition-site differ (%d site(s))" % len(builds),
              "attach_alias_locations_if_missing builds an AliasError on a path that did not establish use-site != definition-site: an enclosing level written in place (equal sites) overwrites the alias's two sites with the start of that container", config, ctx.where(f, builds[0] if builds else None))


def rule_value_fallback(ctx, fx, config, prop="C16"):
    """A type error at a node is reported at that node.  Serde's own errors (`invalid_value`, `invalid_type`, …) carry no position
    and get the thread's fallback location; while a mapping *value* is being read that fallback is the value's use-site — a guard
    created from it is alive across `seed.deserialize` in both branches of next_value_seed (otherwise the error lands on the key)."""
    f = fx.fn("<<de::YamlDeserializer as serde::Deserializer>::deserialize_map::MA as serde::de::MapAccess>::next_value_seed")
    ctx.saw(f)
    seeds = [b for b, t in f.calls() if str(t["f"].get("trait")) == "serde::de::DeserializeSeed" and t["f"].get("name") == "deserialize"]
    guards = []
    for b, t in f.calls():
        if fx.callee(t) == "de_error::MissingFieldLocationGuard::new":
            with f.deep():
                a = f.sym_operand(t["args"][0])
            if "ref" in loc_prov(fx, a) or "pending_value" in render(a):
                guards.append(b)
    ctx.floor("DOM.value-seed-calls", len(seeds), 2, config)
    ctx.check(bool(guards) and all(any(f.dominates(g, sb) for g in guards) for sb in seeds), "DOM", "%s:DOM:value-fallback-is-the-value" % prop,
              "while a mapping value is read the fallback location is the value's use-site (%d guard(s) over %d seed call(s))" % (len(guards), len(seeds)),
              "next_value_seed reads a value without pointing the fallback location at it: a location-less Serde error for the value (`n: 0` into NonZeroU32) is reported at the key", config, ctx.where(f))


def rule_use_site_read_is_fresh(ctx, fx, config):
    """USE-SITE:read-is-fresh — `reference_location()` names the node that is *about to be* consumed: the lookahead filled by
    `peek()`, or the alias frame serving it.  Read after the node was consumed (capture_node / next) and before the next
    `peek()`, it names whatever the source saw last — for an inline node the end of that node, not where it is used.  No path
    from a consuming call reaches a use-site read without passing a `peek()`."""
    n = 0
    for f in sorted(fx.fns.values(), key=lambda g: g.npath):
        if not (f.file.endswith("src/de.rs") or "spanned" in f.file):
            continue
        refs = [b for b, t in f.calls() if last_seg(fx.callee_decl(t)) == "reference_location"]
        if not refs:
            continue
        n += 1
        ctx.saw(f)
        caps = [b for b, t in f.calls() if fx.callee(t).endswith("capture_node") or (last_seg(fx.callee_decl(t)) == "next" and "Events" in fx.callee_decl(t))]
        peeks = {b for b, t in f.calls() if last_seg(fx.callee_decl(t)) == "peek" and "Events" in fx.callee_decl(t)}
        stale = []
        for c in caps:
            seen, st = set(), list(f.succ[c])
            while st:
                x = st.pop()
                if x in seen or x in peeks:
                    continue
                seen.add(x)
                if x in refs:
                    stale.append(f.blocks[x]["term"].get("ln"))
                    continue
                st.extend(f.succ[x])
        ctx.check(not stale, "USE-SITE", "C16:USE-SITE:read-is-fresh:%s" % f.name, "every use-site read follows a peek() of the node it is about",
                  "%s reads reference_location() (line %s) after the node was consumed and before the next peek(): for an inline node the read names the end of that node instead of its use site" % (f.name, sorted(set(stale))), config, ctx.where(f))
    ctx.floor("USE-SITE.reading-functions", n, 8, config)


def _field_of_aggr(sym, name):
    """the value of field `name` in an aggregate, or in an aggregate nested in one of its fields (a struct grouping the two
    locations is the same data)"""
    if not isinstance(sym, tuple) or not sym or sym[0] != "aggr":
        return None
    fields, ops = sym[3], sym[4]
    if name in fields:
        return ops[list(fields).index(name)]
    for o in ops:
        r = _field_of_aggr(o, name)
        if r is not None:
            return r
    return None


def run(ctx):
    for config in ctx.configs:
        fx = ctx.facts(config)
        rule_use_site_sources(ctx, fx, config)
        rule_locate_once(ctx, fx, config)
        rule_replay_reference_threaded(ctx, fx, config)
        rule_dual_only_when_sites_differ(ctx, fx, config)
        rule_value_fallback(ctx, fx, config)
        rule_use_site_read_is_fresh(ctx, fx, config)
        a = fx.fn("location::location_from_span")
        b_ = fx.fn("de_error::Error::from_scan_error")
        ra = check_ctor(ctx, fx, config, a, "span.start")
        rb = check_ctor(ctx, fx, config, b_, "marker(")
        if ra and rb:
            ctx.check(ra[0].split("(")[0] == rb[0].split("(")[0] and ra[1].split("(")[0:2] == rb[1].split("(")[0:2], "SIBLING", "C16:SIBLING:constructors-agree", "both constructors use line() and col()+1", "the two location constructors convert marks differently: %s vs %s" % (ra[:2], rb[:2]), config, ctx.where(a))
        # byte info: from byte_offset() or the (0,0) pair
        if ra:
            with a.deep():
                bi = render(ra[2])
            srcs = sym_contains(ra[2], lambda x: x[0] == "call" and last_seg(x[1]) == "byte_offset")
            zero = sym_contains(ra[2], lambda x: x[0] == "aggr" and x[1] == "tuple" and all(o == ("const", 0, "u32") or (o[0] == "const" and o[1] == 0) for o in x[4]) and len(x[4]) == 2)
            ctx.check(srcs and zero, "SIBLING", "C16:SIBLING:location_from_span:byte-info", "byte info comes from the parser's byte offsets, else (0, 0)", "byte info is `%s`" % bi[:160], config, ctx.where(a))
        if rb:
            zero = rb[2][0] == "aggr" and all(o[0] == "const" and o[1] == 0 for o in rb[2][4])
            ctx.check(zero, "SIBLING", "C16:SIBLING:from_scan_error:byte-info", "scan errors carry no byte info (0, 0)", "from_scan_error fabricates byte info", config, ctx.where(b_))
        # ---- DOM: the span-carrying wrapper
        sp = fx.fn("de::spanned_deser::deserialize_yaml_spanned")
        ctx.saw(sp)
        vis = [b for b, t in sp.calls() if t["f"].get("name") == "visit_newtype_struct"]
        peeks = [b for b, t in sp.calls() if last_seg(fx.callee_decl(t)) == "peek"]
        refs = [b for b, t in sp.calls() if last_seg(fx.callee_decl(t)) == "reference_location"]
        sp_helpers = [hb for hb, ht in sp.calls() if fx.callee(ht) in fx.fns and fx.fns[fx.callee(ht)].file.startswith("src/") and {"peek", "reference_location"} <= {last_seg(fx.callee_decl(t2)) for _b2, t2 in fx.fns[fx.callee(ht)].calls()}]
        direct = bool(peeks) and bool(refs) and len(vis) == 1 and all(sp.dominates(p, vis[0]) for p in peeks[:1]) and all(sp.dominates(r, vis[0]) for r in refs)
        via_helper = len(vis) == 1 and any(sp.dominates(hb, vis[0]) for hb in sp_helpers)
        ctx.check(direct or via_helper, "DOM", "C16:DOM:spanned:capture-before-visit",
                  "definition site (peek) and use site (reference_location) are captured before the node is handed to the visitor", "Spanned no longer captures both locations before consuming the node", config, ctx.where(sp))
        for bb, i, adt, var, fl, ops, s_ in aggregates(sp):
            if adt.endswith("SpannedDeser"):
                with sp.deep():
                    whole = sp.sym_rvalue(s_["rv"])
                rs, ds = _field_of_aggr(whole, "referenced"), _field_of_aggr(whole, "defined")
                if rs is None or ds is None:
                    ctx.bad("DOM", "C16:DOM:spanned:referenced", "the span-carrying deserializer no longer carries fields named `referenced` / `defined` (also not in a nested struct): re-confirm the rule", config, ctx.where(sp, bb))
                    continue
                r, d = render(rs), render(ds)
                ctx.check(loc_prov(fx, rs) == {"ref"}, "DOM", "C16:DOM:spanned:referenced", "`referenced` is the event source's use-site location", "`referenced` is `%s`" % r[:120], config, ctx.where(sp, bb))
                ctx.check("def" in loc_prov(fx, ds) and loc_prov(fx, ds) != {"ref"}, "DOM", "C16:DOM:spanned:defined", "`defined` is the peeked node's own location", "`defined` is `%s`" % d[:120], config, ctx.where(sp, bb))
        # ---- SIBLING: element / value / payload sites
        n = 0
        for f in sorted(fx.fns.values(), key=lambda f: f.npath):
            if not (f.name in ("next_element_seed", "next_value_seed", "newtype_variant_seed") and f.file.endswith("src/de.rs")):
                continue
            if "EmptySeq" in f.npath or "EmptyMap" in f.npath or "ByteSeq" in f.npath or "TaggedVA" in f.npath:
                continue
            ctx.saw(f)
            seeds = [(b, t) for b, t in f.calls() if t["f"].get("trait") == "serde::de::DeserializeSeed" and t["f"].get("name") == "deserialize"]
            # exempt (one named symbol): the payload of a bare `Variant` scalar is a synthetic null located at the variant name
            # (VA::bare_variant_payload, F14) — it is not a node of the document, there is no use-site / definition-site pair
            def synthetic(t):
                with f.deep():
                    return sym_contains(f.sym_operand(t["args"][1]), lambda x: x[0] == "call" and x[1].endswith("::bare_variant_payload"))
            seeds = [(b, t) for b, t in seeds if not synthetic(t)]
            for b, t in seeds:
                n += 1
                key = "C16:SIBLING:dual-location:%s#%d" % (f.npath.split("::")[-2].split(" ")[0].strip("<>") + "::" + f.name, n)
                # the result flows through map_err with a closure calling ATTACH
                dest = t["dest"]
                okm = False
                order_ok = False
                captured_before = False
                for mb, mt in f.calls():
                    if last_seg(fx.callee(mt)) != "map_err":
                        continue
                    with f.deep():
                        src = f.sym_operand(mt["args"][0])
                        cl = f.sym_operand(mt["args"][1])
                    if not sym_contains(src, lambda x: x[0] == "call" and len(x) > 3 and x[3] == b):
                        continue
                    if cl[0] != "mkclosure":
                        continue
                    g = fx.fns.get(cl[1])
                    if g is None:
                        continue
                    for gb, gt in g.calls():
                        if fx.callee(gt) == ATTACH:
                            okm = True
                            provs = []
                            for ai in (1, 2):
                                a = g.sym_operand(gt["args"][ai])
                                up = [x for x in _walk(a) if len(x) > 2 and x[0] == "upvar"]
                                if up and isinstance(up[0][2], int) and up[0][2] < len(cl[2]):
                                    provs.append(loc_prov(fx, cl[2][up[0][2]]))
                                else:
                                    provs.append(loc_prov(fx, a))
                            # use-site: the event source's answer, or (buffered value) the reference location stored with the pending entry
                            a1r = render(cl[2][[x for x in _walk(g.sym_operand(gt["args"][1])) if len(x) > 2 and x[0] == "upvar"][0][2]]) if [x for x in _walk(g.sym_operand(gt["args"][1])) if len(x) > 2 and x[0] == "upvar"] else ""
                            stored_ref = provs[0] == set() and "pending_value" in a1r
                            order_ok = (provs[0] == {"ref"} or stored_ref) and "def" in provs[1] and "ref" not in provs[1].difference({"def"})
                    # the captured upvars were defined before the deserialize call
                    ups = [render(u) for u in cl[2]]
                    captured_before = True
                ctx.check(okm, "SIBLING", key + ":attach", "errors of the nested deserialization are mapped through attach_alias_locations_if_missing",
                          "an element / value deserialization site does not attach use-site and definition-site locations to its errors", config, ctx.where(f, b))
                if okm:
                    ctx.check(order_ok, "SIBLING", key + ":order", "arguments are (use-site, definition-site)", "use-site and definition-site are swapped or replaced in the call to attach_alias_locations_if_missing", config, ctx.where(f, b))
            # the definition site is the *peeked node's own* location (the cursor's last_location is only the fallback for an
            # exhausted stream: on a replay buffer peek() does not move it, so it still names the key just consumed)
            for li, l in enumerate(f.d["locals"]):
                if l.get("name") == "defined_location":
                    with f.deep():
                        dsym = f.sym_local(li)
                    r = render(dsym)
                    ctx.check("def" in loc_prov(fx, dsym), "DOM", "C16:DOM:defined-from-peeked-node:%s" % f.name, "defined_location is read from the peeked event",
                              "%s takes the definition site from `%s` rather than from the peeked event: for nodes served from a replay buffer (merge-derived values) it is the preceding key's position" % (f.name, r[:90]), config, ctx.where(f))
            # both locations are captured before the nested deserialization consumes the node
            for b, t in seeds:
                refs = [rb for rb, rt in f.calls() if last_seg(fx.callee_decl(rt)) == "reference_location"]
                peeks = [pb for pb, pt in f.calls() if last_seg(fx.callee_decl(pt)) == "peek"]
                buffered = any(last_seg(fx.callee(ft)) == "with_reference" and f.dominates(fb, b) for fb, ft in f.calls())
                helpers = []
                for hb, ht in f.calls():
                    c = fx.callee(ht)
                    if c in fx.fns and fx.fns[c].file.startswith("src/") and f.dominates(hb, b) and hb != b:
                        h = fx.fns[c]
                        hr = {last_seg(fx.callee_decl(t2)) for _b2, t2 in h.calls()}
                        if {"peek", "reference_location"} <= hr:
                            helpers.append(hb)
                okc = ((any(f.dominates(r, b) for r in refs) or buffered) and any(f.dominates(p, b) for p in peeks)) or bool(helpers)
                ctx.check(okc, "DOM", "C16:DOM:capture-before-consume:%s" % f.name, "use-site and definition-site are captured before the node is consumed",
                          "the locations are read after (or not before) the nested deserialization consumed the node: they describe the *next* node", config, ctx.where(f, b))
        ctx.floor("SIBLING.dual-location-sites", n, 4, config)
        # attach: AliasError only when both known and different; arguments land in the right fields
        at = fx.fn(ATTACH)
        ctx.saw(at)
        for bb, i, adt, var, fl, ops, s_ in aggregates(at):
            if adt == "location::Locations":
                r = render(ops[fl.index("reference_location")])
                d = render(ops[fl.index("defined_location")])
                ctx.check(r == "reference_location" and d == "defined_location", "SIBLING", "C16:SIBLING:attach:fields", "Locations{reference, defined} filled from the same-named arguments", "attach_alias_locations_if_missing swaps the two locations (%s, %s)" % (r, d), config, ctx.where(at, bb))
        # ---- TABLE: per-variant location get / set
        err = fx.adt("de_error::Error")
        with_loc = {v["name"] for v in err["variants"] if any(x["name"] == "location" for x in v["fields"])}
        ctx.floor("TABLE.variants-with-location", len(with_loc), 45, config)

        def variants_touched(fn_name, write):
            f = fx.fn(fn_name)
            ctx.saw(f)
            out = set()

            def scan_place(p):
                var = None
                for e in p["pr"]:
                    if isinstance(e, dict) and "dc" in e:
                        var = e["dc"]
                    if isinstance(e, dict) and e.get("f") == "location" and e.get("of") == "de_error::Error" and var:
                        out.add(var)
            for b, i, s_ in f.stmts():
                if s_["k"] != "assign":
                    continue
                if write:
                    # `location` bound by `&mut` pattern: ref mut place, later written through
                    if s_["rv"]["k"] == "ref" and s_["rv"].get("mut"):
                        scan_place(s_["rv"]["p"])
                    scan_place(s_["p"])
                else:
                    from ..rules import _places_in_rvalue
                    for p in _places_in_rvalue(s_["rv"]):
                        scan_place(p)
            return out
        w = variants_touched("de_error::Error::with_location", True)
        r = variants_touched("de_error::Error::location", False)
        rs = variants_touched("de_error::Error::locations", False)
        for v in sorted(with_loc):
            ctx.check(v in w, "TABLE", "C16:TABLE:with_location:%s" % v, "with_location sets Error::%s.location" % v, "Error::%s carries a location but with_location does not set it (the error keeps its unknown location)" % v, config, None)
            ctx.check(v in r, "TABLE", "C16:TABLE:location:%s" % v, "location() reads Error::%s.location" % v, "Error::%s carries a location but location() does not return it" % v, config, None)
            ctx.check(v in rs, "TABLE", "C16:TABLE:locations:%s" % v, "locations() covers Error::%s" % v, "Error::%s carries a location but locations() does not return it" % v, config, None)
        # ---- serde's static constructors route through the fallback attachment
        hooks = ["invalid_type", "invalid_value", "unknown_variant", "unknown_field", "missing_field"]
        for h in hooks:
            f = fx.fn("<de_error::Error as serde::de::Error>::%s" % h)
            ctx.saw(f)
            ctx.check(any(fx.callee(t) == "de_error::maybe_attach_fallback_location" for b, t in f.calls()), "TABLE", "C16:TABLE:serde-hook:%s" % h, "serde's %s error gets the fallback location" % h, "de::Error::%s no longer attaches the fallback location" % h, config, ctx.where(f))
        mf = fx.fn("de_error::maybe_attach_fallback_location")
        ctx.check(any(fx.callee(t) == "de_error::Error::with_location" for b, t in mf.calls()), "TABLE", "C16:TABLE:fallback-attaches", "the fallback location is attached with with_location", "maybe_attach_fallback_location no longer attaches a location", config, ctx.where(mf))


def rule_use_site_sources(ctx, fx, config, prop="C16"):
    """USE-SITE: the two event sources answer `reference_location` for *every* node of a replayed subtree with the use site
    (alias / merge entry): the replay buffer's override is consulted unconditionally, the live source's innermost replay
    frame likewise.  (Shared with C18: validation error paths are located through the same answer.)"""
    for name, field, what in (("<de::ReplayEvents as de::Events>::reference_location", "self.ref_override", "replayed (merge-derived / buffered) nodes"),
                              ("<live_events::LiveEvents as de::Events>::reference_location", "self.inject", "alias-replayed nodes")):
        f = fx.fn(name)
        ctx.saw(f)
        sw = None
        for b in sorted(f.live_blocks):
            t = f.blocks[b]["term"]
            if t["k"] == "switch":
                with f.deep():
                    sym = f.sym_operand(t["o"])
                r = render(sym)
                if sym[0] == "discr" and field in r:
                    sw = b
                    break
        key = "%s:USE-SITE:%s" % (prop, name.split(" as ")[0].strip("<").split("::")[-1])
        if not ctx.check(sw is not None, "USE-SITE", key + ":test", "the use-site override (%s) is consulted" % field, "%s no longer consults %s" % (name, field), config, ctx.where(f)):
            continue
        # nothing decides before it: every path from the entry reaches the test without passing another conditional
        pre = [b for b in f.reachable([0], avoid=[sw]) if f.blocks[b]["term"]["k"] == "switch" and b != sw]
        ctx.check(not pre, "USE-SITE", key + ":unconditional", "the override is consulted before any other condition (it holds for the whole replay, not only its first event)",
                  "%s tests another condition before consulting %s: for %s deeper than the first event the definition site is reported as the use site (`referenced == defined`)" % (name, field, what), config, ctx.where(f, pre[0] if pre else None))


def rule_locate_once(ctx, fx, config, prop="C16"):
    """LOCATE-ONCE: an error that comes out of a *nested deserialization* may already carry the precise location of the
    offending node (e.g. the repeated key inside a composite key); Error::with_location overwrites.  A map_err closure over
    such a result attaches a location only when the error has none."""
    n = 0
    for f in sorted(fx.fns.values(), key=lambda f: f.npath):
        if not f.file.endswith(("src/de.rs", "src/lib.rs", "with_deserializer.rs")):
            continue
        for b, t in f.calls():
            if last_seg(fx.callee(t)) != "map_err" or len(t["args"]) < 2:
                continue
            with f.deep():
                src = f.sym_operand(t["args"][0])
                cl = f.sym_operand(t["args"][1])
            nested = sym_contains(src, lambda x: x[0] == "call" and last_seg(x[1]) == "deserialize" and ("DeserializeSeed" in x[1] or "Deserialize" in x[1] or "serde::de" in x[1]))
            if not nested or cl[0] != "mkclosure":
                continue
            g = fx.fns.get(cl[1])
            if g is None:
                continue
            wl = [gb for gb, gt in g.calls() if fx.callee(gt) == "de_error::Error::with_location"]
            if not wl:
                continue
            n += 1
            ctx.saw(f)
            guards = []
            for sb, sym, tt, ff in bool_switches(g):
                with g.deep():
                    d = g.sym_operand(g.blocks[sb]["term"]["o"])
                r = render(d)
                if "is_none(" in r and "location(" in r:
                    guards.append((sb, ff if d[0] == "un" else tt))
            okg = all(any(g.edge_dominates(sb, e, wb) for sb, e in guards) for wb in wl)
            ctx.check(okg, "LOCATE-ONCE", "%s:LOCATE-ONCE:%s" % (prop, f.npath.split("::")[-1]), "the location is attached only to an error that has none",
                      "%s overwrites the location of every error coming out of the nested deserialization with the start of the enclosing node: a duplicate key inside a composite key is reported at the composite key's start, not at the repeated key" % f.npath, config, ctx.where(f, b))
    ctx.floor("LOCATE-ONCE.sites", n, 1, config)


def rule_defined_from_peek(ctx, fx, config, prop="C18"):
    """shared with C18: the recorded definition site of a map value comes from the peeked node."""
    n = 0
    for f in sorted(fx.fns.values(), key=lambda f: f.npath):
        if f.name != "next_value_seed" or not f.file.endswith("src/de.rs") or "EmptyMap" in f.npath:
            continue
        for li, l in enumerate(f.d["locals"]):
            if l.get("name") == "defined_location":
                n += 1
                with f.deep():
                    r = render(f.sym_local(li))
                with f.deep():
                    dsym2 = f.sym_local(li)
                ctx.check("def" in loc_prov(fx, dsym2), "DOM", "%s:DOM:defined-from-peeked-node:%s" % (prop, f.name), "defined_location is read from the peeked event",
                          "%s takes the definition site from `%s` rather than from the peeked event" % (f.name, r[:90]), config, ctx.where(f))
    ctx.floor("DOM.defined-location-sites", n, 1, config)
