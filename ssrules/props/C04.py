"""C04 — duplicate-key policy is applied exactly, for keys of every YAML kind (DESIGN §4 C04)."""
from ..mir import MissingAnchor, sym_contains, norm
from ..rules import (err_return_blocks, render, aggregates, last_seg, bool_switches, must_pass, switch_edges, ev_switches, depth_effects, arm_effects)

EXPLANATION = ("SIBLING / BALANCE / TABLE rules over the resolved MIR of the mapping access: the two policy-dispatch sites (buffered "
               "and live path) agree per policy — Error ∧ duplicate returns the duplicate-key error located at the *key node*; "
               "FirstWins ∧ duplicate delivers nothing and, on the live path, skips exactly one node; LastWins falls through; the "
               "key's fingerprint is inserted into the seen-set before every delivered key. Every node-skipping loop is a balanced "
               "depth automaton (both start kinds +1, both end kinds −1, scalars 0). The fingerprint type derives PartialEq, Eq "
               "and Hash together and its scalar variant carries exactly {value, tag}.")
ASSUMPTIONS = ["rustc's MIR (opt-level 0) faithfully represents the compiled crate",
               "that structurally equal nodes always get equal fingerprints (the recursive construction) and equality with the de-duplicated rendering are value-level: not decided"]

NKS = "<<de::YamlDeserializer as serde::Deserializer>::deserialize_map::MA as serde::de::MapAccess>::next_key_seed"
SKIP = "<de::YamlDeserializer as serde::Deserializer>::deserialize_map::MA::skip_one_node"


def policy_sites(f, fx):
    """switches on discr(self.cfg.dup_policy): (block, {variant: target})"""
    pol = fx.adt("options::DuplicateKeyPolicy")
    names = [v["name"] for v in pol["variants"]]
    out = []
    for b in sorted(f.live_blocks):
        t = f.blocks[b]["term"]
        if t["k"] != "switch":
            continue
        sym = f.sym_operand(t["o"])
        if sym[0] == "discr" and render(sym[1]) == "self.cfg.dup_policy":
            arms = {}
            for i, n in enumerate(names):
                if i in t["vals"]:
                    arms[n] = t["tgts"][t["vals"].index(i)]
                else:
                    arms[n] = t["tgts"][-1]
            out.append((b, arms))
    return out


def rule_key_tag_identity(ctx, fx, config):
    """IDENTITY:custom-tag-is-the-raw-tag — two keys are the same key when text *and tag* agree; for an application tag the
    fingerprint carries the tag's own text.  The `custom_tag` of a scalar key's fingerprint is the event's `raw_tag` passed
    through Option / string plumbing only (as_ref, map, clone, to_string …, closures that do nothing else) — never through
    a function that *interprets* the tag (strips a prefix, rejects some spellings): such a function maps distinct tags to one
    value, and keys that differ only in those tags collide."""
    PLUMB = ("map", "as_ref", "as_deref", "cloned", "clone", "to_string", "to_owned", "into_owned", "into", "from", "deref", "as_str", "borrow")
    f = fx.fn("de::KeyNode::fingerprint")
    ctx.saw(f)
    n = 0
    for g in [f] + fx.closures_of(f):
        for b, i, adt, var, fl, ops, s_ in aggregates(g):
            if "custom_tag" not in fl:
                continue
            n += 1
            with g.deep():
                sym = g.sym_operand(s_["rv"]["ops"][fl.index("custom_tag")])
            bad = []

            def closure_ok(path):
                k = fx.fn_opt(norm(path))
                if k is None:
                    return False
                return all(last_seg(fx.callee_decl(t)) in PLUMB for kb, t in k.calls())

            def walk(x):
                if not isinstance(x, tuple) or not x:
                    return
                if x[0] == "field" and x[2] == "raw_tag":
                    return  # how the event itself is reached is not the tag's business
                if x[0] == "call":
                    if last_seg(x[1]) not in PLUMB:
                        bad.append(x[1])
                    for a in x[2]:
                        walk(a)
                    return
                if x[0] == "mkclosure":
                    if not closure_ok(x[1]):
                        bad.append("closure " + x[1].rsplit("::", 1)[-1])
                    return
                for a in x[1:]:
                    if isinstance(a, tuple):
                        walk(a)
                    elif isinstance(a, (list,)):
                        for y in a:
                            walk(y)
            walk(sym)
            r = render(sym)
            ctx.check(not bad and "raw_tag" in r, "IDENTITY", "C04:IDENTITY:custom-tag-is-the-raw-tag", "the key's application tag enters the fingerprint as its own text (%s)" % r[:70],
                      "the fingerprint's `custom_tag` is computed by %s, not copied from the event's raw tag: distinct application tags can map to the same value, and keys that differ only in their tag are taken for a repetition" % (sorted(set(bad)) or r[:60]), config, ctx.where(g, b))
    ctx.floor("IDENTITY.custom-tag-sites", n, 1, config)


def run(ctx):
    for config in ctx.configs:
        fx = ctx.facts(config)
        from .C16 import rule_locate_once
        rule_locate_once(ctx, fx, config, prop="C04")
        rule_key_tag_identity(ctx, fx, config)
        f = fx.fn(NKS)
        ctx.saw(f)
        sites = policy_sites(f, fx)
        ctx.floor("SIBLING.policy-sites", len(sites), 2, config)
        loop_heads = [b for b, t in f.calls() if last_seg(fx.callee(t)) == "pop_front"]
        captures = [b for b, t in f.calls() if fx.callee(t) == "de::capture_node"]
        skips = [b for b, t in f.calls() if fx.callee(t) == SKIP]
        delivered = []
        for b, i, adt, var, fl, ops, s_ in aggregates(f):
            if s_["p"]["l"] == 0 and var == "Ok":
                with f.deep():
                    v = f.sym_operand(s_["rv"]["ops"][0])
                if v[0] == "aggr" and v[2] == "Some":
                    delivered.append(b)
        ctx.floor("SIBLING.deliveries", len(delivered), 2, config)
        dup_err = [b for b, i, adt, var, fl, ops, s_ in aggregates(f) if adt == "de_error::Error" and var == "DuplicateMappingKey"]
        # ---- policy x duplicate, formulated over *joint regions* so that the order of the two tests and the form of the policy test
        # (a three-arm `match`, or `is_duplicate && matches!(policy, P)`) do not matter: for policy P the entries of the region in
        # which both `policy == P` and `the key is in the seen-set` are known.
        from ..rules import through_flag
        names = [v["name"] for v in fx.adt("options::DuplicateKeyPolicy")["variants"]]
        pedges = []   # (switch block, raw target, effective target, frozenset(policy names))
        for sb in sorted(f.live_blocks):
            t = f.blocks[sb]["term"]
            if t["k"] != "switch":
                continue
            sym = f.sym_operand(t["o"])
            if not (sym[0] == "discr" and render(sym[1]) == "self.cfg.dup_policy"):
                continue
            groups = {}
            for i2, n2 in enumerate(names):
                tg = t["tgts"][t["vals"].index(i2)] if i2 in t["vals"] else t["tgts"][-1]
                groups.setdefault(tg, set()).add(n2)
            for tg, ns in groups.items():
                eff = through_flag(f, tg, [x for x in groups if x != tg])[0]
                pedges.append((sb, tg, eff, frozenset(ns)))
        dedges = []   # (switch block, duplicate target, non-duplicate target)
        for bb, sym, tt, ff in bool_switches(f):
            with f.deep():
                d = f.sym_operand(f.blocks[bb]["term"]["o"])
            neg = False
            while d[0] == "un" and d[1] == "Not":
                d, neg = d[2], not neg
            if d[0] == "call" and last_seg(d[1]) == "contains" and "self.seen" in render(d):
                dedges.append((bb, ff, tt) if neg else (bb, tt, ff))

        def joint(policy):
            """[(entry block, dup edge, kind)] where policy == `policy` (exclusively) and `duplicate` both hold"""
            out = []
            for pb, raw, eff, ns in pedges:
                if ns != frozenset([policy]):
                    continue
                for db, dt, dn in dedges:
                    if f.edge_dominates(pb, raw, db):
                        out.append((dt, (db, dt, dn)))
                    elif f.edge_dominates(db, dt, pb):
                        out.append((eff, (db, dt, dn)))
            return out
        consuming_all = [x for x, xt in f.calls() if fx.callee(xt) in (SKIP, "de::capture_node") or (last_seg(fx.callee_decl(xt)) == "next" and "Events" in fx.callee_decl(xt))]
        jE, jF, jL = joint("Error"), joint("FirstWins"), joint("LastWins")
        for kind in ("live", "buffered"):
            is_kind = (lambda blk: any(f.dominates(c, blk) for c in captures)) if kind == "live" else (lambda blk: not any(f.dominates(c, blk) for c in captures))
            eE = [(e, de_) for e, de_ in jE if is_kind(e)]
            eF = [(e, de_) for e, de_ in jF if is_kind(e)]
            eL = [(e, de_) for e, de_ in jL if is_kind(e)]
            where = ctx.where(f, (eE or eF or [(0, None)])[0][0])
            okE = bool(eE) and all(must_pass(f, [e], dup_err) for e, _d in eE)
            ctx.check(okE, "SIBLING", "C04:SIBLING:%s:Error" % kind, "Error ∧ duplicate → duplicate-key error", "policy Error (%s path): a duplicate key does not (always) produce the duplicate-key error" % kind, config, where)
            for e, (db, dt, dn) in eE:
                # the non-duplicate edge must not error
                ctx.check(not (set(dup_err) & f.reachable([dn], avoid=loop_heads + [x for x in dup_err if x not in f.reachable([dn], avoid=[dt])])), "SIBLING", "C04:SIBLING:%s:Error:only-duplicates" % kind, "policy Error: a key that is not in the seen-set does not reach the duplicate-key error before the next entry", "policy Error (%s path): a key that is NOT a duplicate can reach the duplicate-key error" % kind, config, where)
            # location of the error
            for eb, i, adt, var, fl, ops, s_ in aggregates(f):
                if adt == "de_error::Error" and var == "DuplicateMappingKey" and any(f.dominates(e, eb) for e, _d in eE):
                    with f.deep():
                        loc = f.sym_operand(s_["rv"]["ops"][fl.index("location")])
                    if kind == "live":
                        # the repeated key as written in this mapping: the source's use-site location taken while the key is still
                        # the peeked node (for `*k: v` that is the alias token; the captured node carries the anchor's position)
                        rbs = []
                        sym_contains(loc, lambda x: x[0] == "call" and last_seg(x[1]) == "reference_location" and rbs.append(x[3]) is None and False)
                        caps = [c for c in captures if f.dominates(c, eb)]
                        okl = bool(rbs) and bool(caps) and all(any(f.dominates(rb, c) and not any(x != c and x != rb and f.dominates(rb, x) and f.dominates(x, c) for x in consuming_all) for c in caps) for rb in rbs)
                        ctx.check(okl, "SIBLING", "C04:SIBLING:%s:Error:location" % kind, "the error is located where the repeated key is written (use-site location read before the key is captured)",
                                  "the duplicate-key error's location is `%s`, not the use-site of the key read while it is the peeked node: for an aliased key `*k: v` the error points at the anchor's definition" % render(loc)[:120], config, ctx.where(f, eb))
                    else:
                        okl = sym_contains(loc, lambda x: x[0] == "call" and x[1] == "de::KeyNode::location")
                        ctx.check(okl, "SIBLING", "C04:SIBLING:%s:Error:location" % kind, "the error is located at the repeated key node", "the duplicate-key error's location is `%s`, not the key node's location" % render(loc), config, ctx.where(f, eb))
            okF = bool(eF)
            for e, _d in eF:
                reach = f.reachable([e], avoid=loop_heads)
                if set(delivered) & reach:
                    okF = False
                if kind == "live":
                    if not must_pass(f, [e], skips, to_blocks=set(loop_heads) | set(f.return_blocks())):
                        okF = False
                elif set(consuming_all) & reach:
                    okF = False
            ctx.check(okF, "SIBLING", "C04:SIBLING:%s:FirstWins" % kind,
                      "FirstWins ∧ duplicate → nothing delivered%s" % (", exactly one node skipped" if kind == "live" else ", nothing consumed"),
                      "policy FirstWins (%s path): a later duplicate entry is delivered, or its value is not skipped / something else is consumed" % kind, config, where)
            # LastWins: a repeated key is delivered like any other.  Either no duplicate test is specific to it, or what lies behind
            # `LastWins ∧ duplicate` neither errors nor goes back to the loop head without delivering
            okL = True
            for e, _d in eL:
                reach = f.reachable([e], avoid=loop_heads)
                if set(dup_err) & reach:
                    okL = False
                if not must_pass(f, [e], list(delivered) + list(err_return_blocks(f)), to_blocks=set(loop_heads)):
                    okL = False
            ctx.check(okL, "SIBLING", "C04:SIBLING:%s:LastWins" % kind, "LastWins delivers every entry (a repeated key neither errors nor is dropped)", "policy LastWins (%s path): a repeated key is reported or dropped instead of delivered" % kind, config, where)
            # on the live path the duplicate test applies to ordinary keys only: a `<<` entry is never in the seen-set as a key, but a
            # *quoted* "<<" key has the same fingerprint (style is not part of it), so a test made before the merge-key test takes
            # a later merge entry for a repeat
            if kind == "live":
                mk_edges = [(sb2, f2) for sb2, sym2, t2, f2 in bool_switches(f) if sym2[0] == "call" and sym2[1] == "de::is_merge_key"]
                live_d = [(db, dt, dn) for db, dt, dn in dedges if any(f.dominates(c, db) for c in captures)]
                okm = bool(mk_edges) and bool(live_d) and all(any(f.edge_dominates(sb2, f2, db) for sb2, f2 in mk_edges) for db, dt, dn in live_d)
                ctx.check(okm, "SIBLING", "C04:SIBLING:live:duplicate-test-after-merge-key-test", "on the live path the seen-set is consulted only for keys that are not merge keys",
                          "next_key_seed consults the seen-set before it knows that the key is not a `<<` merge key: with a literal quoted \"<<\" key earlier in the mapping a later merge entry is taken for a repeat (dropped under FirstWins)", config, where)
        # a duplicate is dropped silently only while flushing merges or under FirstWins: every edge "already seen" that can get back
        # to the next entry without an error and without delivering is controlled by one of those two tests
        flush_edges = []
        for bb, sym, tt, ff in bool_switches(f):
            r = render(sym)
            if not r.endswith("flushing_merges") and not r.endswith("flushing_merges)"):
                # a local filled from the field (`let from_merge = self.flushing_merges;`)
                with f.deep():
                    r = render(f.sym_operand(f.blocks[bb]["term"]["o"]))
            if r.endswith("flushing_merges"):
                flush_edges.append((bb, tt))
            elif r.endswith("flushing_merges)") and r.startswith("Not("):
                flush_edges.append((bb, ff))
        nd = 0
        for bb, sym, tt, ff in bool_switches(f):
            with f.deep():
                d = f.sym_operand(f.blocks[bb]["term"]["o"])
            neg = False
            while d[0] == "un" and d[1] == "Not":
                d, neg = d[2], not neg
            if not (d[0] == "call" and last_seg(d[1]) == "contains" and "self.seen" in render(d)):
                continue
            dupe = ff if neg else tt
            # re-queuing the entry for the buffered path (explicit-empty-key probing) is not a drop: it is delivered from the queue
            def _pushes_pending(g):
                return any(last_seg(fx.callee(xt)) in ("push_back", "push_front", "extend", "append") and xt["args"] and render(g.sym_operand(xt["args"][0])).endswith("self.pending") for x, xt in g.calls())
            requeue = [x for x, xt in f.calls() if (last_seg(fx.callee(xt)) in ("push_back", "push_front", "extend", "append") and xt["args"] and render(f.sym_operand(xt["args"][0])).endswith("self.pending"))
                       or (fx.local_callee(xt) is not None and "::MA::" in fx.callee(xt) and _pushes_pending(fx.local_callee(xt)))]
            reach = f.reachable([dupe], avoid=list(delivered) + list(dup_err) + requeue)
            if not (set(loop_heads) & reach):
                continue  # this duplicate edge never drops silently
            nd += 1
            ctl = any(f.edge_dominates(fb, ft, bb) for fb, ft in flush_edges) or any(f.edge_dominates(pb, raw, bb) for pb, raw, eff, ns in pedges if ns == frozenset(["FirstWins"]))
            if not ctl:
                # the FirstWins test may come after the duplicate test: then every silent way back to the next entry passes it
                fw = [eff for pb, raw, eff, ns in pedges if ns == frozenset(["FirstWins"]) and f.edge_dominates(bb, dupe, pb)]
                ctl = bool(fw) and not (set(loop_heads) & f.reachable([dupe], avoid=list(delivered) + list(dup_err) + requeue + fw))
            ctx.check(ctl, "SIBLING", "C04:SIBLING:silent-drop-only-flushing-or-FirstWins#%d" % nd,
                      "an already-seen key is dropped silently only while flushing merges or under FirstWins",
                      "next_key_seed drops an already-seen key silently on a path controlled neither by `flushing_merges` nor by the FirstWins arm: under LastWins the later entry is lost, under Error nothing is reported", config, ctx.where(f, bb))
        ctx.floor("SIBLING.silent-drops", nd, 2, config)
        # seen.insert dominates every delivered key
        inserts = [b for b, t in f.calls() if last_seg(fx.callee(t)) == "insert" and render(f.sym_operand(t["args"][0])) == "self.seen"]
        for d in delivered:
            ctx.check(any(f.dominates(ib, d) for ib in inserts), "SIBLING", "C04:SIBLING:seen-insert-before-delivery", "the fingerprint is recorded before the key is delivered",
                      "a key can be delivered without being recorded in the seen-set: a later duplicate goes unnoticed", config, ctx.where(f, d))
        # duplicates are looked up with the key's own fingerprint
        for b, t in f.calls():
            if last_seg(fx.callee(t)) == "contains" and render(f.sym_operand(t["args"][0])) == "self.seen":
                with f.deep():
                    a = f.sym_operand(t["args"][1])
                okfp = sym_contains(a, lambda x: x[0] == "call" and ("fingerprint" in x[1]))
                ctx.check(okfp, "SIBLING", "C04:SIBLING:lookup-by-fingerprint", "duplicates are looked up by the key node's fingerprint", "the seen-set is queried with `%s`" % render(a), config, ctx.where(f, b))
        # ---- BALANCE b1
        EV = [v["name"] for v in fx.adt("de::Ev")["variants"]]
        want = {"SeqStart": "+1", "MapStart": "+1", "SeqEnd": "-1", "MapEnd": "-1", "Scalar": None}
        autos = [
            (SKIP, lambda r: r == "depth"),
            ("de::skip_one_node_len", lambda r: r == "depth"),
            ("<de::YamlDeserializer as serde::Deserializer>::deserialize_enum", lambda r: r == "depth"),
        ]
        for name, pred in autos:
            g = fx.fn(name)
            ctx.saw(g)
            eff = depth_effects(g, pred)
            pulls = [b for b, t in g.calls() if last_seg(fx.callee(t)) in ("next", "get")]
            n = 0
            for b, t in ev_switches(g):
                # only switches inside a loop (the skipping loop), identified by being in an SCC
                in_loop = any(b in comp for comp in g.sccs())
                if not in_loop:
                    continue
                n += 1
                arms = dict(zip(t["vals"], t["tgts"]))
                for vi, vn in enumerate(EV):
                    if vn not in want:
                        continue
                    tgt = arms.get(vi, t["tgts"][-1])
                    effs = arm_effects(g, tgt, eff, set(pulls))
                    flat = {e for seq in effs for e in seq}
                    exp = want[vn]
                    okb = (flat == {exp}) if exp else (not flat)
                    ctx.check(okb, "BALANCE", "C04:BALANCE:%s:%s" % (g.name, vn), "%s: depth %s" % (vn, exp or "unchanged"),
                              "node-skipping loop in %s: on %s the depth changes by %s, expected %s — the skipper stops too early or swallows the following entries" % (g.name, vn, sorted(flat) or "nothing", exp or "no change"), config, ctx.where(g, b))
            ctx.floor("BALANCE.%s.loops" % g.name, n, 1, config)
            # loop exit at zero
            zero = False
            from ..rules import compares
            for c in compares(g):
                if c["op"] in ("Eq", "Ne", "Gt") and "depth" in (c["rl"], c["rr"]) and "0" in (c["rl"], c["rr"]):
                    zero = True
            ctx.check(zero, "BALANCE", "C04:BALANCE:%s:exit-at-zero" % g.name, "the loop ends when depth reaches 0", "the skipping loop no longer compares depth with 0", config, ctx.where(g))
            inits = {e for es in eff.values() for e in es if e.startswith("=")}
            ctx.check(inits == {"=1"}, "BALANCE", "C04:BALANCE:%s:enters-at-one" % g.name, "depth starts at 1 after the opening event", "depth is initialised to %s" % sorted(inits), config, ctx.where(g))
        # skip_one_node first match: scalar → Ok, ends → error
        g = fx.fn(SKIP)
        first = [x for x in ev_switches(g) if not any(x[0] in comp for comp in g.sccs())]
        ctx.check(len(first) == 1, "BALANCE", "C04:BALANCE:skip_one_node:first-event", "first-event dispatch found", "skip_one_node's dispatch on the first event not found", config, ctx.where(g))
        for b, t in first:
            arms = dict(zip(t["vals"], t["tgts"]))
            errs = [bb for bb, i, adt, var, fl, ops, s_ in aggregates(g) if adt == "de_error::Error" and var == "UnexpectedContainerEndWhileSkippingNode"]
            for vn in ("SeqEnd", "MapEnd"):
                tgt = arms.get(EV.index(vn), t["tgts"][-1])
                ctx.check(must_pass(g, [tgt], errs), "BALANCE", "C04:BALANCE:skip_one_node:first:%s" % vn, "a container end where a node was expected is an error", "skip_one_node accepts a container end as the node to skip", config, ctx.where(g, tgt))
            tgt = arms.get(EV.index("Scalar"), t["tgts"][-1])
            loops = set().union(*g.sccs()) if g.sccs() else set()
            ctx.check(not (loops & g.reachable([tgt])), "BALANCE", "C04:BALANCE:skip_one_node:first:Scalar", "a scalar is exactly one event", "after a scalar the skipper enters the container loop (skips too much)", config, ctx.where(g, tgt))
        # ---- TABLE: fingerprint type
        fp = fx.adt("de::KeyFingerprint")
        derived = {norm(i["trait"]) for i in fx.impls if i.get("self_adt") and norm(i["self_adt"]) == "de::KeyFingerprint" and i.get("derived") and i.get("trait")}
        manual = {norm(i["trait"]) for i in fx.impls if i.get("self_adt") and norm(i["self_adt"]) == "de::KeyFingerprint" and not i.get("derived") and i.get("trait")}
        need = {"std::cmp::PartialEq", "std::cmp::Eq", "std::hash::Hash"}
        ctx.check(need <= derived and not (need & manual), "TABLE", "C04:TABLE:fingerprint:derives", "KeyFingerprint derives PartialEq, Eq, Hash together", "KeyFingerprint's PartialEq / Eq / Hash are not all derived (derived %s, manual %s): equality and hashing may disagree" % (sorted(derived), sorted(manual)), config, None)
        sc = [v for v in fp["variants"] if v["name"] == "Scalar"]
        fnames = {x["name"]: x["ty"] for x in sc[0]["fields"]} if sc else {}
        foreign = {n_: t_ for n_, t_ in fnames.items() if n_ not in ("value", "tag") and not ("tag" in n_ and "String" in t_)}
        ctx.check(bool(sc) and {"value", "tag"} <= set(fnames) and not foreign, "TABLE", "C04:TABLE:fingerprint:scalar-fields", "scalar fingerprint = text + tag (kind, and the tag's text): %s" % sorted(fnames),
                  "scalar fingerprint fields are %s: key identity is the scalar's text and tag only — location / anchor / style must not take part" % sorted(fnames), config, None)
        # application tags all share one tag kind: the fingerprint must carry their text, or `!foo a` and `!bar a` are one key
        kf = fx.fn("de::KeyNode::fingerprint")
        ctx.saw(kf)
        okct = False
        for b, i, adt, var, fl, ops, s_ in aggregates(kf):
            if adt == "de::KeyFingerprint" and var == "Scalar":
                with kf.deep():
                    extra = [render(kf.sym_operand(o)) for n_, o in zip(fl, s_["rv"]["ops"]) if n_ not in ("value", "tag")]
                okct = any("raw_tag" in e for e in extra)
        ctx.check(okct, "TABLE", "C04:TABLE:fingerprint:application-tag-text", "the fingerprint of a scalar includes the text of an application tag",
                  "KeyNode::fingerprint builds scalar fingerprints without the tag's text: all application tags share SfTag::Other, so keys that differ only in such a tag are treated as duplicates", config, ctx.where(kf))
        tys = " ".join(x["ty"] for v in fp["variants"] for x in v["fields"])
        ctx.check("Location" not in tys and "ScalarStyle" not in tys, "TABLE", "C04:TABLE:fingerprint:no-location", "no location / style inside fingerprints", "fingerprints carry a location or style", config, None)
