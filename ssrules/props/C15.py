"""C15 — a call's result depends only on its arguments, not on earlier or nested calls (DESIGN §4 C15)."""
import re

from ..mir import MissingAnchor, sym_contains, norm, Fn
from ..rules import render, aggregates, last_seg, bool_switches, must_pass, local_uses
from .. import proto

EXPLANATION = ("STATE census and guard rules over the resolved MIR / static tables: every static or thread-local with interior "
               "mutability is in a reviewed table (anchor identity store, missing-field fallback cell, two write-once caches); "
               "the anchor store is written only by anchor_store's own functions; with_document_scope resets before, constructs a "
               "guard whose Drop resets, before invoking the closure, and the guard is dropped on the unwind edge as well; "
               "with_anchor_context likewise pushes, constructs its guard, and pops in Drop; the fallback cell is written only by "
               "its guard's new / replace_location / drop, every guard is bound to a named local or the `fallback_guard` field, "
               "no guard type is Clone / Copy, nothing in the crate calls mem::forget / ManuallyDrop::new / Box::leak (matcher "
               "self-checked on a positive control); user Deserialize code only ever runs inside a document scope; no iteration "
               "over a randomly seeded hash collection reaches output without being order-normalised.")
ASSUMPTIONS = ["rustc's MIR (opt-level 0, drops elaborated) faithfully represents the compiled crate",
               "equality of results across call histories is a runtime statement; the rules decide the absence of hidden, surviving state",
               "a from_str nested inside a user Deserialize impl resets the outer call's anchor identity table (DESIGN §6.8): each call's own result is still history-independent; deliberately not flagged"]

INTERIOR = re.compile(r"\b(Cell|RefCell|UnsafeCell|Mutex|RwLock|OnceLock|OnceCell|LazyLock|LazyCell|Atomic\w+|LazyStorage|EagerStorage)\b")
STATIC_TABLE = {
    "anchor_store::STATE": "thread-local anchor identity store; taken out whole for the duration of every document and put back by with_document_scope's guard",
    "de_error::MISSING_FIELD_FALLBACK": "thread-local fallback location; saved / restored by MissingFieldLocationGuard",
    "tags::TAG_LOOKUP_MAP": "LazyLock: written once on first use, immutable afterwards, content independent of any call",
    "ser_quoting::is_numeric_looking::RE": "OnceLock<Regex>: compiled once from a constant pattern",
}
STATE_WRITERS = {"anchor_store::with_document_scope", "<anchor_store::with_document_scope::ScopeGuard as std::ops::Drop>::drop", "anchor_store::with_anchor_context", "<anchor_store::Guard as std::ops::Drop>::drop",
                 "anchor_store::store_rc", "anchor_store::store_arc", "anchor_store::store_rc_recursive", "anchor_store::store_arc_recursive"}
FALLBACK_WRITERS = {"de_error::MissingFieldLocationGuard::new", "de_error::MissingFieldLocationGuard::cleared", "de_error::MissingFieldLocationGuard::replace_location",
                    "<de_error::MissingFieldLocationGuard as std::ops::Drop>::drop"}
GUARDS = ["anchor_store::Guard", "anchor_store::with_document_scope::ScopeGuard", "de_error::MissingFieldLocationGuard"]
FORGET = re.compile(r"(^|::)(mem::forget|ManuallyDrop::new|Box::leak|mem::ManuallyDrop|forget_unsized)($|::)|ManuallyDrop<.*>::new")
HASH_ITER = {"iter", "iter_mut", "into_iter", "drain", "keys", "values", "values_mut", "retain", "into_keys", "into_values", "extract_if"}
HASH_ITER_OK = {"path_map::PathMap::find_unique_by": "order-independent: returns a match only if it is the unique one"}


def _peel(sym):
    """strip Deref / DerefMut / as_mut_slice wrappers: `sort(deref_mut(v))` sorts `v`."""
    while True:
        while sym[0] in ("ref", "deref"):
            sym = sym[1]
        if sym[0] == "call" and last_seg(sym[1]) in ("deref", "deref_mut", "as_mut_slice", "as_mut", "as_slice") and sym[2]:
            sym = sym[2][0]
            continue
        return render(sym)


def logical_static(path):
    return re.sub(r"::\{constant#\d+\}.*$", "", path)


def forget_calls(fx):
    out = []
    for f in fx.fns.values():
        for b, t in f.calls():
            c = fx.callee(t)
            if FORGET.search(c) or FORGET.search(fx.callee_decl(t)):
                out.append((f, b, c))
    return out


def unwind_drops(f, call_block):
    """types dropped on the unwind path of the call in `call_block`."""
    t = f.blocks[call_block]["term"]
    uw = t.get("uw")
    out = []
    if not isinstance(uw, int):
        return out
    seen = set()
    st = [uw]
    while st:
        x = st.pop()
        if x in seen:
            continue
        seen.add(x)
        tt = f.blocks[x]["term"]
        if tt["k"] == "drop":
            out.append(tt.get("pty", ""))
        for s2 in f.targets(x, unwind=True):
            st.append(s2)
    return out


def _state_ty(fx):
    """type of the thread-local anchor state (the `T` of `STATE: RefCell<T>`)"""
    for s_ in fx.statics:
        if logical_static(s_["path"]) == "anchor_store::STATE":
            m = re.search(r"RefCell<([\w:]+)>", s_["ty"])
            if m:
                return m.group(1)
    raise MissingAnchor("thread-local anchor_store::STATE not found")


def _whole_state_swaps(fx, f, st_ty, which):
    """blocks of `f` that call LocalKey::with(STATE, closure) whose closure swaps the *whole* state: `mem::take` (which = take)
    or `mem::replace` (which = replace) instantiated at the state's own type and applied to the borrowed cell itself"""
    out = []
    for b, t in f.calls():
        if not fx.callee(t).endswith("LocalKey::with") or render(f.sym_operand(t["args"][0])) != "const:anchor_store::STATE":
            continue
        sym = f.sym_operand(t["args"][1])
        if sym[0] != "mkclosure":
            continue
        k = fx.fn_opt(norm(sym[1]))
        if k is None:
            continue
        for kb, kt in k.calls():
            if fx.callee(kt) == "std::mem::" + which and (kt["f"].get("args") or [None])[0] == st_ty:
                with k.deep():
                    a0 = render(k.sym_operand(kt["args"][0]))
                if re.match(r"^deref_mut\(borrow_mut\(\w+\)\)$", a0) and kt["dest"]["l"] == 0 and not kt["dest"]["pr"]:
                    out.append(b)
    return out


def rule_reset_complete(ctx, fx, config, prop="C15"):
    """STATE:scope-swaps-whole-state — a document runs on a fresh anchor state and leaves none behind: the scope takes the
    *whole* thread-local state out on entry (`mem::take` at the state's own type, so a field added later is covered) and its
    guard's Drop puts the enclosing call's state back with `mem::replace`, handing the finished document's state out of the
    borrow.  Nothing per-field is left to forget; what this rule fixes is that both swaps are wholesale, that the value put
    back is the one taken (not a fresh default: that would wipe the enclosing call's table), and that no other function
    clears or replaces the state."""
    ds = fx.fn(proto.SCOPE)
    ctx.saw(ds)
    st_ty = _state_ty(fx)
    takes = _whole_state_swaps(fx, ds, st_ty, "take")
    ctx.check(len(takes) == 1, "STATE", "%s:STATE:scope-swaps-whole-state:take" % prop, "with_document_scope takes the whole `%s` out of the thread-local" % st_ty,
              "with_document_scope no longer takes the whole anchor state out on entry (found %d whole-state takes): a document starts on what an earlier or enclosing call left" % len(takes), config, ctx.where(ds))
    guards = [f for f in fx.fns.values() if f.d.get("impl_trait") == "std::ops::Drop" and f.file.endswith("anchor_store.rs") and _whole_state_swaps(fx, f, st_ty, "replace")]
    if not ctx.check(len(guards) == 1, "STATE", "%s:STATE:scope-swaps-whole-state:restore" % prop, "one guard's Drop puts the enclosing state back with a whole-state replace",
                     "no (or more than one) Drop impl in anchor_store.rs replaces the whole anchor state: the finished document's state stays in the thread-local", config, ctx.where(ds)):
        return None
    gd = guards[0]
    ctx.saw(gd)
    # the value put back is the one the guard was built with: replace's 2nd argument is an upvar of the closure that resolves,
    # in Drop::drop, to the guard's own field (through take / unwrap*), and the guard's field is built from the take's result
    rb = _whole_state_swaps(fx, gd, st_ty, "replace")[0]
    with gd.deep():
        fed = render(gd.sym_operand(gd.blocks[rb]["term"]["args"][1]))
    src_ok = False
    with gd.deep():
        for b, t in gd.calls():
            if last_seg(fx.callee(t)) in ("unwrap_or_default", "unwrap", "expect", "unwrap_or_else", "take") and re.search(r"self\.\w+", render(gd.sym_operand(t["args"][0]))):
                src_ok = True
    gadt = gd.d.get("impl_adt") or ""
    built = []
    with ds.deep():
        for b, i, adt, var, fl, ops, s_ in aggregates(ds):
            if adt == gadt or (gadt and adt.endswith(gadt.rsplit("::", 1)[-1])):
                built.append((b, " ".join(render(o) for o in ops)))
    from_take = bool(built) and all(re.search(r"with\(const:anchor_store::STATE", r) for b, r in built)
    ctx.check(src_ok and from_take, "STATE", "%s:STATE:scope-swaps-whole-state:restores-what-it-took" % prop, "the guard carries the state taken on entry and puts that back",
              "the state put back on exit is not the one taken on entry (guard built from %s): a nested call wipes or corrupts the enclosing call's anchor table" % [r[:60] for b, r in built], config, ctx.where(gd))
    return gd


def run(ctx):
    for config in ctx.configs:
        fx = ctx.facts(config)
        # ---- 1. census of hidden state
        seen = set()
        for s_ in fx.statics:
            name = logical_static(s_["path"])
            interior = bool(INTERIOR.search(s_["ty"])) or s_["mutable"] or s_["thread_local"]
            if not interior:
                ctx.ok("STATE", "C15:STATE:static:%s" % name, "no interior mutability (%s)" % s_["ty"], config, "%s:%s" % (s_["file"], s_["line"]), nontrivial=True)
                continue
            seen.add(name)
            ctx.check(name in STATIC_TABLE, "STATE", "C15:STATE:static:%s" % name, "reviewed: %s" % STATIC_TABLE.get(name, ""),
                      "a static / thread-local with interior mutability (`%s`: %s) is not in the reviewed table: state that survives a call" % (name, s_["ty"]), config, "%s:%s" % (s_["file"], s_["line"]))
        ctx.floor("STATE.interior-statics", len(seen), 4, config)
        for name in STATIC_TABLE:
            ctx.check(name in seen, "STATE", "C15:STATE:table-row:%s" % name, "table row matches a static", "stale table row: `%s` no longer exists (re-review the table)" % name, config, None)
        # ---- 2. writers of the anchor store
        writers = set()
        readers = set()
        for f in fx.fns.values():
            if not f.file.endswith("anchor_store.rs"):
                # the LocalKey is private to the module; anything outside naming it would be a new path
                for b, t in f.calls():
                    for a in t["args"]:
                        if render(f.sym_operand(a)) == "const:anchor_store::STATE":
                            ctx.bad("STATE", "C15:STATE:anchor-store:foreign-access:%s" % f.npath, "the anchor store is accessed outside anchor_store.rs", config, ctx.where(f, b))
                continue
            for b, t in f.calls():
                c = fx.callee(t)
                rootp = fx.fns[f.root].npath if f.kind == "closure" and f.root in fx.fns else f.npath
                if c == "std::cell::RefCell::borrow_mut":
                    writers.add(rootp)
                elif c == "std::cell::RefCell::borrow":
                    readers.add(rootp)
        extra = writers - STATE_WRITERS
        ctx.check(not extra, "STATE", "C15:STATE:anchor-store:writers", "the anchor store is mutated only by %d reviewed functions" % len(writers),
                  "the anchor store is also mutated by %s (unreviewed writer of state that outlives a call)" % sorted(extra), config, None)
        ctx.floor("STATE.anchor-store-writers", len(writers), 6, config)
        # ---- 3. with_document_scope
        ds = fx.fn(proto.SCOPE)
        ctx.saw(ds)
        gd = rule_reset_complete(ctx, fx, config)
        gname = (gd.d.get("impl_adt") or "?").rsplit("::", 1)[-1] if gd is not None else "?"
        takes = _whole_state_swaps(fx, ds, _state_ty(fx), "take")
        guards = [b for b, i, adt, var, fl, ops, s_ in aggregates(ds) if adt.endswith("::" + gname)]
        fcalls = [b for b, t in ds.calls() if t["f"].get("name") == "call_once" and render(ds.sym_operand(t["args"][0])) == "f"]
        ctx.check(len(fcalls) == 1, "STATE", "C15:STATE:document-scope:closure-call", "the closure is invoked exactly once", "with_document_scope no longer invokes its closure exactly once", config, ctx.where(ds))
        for fb in fcalls:
            ctx.check(any(ds.dominates(rb, fb) for rb in takes), "STATE", "C15:STATE:document-scope:reset-before", "the state is set aside before the user code", "user code can run on a stale anchor table (state not taken out before)", config, ctx.where(ds, fb))
            ctx.check(any(ds.dominates(gb, fb) for gb in guards), "STATE", "C15:STATE:document-scope:guard-before", "the restoring guard is constructed before the user code runs", "the restoring guard is constructed after the user code (a panic / error would leave this document's table in place and lose the enclosing call's)", config, ctx.where(ds, fb))
            ud = unwind_drops(ds, fb)
            ctx.check(any(gname in x for x in ud), "STATE", "C15:STATE:document-scope:unwind-drop", "the guard is dropped on the unwind edge of the user call", "a panicking visitor unwinds past with_document_scope without dropping the restoring guard", config, ctx.where(ds, fb))
            # on the normal path the guard is dropped (drop terminator or std::mem::drop) before returning
            drops = [b for b in ds.live_blocks if (ds.blocks[b]["term"]["k"] == "drop" and gname in ds.blocks[b]["term"].get("pty", "")) or (ds.blocks[b]["term"]["k"] == "call" and fx.callee(ds.blocks[b]["term"]) == "std::mem::drop" and gname in str(ds.blocks[b]["term"]["f"].get("args")))]
            ctx.check(must_pass(ds, [ds.blocks[fb]["term"]["t"]], drops), "STATE", "C15:STATE:document-scope:drop-after", "the guard is dropped on every normal path after the user code", "the restoring guard can survive with_document_scope (forgotten / moved out)", config, ctx.where(ds, fb))
        # ---- 4. with_anchor_context
        ac = fx.fn("anchor_store::with_anchor_context")
        ctx.saw(ac)
        fcalls = [b for b, t in ac.calls() if t["f"].get("name") == "call_once" and render(ac.sym_operand(t["args"][0])) == "f"]
        guards = [b for b, i, adt, var, fl, ops, s_ in aggregates(ac) if adt == "anchor_store::Guard"]
        guarded = [fb for fb in fcalls if any(ac.dominates(gb, fb) for gb in guards)]
        ctx.check(len(fcalls) >= 1 and len(guarded) >= 1, "STATE", "C15:STATE:anchor-context:shape", "the user closure is called under the context guard (%d call(s), %d guarded)" % (len(fcalls), len(guarded)), "with_anchor_context changed shape: %d closure calls, %d guarded" % (len(fcalls), len(guarded)), config, ctx.where(ac))
        for fb in guarded:
            ctx.check(any("anchor_store::Guard" in x for x in unwind_drops(ac, fb)), "STATE", "C15:STATE:anchor-context:unwind-drop", "the context guard is dropped on the unwind edge", "a panicking visitor leaves the anchor context pushed", config, ctx.where(ac, fb))
            pushes = [b for b, t in ac.calls() if fx.callee(t) == "std::thread::LocalKey::with"]
            ctx.check(any(ac.dominates(pb, fb) for pb in pushes), "STATE", "C15:STATE:anchor-context:push-before", "the context is pushed before the user code", "the anchor context is not pushed before the user code", config, ctx.where(ac, fb))
        gdrop = fx.fn("<anchor_store::Guard as std::ops::Drop>::drop")
        pops = [1 for g in fx.family(gdrop) for b, t in g.calls() if last_seg(fx.callee(t)) == "pop"]
        ctx.check(bool(pops), "STATE", "C15:STATE:anchor-context:drop-pops", "Guard::drop pops the context stack", "Guard::drop no longer pops the context stack", config, ctx.where(gdrop))
        # ---- 5. the fallback cell
        fw = set()
        for f in fx.fns.values():
            if not f.file.endswith("de_error.rs"):
                continue
            for b, t in f.calls():
                c = fx.callee(t)
                if c in ("std::cell::Cell::set", "std::cell::Cell::replace", "std::cell::Cell::take", "std::cell::Cell::swap"):
                    with f.deep():
                        pass
                    rootp = fx.fns[f.root].npath if f.kind == "closure" and f.root in fx.fns else f.npath
                    fw.add(rootp)
        ctx.check(fw and fw <= FALLBACK_WRITERS, "STATE", "C15:STATE:fallback-cell:writers", "the fallback cell is written only by its guard", "the fallback cell is also written by %s" % sorted(fw - FALLBACK_WRITERS), config, None)
        gnew = "de_error::MissingFieldLocationGuard::new"
        n = 0
        for f in fx.fns.values():
            for b, t in f.calls():
                if fx.callee(t) != gnew:
                    continue
                n += 1
                ctx.saw(f)
                d = t["dest"]
                okb = False
                if not d["pr"] and f.local_name(d["l"]):
                    okb = True
                elif not d["pr"]:
                    # moved into Some(..) stored in a `fallback_guard` field
                    for bb, i, s_ in f.stmts():
                        if s_["k"] == "assign" and s_["p"]["pr"] and render(f.sym_place(s_["p"])).endswith(".fallback_guard"):
                            with f.deep():
                                v = f.sym_rvalue(s_["rv"])
                            if sym_contains(v, lambda x: x[0] == "call" and x[1] == gnew):
                                okb = True
                ctx.check(okb, "STATE", "C15:STATE:fallback-guard:bound:%s" % f.npath, "the guard is bound to a named local or the fallback_guard field (lives for the scope)",
                          "a MissingFieldLocationGuard is created as a temporary: it restores the previous fallback immediately and the location is lost — or worse, never restored", config, ctx.where(f, b))
        ctx.floor("STATE.fallback-guards", n, 4, config)
        # the document scope opens with no inherited fallback: a guard that clears the cell (saving the enclosing call's value) is
        # alive across the user code of every entry point, and dropped on the unwind edge too
        ds2 = fx.fn("anchor_store::with_document_scope")
        ucalls = [b for b, t in ds2.calls() if t["f"].get("name") == "call_once" and render(ds2.sym_operand(t["args"][0])) == "f"]
        clr = [b for b, t in ds2.calls() if fx.callee(t) == "de_error::MissingFieldLocationGuard::cleared"]
        for ub in ucalls:
            ctx.check(any(ds2.dominates(cb, ub) for cb in clr), "STATE", "C15:STATE:document-scope:fallback-cleared", "the enclosing call's error-location fallback is set aside before the user code of a (possibly nested) call runs",
                      "with_document_scope runs the call without setting the thread's error-location fallback aside: a parse nested inside a user Deserialize impl reports its location-less errors at a position of the enclosing document", config, ctx.where(ds2, ub))
            ctx.check(any("MissingFieldLocationGuard" in x for x in unwind_drops(ds2, ub)), "STATE", "C15:STATE:document-scope:fallback-unwind", "the fallback guard is dropped on the unwind edge of the user call",
                      "a panicking visitor unwinds past with_document_scope without restoring the enclosing call's fallback", config, ctx.where(ds2, ub))
        gcl = fx.fn("de_error::MissingFieldLocationGuard::cleared")
        okc = False
        for g in fx.family(gcl):
            for b, t in g.calls():
                if fx.callee(t) in ("std::cell::Cell::replace", "std::cell::Cell::take"):
                    with g.deep():
                        a = render(g.sym_operand(t["args"][1])) if len(t["args"]) > 1 else "None"
                    okc = okc or "None" in a
        ctx.check(okc, "STATE", "C15:STATE:fallback-guard:cleared-clears", "MissingFieldLocationGuard::cleared replaces the cell's value by None and keeps the old one", "MissingFieldLocationGuard::cleared no longer empties the fallback cell", config, ctx.where(gcl))
        # who READS the fallback: only Serde's location-less static constructors (the `serde::de::Error` impl), which run while
        # the user code of the call is on the stack — i.e. inside the document scope, where the cell holds this call's own value.
        # Read after the scope has returned (an entry point polishing its error) the cell holds the *enclosing* call's value again.
        att = fx.fn("de_error::maybe_attach_fallback_location")
        ctx.saw(att)
        readers = sorted({g.npath for g, _b in fx.callers.get(att.npath, [])})
        okr = bool(readers) and all(r.startswith("<de_error::Error as serde::de::Error>::") for r in readers)
        ctx.check(okr, "STATE", "C15:STATE:fallback-cell:readers", "the fallback location is attached only by Serde's static error constructors (%d callers)" % len(readers),
                  "the fallback location is also attached by %s: outside the document scope the cell holds the enclosing call's value, so a nested call's error is stamped with a position of the outer document" % [r for r in readers if not r.startswith("<de_error::Error as serde::de::Error>::")], config, ctx.where(att))
        cell_readers = set()
        for g in fx.fns.values():
            if not g.file.endswith("de_error.rs"):
                continue
            for b, t in g.calls():
                if fx.callee(t) in ("std::cell::Cell::get",):
                    cell_readers.add(fx.fns[g.root].npath if g.kind == "closure" and g.root in fx.fns else g.npath)
        ctx.check(cell_readers <= {att.npath} and bool(cell_readers), "STATE", "C15:STATE:fallback-cell:get", "the cell is read only by maybe_attach_fallback_location", "the fallback cell is also read by %s" % sorted(cell_readers - {att.npath}), config, ctx.where(att))
        gd2 = fx.fn("<de_error::MissingFieldLocationGuard as std::ops::Drop>::drop")
        okr = False
        for g in fx.family(gd2):
            for b, t in g.calls():
                if fx.callee(t) == "std::cell::Cell::set":
                    with g.deep():
                        a = render(g.sym_operand(t["args"][1]))
                    okr = okr or a.endswith("prev")
        ctx.check(okr, "STATE", "C15:STATE:fallback-guard:restores-prev", "drop restores the saved previous value", "MissingFieldLocationGuard::drop no longer restores the previous fallback location", config, ctx.where(gd2))
        # every guard's drop performs its restore on every path (no early return — e.g. `if thread::panicking() { return }`
        # would leave the thread-local state of a call that unwound through user code behind for the next call)
        nd = 0
        for gname in GUARDS:
            gd = fx.fn_opt("<%s as std::ops::Drop>::drop" % gname)
            if gd is None:
                raise MissingAnchor("Drop impl of %s" % gname)
            ctx.saw(gd)
            eff = [b for b, t in gd.calls() if fx.callee(t) == "std::thread::LocalKey::with" or fx.callee(t).startswith("anchor_store::")]
            nd += len(eff)
            ctx.check(bool(eff) and must_pass(gd, [0], eff), "STATE", "C15:STATE:guard-drop-unconditional:%s" % gname, "drop restores the thread-local state on every path",
                      "%s::drop can return without restoring the thread-local state (conditional restore): after a caught panic / that condition the next call on the thread starts from the previous call's state" % gname, config, ctx.where(gd))
        ctx.floor("STATE.guard-drop-effects", nd, 3, config)
        # ---- 6. guards are neither Clone nor Copy; nothing forgets
        for gname in GUARDS:
            impls = {norm(i["trait"]) for i in fx.impls if i.get("self_adt") and norm(i["self_adt"]) == gname and i.get("trait")}
            ctx.check(gname in fx.adts, "STATE", "C15:STATE:guard-type:%s" % gname, "guard type exists", "guard type %s not found" % gname, config, None)
            ctx.check(not (impls & {"std::clone::Clone", "std::marker::Copy"}), "STATE", "C15:STATE:guard-not-clone:%s" % gname, "guard is neither Clone nor Copy", "%s implements %s: a copy could restore stale state twice / out of order" % (gname, sorted(impls & {"std::clone::Clone", "std::marker::Copy"})), config, None)
        fc = forget_calls(fx)
        ctx.check(not fc, "STATE", "C15:STATE:no-forget", "no mem::forget / ManuallyDrop::new / Box::leak in the crate", "%s: a guard (or the state it protects) can be leaked" % [(f.npath, c) for f, b, c in fc], config, ctx.where(fc[0][0], fc[0][1]) if fc else None)
        # positive control for the matcher
        fake = {"path": "control::f", "kind": "fn", "nargs": 0, "locals": [{"ty": "()"}], "blocks": [{"cleanup": False, "stmts": [], "term": {"k": "call", "f": {"path": "std::mem::forget", "name": "forget", "args": ["T"], "local": False, "res": "std::mem::forget"}, "args": [], "dest": {"l": 0, "pr": []}, "t": None, "uw": "continue"}}]}
        hit = FORGET.search("std::mem::forget") and FORGET.search("std::mem::ManuallyDrop::<T>::new".replace("::<T>", "")) and FORGET.search("std::boxed::Box::leak")
        ctx.check(bool(hit), "STATE", "C15:STATE:no-forget:positive-control", "the forget matcher matches mem::forget, ManuallyDrop::new and Box::leak", "the forget matcher no longer matches its positive controls", config, None)
        # ---- 7. user code only inside a scope
        n3 = proto.check_p3(ctx, fx, config)
        ctx.floor("PROTO.p3", n3, 5, config)
        # ---- 8. hash-ordered iteration never reaches output un-normalised
        k = 0
        for f in sorted(fx.fns.values(), key=lambda f: f.npath):
            for b, t in f.calls():
                c = fx.callee(t)
                if not (("HashMap" in c or "HashSet" in c or "hash_map::" in c or "hash_set::" in c) and last_seg(c) in HASH_ITER):
                    continue
                k += 1
                ctx.saw(f)
                key = "C15:HASHORDER:%s:%s#%d" % (f.npath, last_seg(c), k)
                if f.npath in HASH_ITER_OK:
                    ctx.ok("HASHORDER", "C15:HASHORDER:%s" % f.npath, "allowed: %s" % HASH_ITER_OK[f.npath], config, ctx.where(f, b))
                    continue
                # the iteration is collected and sorted, or the loop only fills a Vec that is sorted afterwards
                sorts = [(sb, st) for sb, st in f.calls() if last_seg(fx.callee(st)).startswith("sort")]
                okh = False
                for sb, st in sorts:
                    with f.deep():
                        a = f.sym_operand(st["args"][0])
                    if sym_contains(a, lambda x: x[0] == "call" and x[3] == b if len(x) > 3 else False):
                        okh = True
                    # loop form: pushes inside the loop body go to one local that is sorted after the loop
                    sub = {x for x in f.live_blocks if f.dominates(b, x)}
                    comps = [cmp_ for cmp_ in f.sccs(sub) if any(last_seg(fx.callee(f.blocks[x]["term"])) == "next" and f.blocks[x]["term"]["k"] == "call" for x in cmp_ if f.blocks[x]["term"]["k"] == "call")]
                    tgt = _peel(f.sym_operand(st["args"][0]))
                    for cmp_ in comps:
                        pushes = [_peel(f.sym_operand(f.blocks[x]["term"]["args"][0])) for x in cmp_ if f.blocks[x]["term"]["k"] == "call" and last_seg(fx.callee(f.blocks[x]["term"])) == "push"]
                        if pushes and all(p_ == tgt for p_ in pushes) and sb not in cmp_ and sb in f.reachable(list(cmp_)):
                            okh = True
                ctx.check(okh, "HASHORDER", "C15:HASHORDER:%s" % f.npath, "iteration over a randomly seeded hash collection is order-normalised (sorted) before use",
                          "`%s` iterates a randomly seeded hash collection and the order reaches the result unsorted: the same call renders differently from run to run" % c, config, ctx.where(f, b))
        feats = set(fx.data.get("features") or [])
        ctx.floor("HASHORDER.sites", k, (3 + (1 if "miette" in feats else 0)) if "validator" in feats else 0, config)
