"""C17 — rendered error reports are terminal-safe, cropped and show the right line (DESIGN §4 C17)."""
import re
from ..mir import MissingAnchor, sym_contains, norm
from ..rules import render, aggregates, last_seg, bool_switches, must_pass, switch_edges, int_consts, compares

EXPLANATION = ("CHOKE / TAINT / SIBLING rules over the resolved MIR: every formatter write of a rendered report goes through one "
               "sanitising fmt::Write adapter — the public Display / render* paths reach the renderers only through the function "
               "that wraps the formatter in that adapter, the unsanitised renderers are called only by each other and by the "
               "adapter's inner Display, and the adapter forwards a chunk unchanged only on the `clean` edge of the cleanliness "
               "predicate and otherwise forwards the sanitiser's output; the sanitiser and the predicate agree on the character "
               "classes (C0 except LF/TAB, DEL, C1). The miette adapter builds its source, messages and labels only from "
               "sanitised or constant / numeric text. The vertical context window is computed with the same constant (2 lines "
               "either side) in the three places that compute it. Cropping arithmetic and marker placement are value-level and "
               "not decided; absence of panics in the renderers is covered by C01.")
ASSUMPTIONS = ["rustc's MIR (opt-level 0) faithfully represents the compiled crate",
               "annotate-snippets' plain renderer and miette add no control characters of their own",
               "cropping arithmetic per column x radius x width and marker placement are not decided (DESIGN §4 C17)"]

SAN = "de_snipped::sanitize_terminal_snippet_preserve_len"
CLEAN = "de_snipped::is_terminal_snippet_clean"
ENTRY = "de_error::fmt_error_rendered"
ADAPTER_WRITE = "<de_error::TerminalSafe as std::fmt::Write>::write_str"


def takes_formatter(f):
    return any("std::fmt::Formatter" in l["ty"] for l in f.locals[1:f.nargs + 1])


def rule_ring_accounting(ctx, fx, config):
    """WHO-WRITES:ring — the reader's recent-bytes window knows where it starts (`ring_start_offset`, `ring_start_line`)
    because one function, `push_ring_bytes`, accounts for every byte pushed in and every byte (and newline) evicted.  A byte
    pushed into the ring anywhere else — the buffer overwrites its oldest byte when full — leaves the start line behind, and
    the snippet of a reader error shows the right line numbers over the wrong lines."""
    allowed = {"ring_reader::RingReader::push_ring_bytes"}
    n, bad = 0, []
    for f in sorted(fx.fns.values(), key=lambda g: g.npath):
        if not f.file.endswith("ring_reader.rs") or f.npath.startswith("ring_reader::tests") or f.npath.startswith("ring_reader::FixedRingBuffer"):
            continue
        for b, t in f.calls():
            c = last_seg(fx.callee(t))
            if c in ("push_back", "push_front", "push", "extend", "extend_from_slice", "append") and t["args"]:
                with f.deep():
                    a0 = render(f.sym_operand(t["args"][0]))
                if re.search(r"self\.ring$", a0):
                    n += 1
                    ctx.saw(f)
                    root = fx.fns[f.root].npath if f.kind == "closure" and f.root in fx.fns else f.npath
                    if root not in allowed:
                        bad.append("%s (line %s)" % (f.name, t.get("ln")))
    ctx.check(not bad, "WHO-WRITES", "C17:WHO-WRITES:ring", "bytes enter the recent-bytes window through push_ring_bytes only",
              "the recent-bytes ring is also filled by %s, which does not account for evicted newlines: `ring_start_line` falls behind and reader-side snippets show the wrong lines under the right numbers" % ", ".join(bad), config, None)
    ctx.floor("WHO-WRITES.ring-pushes", n, 1, config)
    pr = fx.fn("ring_reader::RingReader::push_ring_bytes")
    lines = [b for b, i, s_ in pr.stmts() if s_["k"] == "assign" and s_["p"]["pr"] and render(pr.sym_place(s_["p"])) == "self.ring_start_line"]
    pops = [b for b, t in pr.calls() if last_seg(fx.callee(t)) == "pop_front"]
    ctx.check(bool(lines) and bool(pops) and all(any(pr.dominates(pb, lb) for pb in pops) for lb in lines), "WHO-WRITES", "C17:WHO-WRITES:ring:eviction-counts-lines", "an evicted newline advances the window's start line",
              "push_ring_bytes no longer advances `ring_start_line` when it evicts a byte", config, ctx.where(pr))


def run(ctx):
    for config in ctx.configs:
        fx = ctx.facts(config)
        rule_ring_accounting(ctx, fx, config)
        entry = fx.fn(ENTRY)
        aw = fx.fn(ADAPTER_WRITE)
        ctx.saw(entry)
        ctx.saw(aw)
        files = ("de_error.rs", "snippet.rs")
        U = {f.npath: f for f in fx.fns.values() if f.file.endswith(files) and f.kind in ("fn", "assoc") and takes_formatter(f)
             and not f.d.get("impl_trait") and f.npath != ENTRY}
        ctx.floor("CHOKE.unsanitised-renderers", len(U), 7, config)
        inner_display = [f for f in fx.fns.values() if f.d.get("impl_trait") == "std::fmt::Display" and f.npath.startswith("<de_error::fmt_error_rendered::")]
        allowed_callers = set(U) | {f.npath for f in inner_display}
        # who may call an unsanitised renderer
        for name, f in sorted(U.items()):
            ctx.saw(f)
            callers = {c.root and fx.fns[c.root].npath if c.kind == "closure" and c.root in fx.fns else c.npath for c, b in fx.callers.get(name, [])}
            extra = callers - allowed_callers
            ctx.check(not extra, "CHOKE", "C17:CHOKE:callers:%s" % name, "called only from other unsanitised renderers / the adapter's inner Display",
                      "the unsanitised renderer %s is also called from %s: that path writes input-derived text to the formatter without passing the sanitising adapter" % (name, sorted(extra)), config, ctx.where(f))
        # the entry: wraps the formatter in the adapter and writes only through it
        direct = []
        via_adapter = False
        for b, t in entry.calls():
            c = fx.callee(t)
            cd = fx.callee_decl(t)
            if c in U:
                direct.append(c)
            if last_seg(cd) in ("write_fmt", "write_str", "write_char"):
                st = str(t["f"].get("self_ty") or t["f"].get("impl_self") or (t["f"].get("args") or [""])[0])
                if "TerminalSafe" in st:
                    via_adapter = True
                else:
                    direct.append("%s on %s" % (cd, st))
        ctx.check(via_adapter and not direct, "CHOKE", "C17:CHOKE:entry-wraps", "fmt_error_rendered writes only through the TerminalSafe adapter",
                  "fmt_error_rendered writes to the formatter without the sanitising adapter (%s)" % direct, config, ctx.where(entry))
        ctx.check(len(inner_display) == 1 and any(fx.callee(t) in U for b, t in inner_display[0].calls()), "CHOKE", "C17:CHOKE:inner-display", "the adapter's inner Display runs the renderer", "inner Display of fmt_error_rendered not found", config, ctx.where(entry))
        # the adapter is constructed around the caller's formatter only in the entry
        makers = {f.npath for f in fx.fns.values() for b, i, adt, var, fl, ops, s_ in aggregates(f) if adt == "de_error::TerminalSafe"}
        ctx.check(makers == {ENTRY}, "CHOKE", "C17:CHOKE:adapter-constructed-in-entry", "TerminalSafe is constructed only in fmt_error_rendered", "TerminalSafe is constructed in %s" % sorted(makers), config, ctx.where(entry))
        # public paths: Display for Error and render_with_options reach renderers only through the entry
        pubs = [f for f in fx.fns.values() if f.d.get("impl_trait") == "std::fmt::Display" and f.file.endswith(files) and f not in inner_display]
        n = 0
        for f in pubs:
            called = {fx.callee(t) for b, t in f.calls()}
            if called & set(U):
                ctx.bad("CHOKE", "C17:CHOKE:display-bypass:%s" % f.npath, "Display impl calls the unsanitised renderer %s directly" % sorted(called & set(U)), config, ctx.where(f))
            if ENTRY in called:
                n += 1
                ctx.ok("CHOKE", "C17:CHOKE:display-via-entry:%s" % f.npath, "Display goes through fmt_error_rendered", config, ctx.where(f))
        ctx.floor("CHOKE.display-impls", n, 2, config)
        # the adapter: forwards unchanged only on the clean edge, else the sanitiser's output
        writes = [(b, t) for b, t in aw.calls() if last_seg(fx.callee_decl(t)) == "write_str" and "Formatter" in fx.callee(t)]
        ctx.floor("CHOKE.adapter-writes", len(writes), 1, config)
        clean_edges = [(sb, tt) for sb, sym, tt, ff in bool_switches(aw) if sym[0] == "call" and sym[1] == CLEAN and render(sym[2][0]) == "s"]
        for b, t in writes:
            with aw.deep():
                a = aw.sym_operand(t["args"][1])
            raw = render(a) == "s"
            san = sym_contains(a, lambda x: x[0] == "call" and x[1] == SAN)
            okw = san or (raw and any(aw.edge_dominates(sb, tt, b) for sb, tt in clean_edges))
            ctx.check(okw, "CHOKE", "C17:CHOKE:adapter:forward#%d" % (writes.index((b, t)) + 1), "chunk forwarded %s" % ("after sanitising" if san else "unchanged only when the predicate says clean"),
                      "the adapter forwards `%s` without it being sanitised or proven clean" % render(a), config, ctx.where(aw, b))
        # sanitiser and predicate agree on the classes: same byte constants
        sf, cf = fx.fn(SAN), fx.fn(CLEAN)
        ctx.saw(sf)
        ctx.saw(cf)
        need = {0x20, 0x7F, 0xC2, 0x80, 0x9F, 10, 9}
        for f in (sf, cf):
            ints = int_consts(f)
            ctx.check(need <= ints, "CHOKE", "C17:CHOKE:classes:%s" % f.name, "handles C0 (< 0x20 except \\n, \\t), DEL (0x7F) and C1 (0xC2 0x80..0x9F)",
                      "%s no longer covers C0 / DEL / C1 with LF and TAB exempt (constants %s missing)" % (f.name, sorted(need - ints)), config, ctx.where(f))
        only = lambda f: {v for v in int_consts(f) if v in (9, 10, 13, 27)}
        ctx.check(only(sf) == only(cf) == {9, 10}, "CHOKE", "C17:CHOKE:classes:exemptions-agree", "both exempt exactly LF and TAB", "predicate exempts %s, sanitiser exempts %s" % (sorted(only(cf)), sorted(only(sf))), config, ctx.where(sf))
        # source text is sanitised where it is cropped for display
        cw = fx.fn("de_snipped::crop_window_text")
        ctx.saw(cw)
        ctx.check(any(fx.callee(t) == SAN for b, t in cw.calls()) and any(fx.callee(t) == CLEAN for b, t in cw.calls()), "CHOKE", "C17:CHOKE:crop_window_text", "cropped source text is sanitised (fast path guarded by the cleanliness predicate)", "crop_window_text no longer sanitises the source window", config, ctx.where(cw))
        # ---- SIBLING: vertical window constant
        sites = ["de_snipped::crop_source_window", "de_snipped::Snippet::fmt_or_fallback", "de_snipped::fmt_snippet_window_with_mapping_or_fallback"]
        radii = {}
        for name in sites:
            f = fx.fn(name)
            ctx.saw(f)
            by = {}
            for b, t in f.calls():
                c = last_seg(fx.callee(t))
                if c in ("saturating_sub", "saturating_add", "checked_sub", "checked_add") and len(t["args"]) == 2:
                    a0 = render(f.sym_operand(t["args"][0]))
                    a1 = f.sym_operand(t["args"][1])
                    if a1[0] == "const" and a0.endswith("row"):
                        by.setdefault(a0, (set(), set()))[0 if "sub" in c else 1].add(a1[1])
            both = {k: v for k, v in by.items() if v[0] and v[1]}
            sub = set().union(*[v[0] for v in both.values()]) if both else set()
            add = set().union(*[v[1] for v in both.values()]) if both else set()
            radii[name] = (sub, add)
            ctx.check(len(sub) == 1 and sub == add, "SIBLING", "C17:SIBLING:window:%s" % name.rsplit("::", 1)[-1], "context window is row-%s … row+%s" % (sorted(sub), sorted(add)),
                      "vertical window is asymmetric or not found (before %s, after %s)" % (sorted(sub), sorted(add)), config, ctx.where(f))
        vals = {frozenset(v[0]) for v in radii.values()}
        ctx.check(len(vals) == 1 and vals == {frozenset({2})}, "SIBLING", "C17:SIBLING:window:agree", "all three places use two lines of context either side",
                  "the stored window and the rendered window disagree on the number of context lines: %s" % {k.rsplit("::", 1)[-1]: sorted(v[0]) for k, v in radii.items()}, config, ctx.where(fx.fn(sites[0])))
        # ---- COLUMN: rendering indexes the stored text with the *original* column, so the stored error line keeps its
        # left prefix: the two-sided cropper is applied to context lines only (the `row == error_row` edge avoids it)
        cs = fx.fn("de_snipped::crop_source_window")
        crop2 = [b for b, t in cs.calls() if fx.callee(t) == "de_snipped::crop_line_by_cols"]
        rowcmp = [c for c in compares(cs) if c["op"] in ("Eq", "Ne") and {c["rl"], c["rr"]} == {"row", "error_row"}]
        okcol = False
        for c in rowcmp:
            err_edge = c["t"] if c["op"] == "Eq" else c["f"]
            ctx_edge = c["f"] if c["op"] == "Eq" else c["t"]
            okcol = bool(crop2) and all(cs.edge_dominates(c["block"], ctx_edge, b) for b in crop2)
        ctx.check(okcol, "COLUMN", "C17:COLUMN:error-line-keeps-prefix", "the error line is never cropped on the left when the window is stored (%d two-sided crop site(s), all on the context-line edge)" % len(crop2),
                  "crop_source_window applies the two-sided crop to the error line as well: the stored line starts with `…` + a suffix while rendering still indexes it with the original column — the caret sits under the wrong character or the snippet is dropped", config, ctx.where(cs, crop2[0] if crop2 else None))
        # ---- UNITS: columns are characters, slice bounds are bytes.  The right-hand cut of the stored error line is a byte
        # offset obtained from a column through col_to_byte_offset_in_line, never a column used as a byte offset.
        cuts = []
        for b, t in cs.calls():
            if str(t["f"].get("trait")) in ("std::ops::Index", "std::ops::IndexMut") and len(t["args"]) == 2:
                with cs.deep():
                    base = render(cs.sym_operand(t["args"][0]))
                    idx = cs.sym_operand(t["args"][1])
                if idx[0] == "aggr" and "RangeTo" in str(idx[1]) and any(cs.edge_dominates(c["block"], (c["t"] if c["op"] == "Eq" else c["f"]), b) for c in rowcmp):
                    cuts.append((b, idx))
        okcut = bool(cuts) and all(sym_contains(idx, lambda x: x[0] == "call" and x[1] == "de_snipped::col_to_byte_offset_in_line") for b, idx in cuts)
        ctx.check(okcut, "COLUMN", "C17:COLUMN:error-line-cut-in-bytes-from-columns", "the error line's right-hand cut converts the column to a byte offset (%d site(s))" % len(cuts),
                  "crop_source_window cuts the stored error line at a byte offset that was not obtained from the column by col_to_byte_offset_in_line: with multi-byte text left of the error the line is cut before the reported column and the snippet is dropped", config, ctx.where(cs, cuts[0][0] if cuts else None))
        # ---- COLUMN (secondary window): a window that crops its lines for display (crop_window_text re-bases the error offset to
        # the cropped text) measures the caret's indentation on the *cropped* text with the *re-based* offset — a width taken from
        # the text before the crop puts the caret `column - 1` characters in although the line was cut on the left.
        nw = 0
        for wf in sorted(fx.fns.values(), key=lambda g: g.npath):
            if not wf.npath.startswith("de_snipped::"):
                continue
            crops = [b for b, t in wf.calls() if fx.callee(t) == "de_snipped::crop_window_text"]
            if not crops:
                continue
            ctx.saw(wf)
            fam = [g for g in fx.family(wf)]
            for g in fam:
                for b, t in g.calls():
                    if last_seg(fx.callee_decl(t) or fx.callee(t)) == "count" and t["args"]:
                        with g.deep():
                            a = g.sym_operand(t["args"][0])
                        if not sym_contains(a, lambda x: x[0] == "call" and last_seg(x[1]) == "chars"):
                            continue
                        nw += 1
                        if g is wf:
                            okw = sym_contains(a, lambda x: x[0] == "call" and x[1] == "de_snipped::crop_window_text")
                        else:
                            # counted inside a closure: what it measures is what it captured — every captured text / offset must
                            # come out of the crop
                            okw = False
                            for cb, ci, cs_ in wf.stmts():
                                if cs_["k"] == "assign" and cs_["rv"]["k"] == "aggr" and cs_["rv"].get("ak") == "closure" and norm(cs_["rv"].get("closure", "")) == g.npath:
                                    with wf.deep():
                                        caps = [wf.sym_operand(o) for o in cs_["rv"]["ops"]]
                                    texts = [c for c in caps if sym_contains(c, lambda x: x[0] == "call" and x[1] == "de_snipped::crop_window_text")]
                                    okw = bool(texts) and any(wf.dominates(cr, cb) for cr in crops)
                        ctx.check(okw, "COLUMN", "C17:COLUMN:caret-measured-on-displayed-text:%s" % wf.name, "the caret's indentation is counted on the text returned by crop_window_text",
                                  "%s counts the caret's indentation on text that did not come out of crop_window_text (in %s): when the line is cropped on the left the caret is indented by the full column and lands far right of the value" % (wf.name, g.npath),
                                  config, ctx.where(g, b))
        ctx.floor("COLUMN.caret-widths", nw, 2, config)
        # ---- COLUMN (secondary window): every line the window writes — numbered source lines, separators and the caret line —
        # is formatted with the same gutter width; a line with a fixed-width gutter shifts the caret once line numbers need more
        # digits (from line 10 on)
        gw = fx.fn("de_snipped::fmt_snippet_window_with_mapping_or_fallback")
        ctx.saw(gw)
        tuples = []
        for b, i, s_ in gw.stmts():
            if s_["k"] == "assign" and s_["rv"]["k"] == "aggr" and s_["rv"].get("ak") == "tuple" and s_["rv"]["ops"] and gw.local_name(s_["p"]["l"]) == "args":
                tuples.append((b, [render(gw.sym_operand(o)) for o in s_["rv"]["ops"]]))
        consts = [b for b, t in gw.calls() if last_seg(fx.callee(t)) in ("write_str", "from_str") and len(t["args"]) > 1 and gw.sym_operand(t["args"][-1])[0] == "const"]
        bad = [(b, ops) for b, ops in tuples if "gutter_width" not in ops]
        ctx.check(not bad and not consts, "COLUMN", "C17:COLUMN:secondary-window-gutter", "every formatted line of the secondary window takes the gutter width (%d lines)" % len(tuples),
                  "the secondary window writes a line with a fixed gutter (%s): from line 10 on the caret sits left of the reported column" % ([ops for b, ops in bad] or "constant line"), config, ctx.where(gw, (bad[0][0] if bad else consts[0]) if (bad or consts) else None))
        ctx.floor("COLUMN.secondary-window-lines", len(tuples), 6, config)
        # ---- STEP: the byte sanitiser's scan loop advances its cursor by exactly what it examined — 1, or 2 on the path that rewrote a
        # two-byte C1 sequence.  A pass that adds 3 after a rewrite skips the byte behind it: the second of two adjacent C1
        # controls survives (`\u{9b}\u{9b}31m` reaches the terminal as a raw CSI).
        sz = fx.fn("de_snipped::sanitize_terminal_snippet_preserve_len")
        ctx.saw(sz)
        idx_local = [l for l, d in enumerate(sz.locals) if d.get("name") == "i"]
        steps = {}
        for b, i, s_ in sz.stmts():
            if s_["k"] == "assign" and not s_["p"]["pr"] and s_["p"]["l"] in idx_local:
                v = sz.sym_rvalue(s_["rv"])
                if v[0] == "field" and v[1][0] == "bin" and v[1][1] == "AddWithOverflow" and v[1][3][0] == "const":
                    steps[b] = steps.get(b, 0) + v[1][3][1]
                elif v[0] == "bin" and v[1] == "Add" and v[3][0] == "const":
                    steps[b] = steps.get(b, 0) + v[3][1]
        two_byte = set()
        for b, t in sz.calls():
            if fx.callee(t).endswith("IndexMut>::index_mut") and len(t["args"]) > 1 and render(sz.sym_operand(t["args"][1])) in ("Add(i, 1)", "Add(1, i)"):
                two_byte.add(b)
        comps = [c for c in sz.sccs() if len(c) > 1 and set(steps) & c]
        bad_paths, npaths = [], 0
        for comp in comps:
            heads = [x for x in comp if any(p not in comp for p in sz.pred[x])]
            for h in heads:
                stack = [(h, (h,), 0, False)]
                while stack and npaths < 2000:
                    b, path, tot, two = stack.pop()
                    tot2 = tot + steps.get(b, 0)
                    two2 = two or b in two_byte
                    for nx in sz.succ[b]:
                        if nx not in comp:
                            continue
                        if nx == h:
                            npaths += 1
                            if tot2 != (2 if two2 else 1):
                                bad_paths.append((tot2, two2))
                        elif nx not in path:
                            stack.append((nx, path + (nx,), tot2, two2))
        ctx.check(bool(comps) and npaths > 0 and not bad_paths, "UNITS", "C17:UNITS:sanitiser-cursor-step", "every iteration of the C1 scan advances the cursor by what it examined (%d path(s))" % npaths,
                  "the byte sanitiser's scan loop has an iteration that advances the cursor by %s: a byte is skipped (or re-examined) after a rewritten sequence, so the second of two adjacent C1 controls is left in the text" % sorted({("%d after a two-byte rewrite" % a) if t2 else ("%d" % a) for a, t2 in bad_paths}), config, ctx.where(sz))
        # ---- miette adapter
        if any(f.file.endswith("miette.rs") for f in fx.fns.values()):
            rule_miette(ctx, fx, config)


def rule_miette(ctx, fx, config):
    fns = [f for f in fx.fns.values() if f.file.endswith("miette.rs")]
    n = 0
    def unsafe_leaves(sym, under_len=False, acc=None):
        """non-constant leaves of a symbolic value that are not merely counted (`len(..)`)."""
        if acc is None:
            acc = []
        if not isinstance(sym, tuple) or not sym or not isinstance(sym[0], str):
            if isinstance(sym, tuple):
                for y in sym:
                    unsafe_leaves(y, under_len, acc)
            return acc
        k = sym[0]
        if k in ("const", "const?", "fnconst", "namedconst"):
            return acc
        if k in ("arg", "local", "upvar"):
            if not under_len:
                acc.append(render(sym))
            return acc
        if k == "field" and fieldpath_ok(sym):
            if not under_len:
                acc.append(render(sym))
            return acc
        if k == "call":
            ul = under_len or last_seg(sym[1]) in ("len", "count")
            for y in sym[2]:
                unsafe_leaves(y, ul, acc)
            return acc
        for y in sym[1:]:
            if isinstance(y, tuple):
                unsafe_leaves(y, under_len, acc)
        return acc

    def fieldpath_ok(sym):
        from ..mir import fieldpath
        return fieldpath(sym) is not None

    for f in fns:
        if f.d.get("impl_trait") in ("std::clone::Clone", "std::fmt::Debug"):
            continue
        for b, i, adt, var, fl, ops, s_ in aggregates(f):
            if adt == "miette::ErrorDiagnostic" and "message" in fl:
                n += 1
                ctx.saw(f)
                with f.deep():
                    m = f.sym_operand(s_["rv"]["ops"][fl.index("message")])
                san = sym_contains(m, lambda x: x[0] == "call" and x[1] in (SAN, "miette::safe_message"))
                leaves = [] if san else unsafe_leaves(m)
                ctx.check(san or not leaves, "MIETTE", "C17:MIETTE:message:%s#%d" % (f.npath, n), "diagnostic message is sanitised (or built from constants and counts only)",
                          "a miette diagnostic message is built from %s without the sanitiser" % leaves[:4], config, ctx.where(f, ln=s_.get("ln")))
        for b, t in f.calls():
            if fx.callee(t).endswith("LabeledSpan::new_with_span"):
                with f.deep():
                    a = f.sym_operand(t["args"][0])
                okl = sym_contains(a, lambda x: x[0] == "call" and x[1] in (SAN, "miette::safe_message")) or (sym_contains(a, lambda x: x[0] == "const" and isinstance(x[1], str)) and not sym_contains(a, lambda x: x[0] == "call" and "format_message" in x[1]))
                ctx.check(okl, "MIETTE", "C17:MIETTE:label:%s" % f.npath, "label text is sanitised or constant", "a miette label is built from unsanitised text `%s`" % render(a)[:120], config, ctx.where(f, b))
            if fx.callee(t).endswith("NamedSource::new"):
                with f.deep():
                    a = f.sym_operand(t["args"][1])
                ctx.check(sym_contains(a, lambda x: x[0] == "call" and x[1] == SAN), "MIETTE", "C17:MIETTE:source", "the source handed to miette is sanitised", "the miette source is not sanitised", config, ctx.where(f, b))
    ctx.floor("MIETTE.messages", n, 2, config)
    sm = fx.fn("miette::safe_message")
    ctx.check(any(fx.callee(t) == SAN for b, t in sm.calls()), "MIETTE", "C17:MIETTE:safe_message", "safe_message sanitises the formatted message", "safe_message no longer sanitises", config, ctx.where(sm))
