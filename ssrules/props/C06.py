"""C06 — scalars are interpreted exactly per requested type and options; never wrapped (DESIGN §4 C06)."""
import re

from ..mir import MissingAnchor, sym_contains
from ..rules import (render, aggregates, last_seg, bool_switches, compares, str_consts, str_compare_consts, int_consts,
                     must_pass, switch_edges)

EXPLANATION = ("Static rules over the resolved MIR: ARITH (the integer parsers use only checked 128-bit arithmetic, widening casts and "
               "fallible TryFrom narrowing — the structural content of `never wrapped, saturated or truncated`), TABLE (each "
               "deserialize_X calls the parser instantiated at X and visit_X; the bool / null / special-float literal tables equal "
               "the documented ones; radix prefixes), STYLE (null-likeness and number/bool-likeness are refused for non-plain "
               "scalars), ORDER (deserialize_any attempts null, bool, int, float, string in that order: each later interpretation is unreachable on paths avoiding the earlier test), WIRE (Cfg::from_options copies each switch from its corresponding option and each switch is read only in "
               "its documented places), BASE64 (canonical-padding masks, length and pad-position checks, each failing edge returns "
               "the base64 error).")
ASSUMPTIONS = ["rustc's MIR (opt-level 0) faithfully represents the compiled crate",
               "float parsing is delegated to core's str::parse; the mathematically exact value for particular tokens is a value-level statement: not decided",
               "serde's Visitor::visit_X is the channel to the target type"]

PS = "parse_scalars::"
INT_FNS = [PS + "parse_digits_u128", PS + "parse_decimal_unsigned_u128", PS + "parse_decimal_signed_i128", PS + "parse_int_signed", PS + "parse_int_unsigned"]
CHECKED = {"checked_mul", "checked_add", "checked_sub", "checked_neg"}
DESER = "<de::YamlDeserializer as serde::Deserializer>::"
BITS = {"u8": 8, "u16": 16, "u32": 32, "u64": 64, "u128": 128, "usize": 64, "i8": 8, "i16": 16, "i32": 32, "i64": 64, "i128": 128, "isize": 64}
BOOL_TABLE = {"true", "yes", "y", "on", "false", "no", "n", "off"}
NULL_TABLE = {"~", "null"}
FLOAT_TABLE = {".nan", "+.nan", "-.nan", ".inf", "+.inf", "-.inf"}
# Cfg field <- Options field
WIRE = {"dup_policy": "duplicate_keys", "legacy_octal_numbers": "legacy_octal_numbers", "strict_booleans": "strict_booleans",
        "angle_conversions": "angle_conversions", "ignore_binary_tag_for_string": "ignore_binary_tag_for_string", "no_schema": "no_schema"}
# switch -> functions (name suffix after the Deserializer impl / module path) allowed to read it
READERS = {
    "strict_booleans": {"deserialize_bool", "deserialize_any"},
    "legacy_octal_numbers": {"deserialize_i8", "deserialize_i16", "deserialize_i32", "deserialize_i64", "deserialize_i128",
                             "deserialize_u8", "deserialize_u16", "deserialize_u32", "deserialize_u64", "deserialize_u128", "deserialize_any", "deserialize_bytes"},
    "angle_conversions": {"deserialize_f32", "deserialize_f64", "deserialize_any"},
    "no_schema": {"deserialize_string", "deserialize_char", "deserialize_enum", "deserialize_str", "take_string_scalar", "deserialize_any", "deserialize_identifier"},
    "ignore_binary_tag_for_string": {"deserialize_string", "take_string_scalar", "deserialize_str", "deserialize_any"},
}


def rule_arith(ctx, fx, config):
    for name in INT_FNS:
        f = fx.fn(name)
        ctx.saw(f)
        fam = fx.family(f)
        bad_calls, bad_casts, raw_ops = [], [], []
        nchecked = 0
        for g in fam:
            for b, t in g.calls():
                c = last_seg(fx.callee(t))
                im = t["f"].get("impl_self")
                if im in ("u128", "i128"):
                    if c in CHECKED:
                        nchecked += 1
                    elif re.match(r"(wrapping_|saturating_|overflowing_|unchecked_)", c) or c in ("pow", "abs", "neg", "add", "sub", "mul"):
                        bad_calls.append((c, t.get("ln")))
                if re.match(r"(wrapping_|saturating_|overflowing_|unchecked_)", c):
                    bad_calls.append((c, t.get("ln")))
                # operator traits on 128-bit values: <u128 as Add>::add etc.
                cd = fx.callee(t)
                if re.match(r"<&?[iu]128 as std::ops::(Add|Sub|Mul|Neg|Shl)", cd):
                    raw_ops.append((cd, t.get("ln")))
            for b, i, s_ in g.stmts():
                if s_["k"] != "assign":
                    continue
                rv = s_["rv"]
                if rv["k"] == "cast" and rv["ck"] == "IntToInt":
                    fr, to = rv.get("from"), rv.get("ty")
                    if fr in BITS and to in BITS:
                        widening = BITS[to] > BITS[fr] and not (fr[0] == "i" and to[0] == "u")
                        same = fr == to
                        if not (widening or same) and "c" not in rv["o"]:
                            bad_casts.append(("%s as %s" % (fr, to), s_.get("ln")))
                if rv["k"] == "bin" and rv["op"] in ("Add", "Sub", "Mul", "AddWithOverflow", "SubWithOverflow", "MulWithOverflow", "AddUnchecked", "SubUnchecked", "MulUnchecked", "Shl"):
                    ty = g.local_ty(s_["p"]["l"])
                    if "128" in ty:
                        raw_ops.append((rv["op"], s_.get("ln")))
        key = "C06:ARITH:%s" % name
        ctx.check(not bad_calls, "ARITH", key + ":no-wrapping-callee", "no wrapping / saturating / overflowing / unchecked arithmetic callee",
                  "integer parsing calls %s: a value that does not fit can be wrapped or saturated instead of rejected" % bad_calls, config, ctx.where(f))
        ctx.check(not raw_ops, "ARITH", key + ":no-raw-128bit-op", "no raw +,-,* on the 128-bit accumulator",
                  "raw 128-bit arithmetic %s on the accumulator (overflow panics in debug and wraps in release)" % raw_ops, config, ctx.where(f))
        ctx.check(not bad_casts, "ARITH", key + ":no-narrowing-cast", "only widening integer casts",
                  "narrowing / sign-changing `as` cast %s truncates silently" % bad_casts, config, ctx.where(f))
        if name.endswith("_u128") or name.endswith("_i128"):
            ctx.check(nchecked >= 2, "ARITH", key + ":checked-accumulation", "accumulates with checked_mul + checked_add/sub (%d sites)" % nchecked,
                      "the accumulator is no longer advanced with checked_mul and checked_add/sub", config, ctx.where(f))
    # fallible narrowing to the target width
    for name, big in ((PS + "parse_int_signed", "i128"), (PS + "parse_int_unsigned", "u128")):
        f = fx.fn(name)
        tf = [(b, t) for b, t in f.calls() if t["f"].get("name") == "try_from" and "TryFrom" in str(t["f"].get("trait"))]
        oks = [b for b, i, adt, var, fl, ops, s_ in aggregates(f) if s_["p"]["l"] == 0 and var == "Ok"]
        ctx.check(len(tf) >= 2 and not oks, "ARITH", "C06:ARITH:%s:tryfrom-narrowing" % name,
                  "every result comes out of T::try_from(%s) (no directly constructed Ok)" % big,
                  "the parsed %s no longer reaches the target type exclusively through the fallible T::try_from" % big, config, ctx.where(f))
        # every success source is a map_err(try_from(..)) result
        from ..proto import ok_sources
        for b, sym, ln in ok_sources(f):
            with f.deep():
                pass
            okk = sym_contains(sym, lambda s_: s_[0] == "call" and s_[1].endswith("try_from"))
            if not okk and sym[0] == "local":
                with f.deep():
                    okk = sym_contains(f.sym_local(sym[1]), lambda s_: s_[0] == "call" and s_[1].endswith("try_from"))
            ctx.check(okk, "ARITH", "C06:ARITH:%s:result-from-tryfrom" % name, "returned value derives from try_from", "a returned value (line %s) does not derive from try_from" % ln, config, ctx.where(f, ln=ln))


def rule_magnitude_from_digits(ctx, fx, config):
    """ARITH: the value handed to the narrowing `try_from` of the two integer parsers is a magnitude accumulated from digits: its
    deep definition reaches the checked accumulators (`parse_digits_u128`, `parse_decimal_*`) on every alternative, through
    crate-local helpers if any — never a constant standing in for "no digits" (an empty digit string after a radix prefix is not
    a number: `0o`, `0x`, `-0b`)."""
    accs = {PS + "parse_digits_u128", PS + "parse_decimal_unsigned_u128", PS + "parse_decimal_signed_i128"}

    def const_results(g, depth=0):
        """constant Some(..)/Ok(..) values a helper between the parser and the accumulator can return"""
        out = []
        for b, i, adt, var, fl, ops, s_ in aggregates(g):
            if s_["p"]["l"] == 0 and var in ("Some", "Ok") and ops:
                with g.deep():
                    v = g.sym_operand(s_["rv"]["ops"][0])
                if v[0] == "const":
                    out.append((g, b, render(v)))
        return out
    n = 0
    for name in (PS + "parse_int_signed", PS + "parse_int_unsigned"):
        f = fx.fn(name)
        for b, t in f.calls():
            g = fx.local_callee(t)
            c = fx.callee(t)
            if g is None or c in accs or not c.startswith(PS):
                continue
            # a helper of the integer parser that (transitively, one level) calls an accumulator
            if any(fx.callee(t2) in accs for b2, t2 in g.calls()):
                n += 1
                bad = const_results(g)
                ctx.check(not bad, "ARITH", "C06:ARITH:magnitude-from-digits:%s" % g.name, "%s returns what the accumulator computed" % g.name,
                          "%s, which sits between the integer parser and the digit accumulator, can return the constant %s without any digit having been read: a bare radix prefix (`0o`) is accepted as a number" % (g.npath, [x[2] for x in bad]), config, ctx.where(g, bad[0][1]) if bad else ctx.where(g))
        # in the parser itself: the argument of every try_from derives from an accumulator (or a helper that was just judged)
        for b, t in f.calls():
            if t["f"].get("name") == "try_from" and "TryFrom" in str(t["f"].get("trait")):
                with f.deep():
                    a = f.sym_operand(t["args"][0])
                n += 1
                is_acc = lambda x: x[0] == "call" and (x[1] in accs or (x[1].startswith(PS) and fx.fn_opt(x[1]) is not None and any(fx.callee(t2) in accs for b2, t2 in fx.fn_opt(x[1]).calls())))

                def derives(x, depth=0):
                    # the value path, on *every* alternative (a helper inlined by the normalisation shows its constant result as
                    # one alternative of a phi): through wrappers, through the arguments of adapting calls, into aggregates
                    if depth > 40 or not isinstance(x, tuple) or not x:
                        return False
                    if x[0] == "phi":
                        return all(derives(y, depth + 1) for y in x[2])
                    if x[0] == "call":
                        return is_acc(x) or any(derives(y, depth + 1) for y in x[2])
                    if x[0] in ("field", "downcast", "deref", "ref", "cast"):
                        return derives(x[1], depth + 1)
                    if x[0] == "aggr":
                        return any(derives(y, depth + 1) for y in x[4])
                    return False
                okd = derives(a)
                ctx.check(okd, "ARITH", "C06:ARITH:magnitude-from-digits:%s:try_from" % f.name, "the narrowed value derives from a digit accumulator", "%s narrows `%s`, which does not come out of a digit accumulator" % (f.name, render(a)[:80]), config, ctx.where(f, b))
    ctx.floor("ARITH.magnitude-sites", n, 4, config)


def rule_float_core_parse_guard(ctx, fx, config):
    """TABLE: ordinary float literals are read by core's `str::parse`, which also understands the words `inf`, `infinity` and
    `nan` in any letter case — plain strings in YAML.  The call is reached only on the "contains a digit" edge of a test over the
    text's bytes (the YAML spellings `.inf` / `.nan` are matched before it)."""
    f = fx.fn(PS + "parse_yaml12_float")
    ctx.saw(f)
    parses = [b for b, t in f.calls() if last_seg(fx.callee_decl(t) or fx.callee(t)) in ("parse", "from_str") and "str" in (fx.callee_decl(t) or fx.callee(t))]
    guards = []
    for sb, sym, tt, ff in bool_switches(f):
        d = sym
        neg = False
        while d[0] == "un" and d[1] == "Not":
            d, neg = d[2], not neg
        if d[0] == "call" and last_seg(d[1]) == "any":
            # the closure asks for an ASCII digit
            clos = [g for g in fx.closures_of(f) if any(last_seg(fx.callee(ct)) == "is_ascii_digit" for cb, ct in g.calls())]
            if clos:
                guards.append((sb, ff if neg else tt))
    ctx.check(bool(parses) and bool(guards) and all(any(f.edge_dominates(sb, e, pb) for sb, e in guards) for pb in parses), "TABLE", "C06:TABLE:float-core-parse-needs-digit",
              "core's float parser is consulted only for texts that contain a digit (%d call(s))" % len(parses),
              "parse_yaml12_float hands texts without any digit to core's float parser, which reads `inf` / `infinity` / `nan` (any case) as floats: `v: nan` is NaN instead of the string", config, ctx.where(f))


def rule_typed_table(ctx, fx, config):
    rows = [("i%d" % n, PS + "parse_int_signed") for n in (8, 16, 32, 64, 128)] + [("u%d" % n, PS + "parse_int_unsigned") for n in (8, 16, 32, 64, 128)] + \
           [("f32", PS + "parse_yaml12_float"), ("f64", PS + "parse_yaml12_float")]
    for ty, parser in rows:
        f = fx.fn(DESER + "deserialize_" + ty)
        ctx.saw(f)
        pc = [(b, t) for b, t in f.calls() if fx.callee(t) == parser]
        vis = [t["f"].get("name") for b, t in f.calls() if str(t["f"].get("trait")) == "serde::de::Visitor"]
        key = "C06:TABLE:deserialize_%s" % ty
        okp = len(pc) == 1 and (pc[0][1]["f"].get("args") or [""])[0] == ty
        ctx.check(okp, "TABLE", key + ":parser", "calls %s::<%s>" % (parser.rsplit("::", 1)[-1], ty),
                  "deserialize_%s does not call %s instantiated at %s (found %s)" % (ty, parser, ty, [(fx.callee(t), t["f"].get("args")) for b, t in pc]), config, ctx.where(f))
        ctx.check(vis == ["visit_" + ty], "TABLE", key + ":visitor", "hands the value to visit_%s" % ty, "deserialize_%s calls %s instead of visit_%s" % (ty, vis, ty), config, ctx.where(f))
        if okp and ty[0] in "iu":
            # the legacy-octal flag passed is the cfg switch, and the type label matches
            t = pc[0][1]
            lab = f.sym_operand(t["args"][1])
            flag = render(f.sym_operand(t["args"][3]))
            ctx.check(lab == ("const", ty, "&str") or lab[:2] == ("const", ty), "TABLE", key + ":label", "error label is `%s`" % ty, "error label is %s" % (lab,), config, ctx.where(f))
            ctx.check(flag == "self.cfg.legacy_octal_numbers", "TABLE", key + ":octal-flag", "legacy-octal switch is threaded", "legacy-octal argument is `%s`" % flag, config, ctx.where(f))
        if okp and ty[0] == "f":
            flag = render(f.sym_operand(pc[0][1]["args"][3]))
            ctx.check(flag == "self.cfg.angle_conversions", "TABLE", key + ":angle-flag", "angle-conversion switch is threaded", "angle argument is `%s`" % flag, config, ctx.where(f))


def rule_literal_tables(ctx, fx, config):
    f = fx.fn(PS + "parse_yaml11_bool")
    ctx.saw(f)
    cmp_ = str_compare_consts(f, fx)
    got = cmp_.get("eq_ignore_ascii_case", set()) | cmp_.get("eq", set())
    # the literals are compared case-insensitively: by eq_ignore_ascii_case, or after an ASCII case fold of the token
    folds = {last_seg(fx.callee_decl(t)) for g in fx.family(f) for b, t in g.calls() if last_seg(fx.callee_decl(t)) in ("to_ascii_lowercase", "to_ascii_uppercase", "to_lowercase", "to_uppercase", "make_ascii_lowercase", "make_ascii_uppercase")}
    ctx.check({x.lower() for x in got} == BOOL_TABLE, "TABLE", "C06:TABLE:yaml11-bool-literals", "YAML 1.1 boolean literals == documented table (8)",
              "boolean literal set changed: extra %s, missing %s" % (sorted({x.lower() for x in got} - BOOL_TABLE), sorted(BOOL_TABLE - {x.lower() for x in got})), config, ctx.where(f))
    ctx.check(not (folds & {"to_lowercase", "to_uppercase"}) and (bool(cmp_.get("eq_ignore_ascii_case")) or bool(folds)), "TABLE", "C06:TABLE:yaml11-bool-ascii-fold", "case-insensitivity is ASCII-only (eq_ignore_ascii_case / to_ascii_*case)",
              "parse_yaml11_bool folds case with %s: the full Unicode mapping turns `yeſ` (U+017F) into YES and `oﬀ` (U+FB00) into OFF, so non-ASCII look-alikes are accepted as booleans" % sorted(folds), config, ctx.where(f))
    # which literals give true: the Ok(true) aggregate must be reached exactly from the 4 truthy compares
    truthy = set()
    for b, t in f.calls():
        if last_seg(fx.callee(t)) in ("eq_ignore_ascii_case", "eq"):
            with f.deep():
                lit = [s_[1].lower() for s_ in (f.sym_operand(a) for a in t["args"]) if s_[0] == "const" and isinstance(s_[1], str)]
            tgt = t["t"]
            e = switch_edges(f, tgt) if tgt is not None else None
            if e and lit:
                tt, ff = e
                # blocks assigning Ok(true)
                for ab, i, adt, var, fl, ops, s_ in aggregates(f):
                    if var == "Ok" and ops and ops[0] == ("const", True, "bool") and ab in f.reachable([tt]) and not f.dominates(ff, ab):
                        # reachable from the true edge without passing another compare's false edge
                        if ab in f.reachable([tt], avoid=[x for x, tx in f.calls() if last_seg(fx.callee(tx)) in ("eq_ignore_ascii_case", "eq")]):
                            truthy.add(lit[0])
    ctx.check(truthy == {"true", "yes", "y", "on"}, "TABLE", "C06:TABLE:yaml11-bool-polarity", "true/yes/y/on -> true (others false)", "literals yielding `true`: %s" % sorted(truthy), config, ctx.where(f))
    for name in (PS + "scalar_is_nullish", PS + "scalar_is_nullish_for_option"):
        g = fx.fn(name)
        ctx.saw(g)
        c2 = str_compare_consts(g, fx)
        got = c2.get("eq", set()) | c2.get("eq_ignore_ascii_case", set())
        ctx.check(got == NULL_TABLE and c2.get("eq_ignore_ascii_case", set()) == {"null"}, "TABLE", "C06:TABLE:null-literals:%s" % g.name, "null literals == {``, ~, null (any case)}",
                  "null literal set changed: %s" % c2, config, ctx.where(g))
        ctx.check(any(last_seg(fx.callee(t)) == "is_empty" for b, t in g.calls()), "TABLE", "C06:TABLE:null-empty:%s" % g.name, "empty scalar is null-like", "empty scalar no longer null-like", config, ctx.where(g))
    pf = fx.fn(PS + "parse_yaml12_float")
    ctx.saw(pf)
    c3 = str_compare_consts(pf, fx)
    got = c3.get("eq", set())
    ctx.check(got == FLOAT_TABLE, "TABLE", "C06:TABLE:special-floats", "special float literals == documented 6", "special-float literal set changed: %s" % sorted(got), config, ctx.where(pf))
    ctx.check(any(last_seg(fx.callee(t)) == "to_ascii_lowercase" for b, t in pf.calls()), "TABLE", "C06:TABLE:special-floats:case", "special floats are matched case-insensitively", "special floats no longer lower-cased before matching", config, ctx.where(pf))
    rd = fx.fn(PS + "radix_and_digits")
    ctx.saw(rd)
    # prefix spellings: every string constant of the shape 0<letter|0> that radix_and_digits, its closures or the crate-local
    # helpers it calls use (as an argument of strip_prefix / starts_with, directly or passed to such a helper)
    fam = list(fx.family(rd))
    for g in list(fam):
        for b, t in g.calls():
            h = fx.local_callee(t)
            if h is not None and h.npath.startswith(PS) and h not in fam:
                fam += list(fx.family(h))
    pref = set()
    for g in fam:
        for v in str_consts(g):
            if re.match(r"^0[A-Za-z0]$", v):
                pref.add(v)
    ctx.check(pref - {"00"} == {"0x", "0X", "0o", "0O", "0b", "0B"}, "TABLE", "C06:TABLE:radix-prefixes", "radix prefixes == {0x,0X,0o,0O,0b,0B} (+ the legacy `00`)", "radix prefix set changed: %s" % sorted(pref), config, ctx.where(rd))
    # legacy octal only under the flag: whichever way round the two tests are written, a radix-8 result that lies behind the
    # `00` prefix test lies behind the `legacy_octal == true` edge as well
    t00 = []
    for b, t in rd.calls():
        if last_seg(fx.callee(t)) in ("starts_with", "strip_prefix") and len(t["args"]) > 1:
            a = rd.sym_operand(t["args"][1])
            if a[0] == "const" and a[1] == "00":
                t00.append(b)
    leg = []
    for b, sym, tt, ff in bool_switches(rd):
        with rd.deep():
            r = render(rd.sym_operand(rd.blocks[b]["term"]["o"]))
        if r == "legacy_octal":
            leg.append((b, tt))
        elif r == "Not(legacy_octal)":
            leg.append((b, ff))
    res8 = []
    for b, i, s_ in rd.stmts():
        if s_["k"] == "assign" and s_["rv"]["k"] == "aggr" and s_["rv"].get("ak") == "tuple" and s_["rv"]["ops"]:
            v0 = rd.sym_operand(s_["rv"]["ops"][0])
            if v0[:2] == ("const", 8) and any(rd.dominates(x, b) for x in t00):
                res8.append(b)
    okl = bool(t00) and bool(leg) and bool(res8) and all(any(rd.edge_dominates(sb, e, b) for sb, e in leg) for b in res8)
    ctx.check(okl, "TABLE", "C06:TABLE:legacy-octal-gated", "a radix-8 result behind the `00` prefix test requires legacy_octal (%d result site(s))" % len(res8), "the legacy-octal prefix is recognised without the option", config, ctx.where(rd))
    # radix constants paired with prefixes
    ints = int_consts(rd)
    ctx.check({16, 8, 2, 10} <= ints, "TABLE", "C06:TABLE:radix-values", "radices 16/8/2/10 present", "radix constants changed: %s" % sorted(ints), config, ctx.where(rd))


def rule_style(ctx, fx, config):
    """quoted scalars are never null / number / bool for string targets."""
    for name in (PS + "scalar_is_nullish", PS + "maybe_not_string"):
        f = fx.fn(name)
        ctx.saw(f)
        # find the Plain test: a switch on discr(style) value 0 (Plain) or PartialEq::eq(style, &Plain)
        plain_edge = None
        sidx = [v["name"] for v in fx.adt("saphyr_parser_bw::ScalarStyle")["variants"]].index("Plain")
        for b in sorted(f.live_blocks):
            t = f.blocks[b]["term"]
            if t["k"] != "switch":
                continue
            with f.deep():
                sym = f.sym_operand(t["o"])
            if sym[0] == "discr" and render(sym[1]) in ("style", "*style"):
                arms = dict(zip(t["vals"], t["tgts"]))
                if sidx in arms and t["tgts"].count(arms[sidx]) == 1:
                    plain_edge = (b, arms[sidx], [x for x in t["tgts"] if x != arms[sidx]])
            if sym[0] == "call" and last_seg(sym[1]) == "eq" and any("ScalarStyle::Plain" in render(a) for a in sym[2]) and any(render(a) == "style" for a in sym[2]):
                e = switch_edges(f, b)
                if e:
                    plain_edge = (b, e[0], [e[1]])
        key = "C06:STYLE:%s" % f.name
        if not ctx.check(plain_edge is not None, "STYLE", key + ":test", "style == Plain test found", "%s no longer tests the scalar style" % name, config, ctx.where(f)):
            continue
        b, yes, no = plain_edge
        from ..rules import through_flag
        yes, no = through_flag(f, yes, no)
        # every `true` result must be reachable only through the Plain edge
        trues = []
        for ab, i, s_ in f.stmts():
            if s_["k"] == "assign" and s_["p"]["l"] == 0 and not s_["p"]["pr"]:
                v = f.sym_rvalue(s_["rv"])
                if not (v[0] == "const" and v[1] is False):
                    trues.append(ab)
        for b2, t in f.calls():
            if t["dest"]["l"] == 0 and not t["dest"]["pr"]:
                trues.append(b2)
        # simpler, sound formulation: from the non-Plain edges only `false` assignments are reachable before return
        non_plain_reach = f.reachable(no, avoid=[yes])
        leak = [tb for tb in trues if tb in non_plain_reach and not f.dominates(yes, tb)]
        # and every possibly-true result lies behind the Plain edge: a second route to `true` that never asks for the style (or
        # asks a weaker question, such as "not quoted", in a helper) lets a literal / folded scalar spelling `null` be null
        if len(f.pred[yes]) <= 1:
            leak += [tb for tb in trues if not f.dominates(yes, tb) and tb not in leak]
        # a join block that assigns a phi is handled by requiring the value there to be the false constant; calls are never allowed
        ctx.check(not leak, "STYLE", key + ":quoted-is-false", "a non-plain scalar always yields false",
                  "%s can answer true for a quoted / block scalar (line(s) %s): quoted text would be taken for null / a number / a boolean" % (name, [f.blocks[x]["term"].get("ln") for x in leak]), config, ctx.where(f))
    g = fx.fn(PS + "scalar_is_nullish_for_option")
    ctx.saw(g)
    # empty is null only when not single/double quoted; ~/null only when plain
    sv = [v["name"] for v in fx.adt("saphyr_parser_bw::ScalarStyle")["variants"]]
    tested = set()
    for b in sorted(g.live_blocks):
        t = g.blocks[b]["term"]
        if t["k"] == "switch":
            sym = g.sym_operand(t["o"])
            if sym[0] == "discr" and render(sym[1]) in ("style", "*style"):
                tested |= {sv[v] for v in t["vals"] if v < len(sv)}
    ctx.check({"Plain", "SingleQuoted", "DoubleQuoted"} <= tested, "STYLE", "C06:STYLE:nullish_for_option:styles", "option null-likeness distinguishes Plain / SingleQuoted / DoubleQuoted",
              "scalar_is_nullish_for_option no longer distinguishes quoted styles (tested: %s)" % sorted(tested), config, ctx.where(g))


def rule_any_order(ctx, fx, config):
    """untyped inference order of deserialize_any: null, bool, int, float, string — each later interpretation is attempted
    only on paths that already tried (and left) every earlier one."""
    f = fx.fn(DESER + "deserialize_any")
    ctx.saw(f)
    entry = [0]

    def calls(pred):
        return [b for b, t in f.calls() if pred(fx.callee(t), t)]
    N = calls(lambda c, t: c == PS + "scalar_is_nullish")
    B = calls(lambda c, t: c == PS + "parse_yaml11_bool" or last_seg(c) == "eq_ignore_ascii_case")
    I = calls(lambda c, t: c in (PS + "parse_int_signed", PS + "parse_int_unsigned"))
    F = calls(lambda c, t: c == PS + "parse_yaml12_float")

    def visits(*names):
        return [b for b, t in f.calls() if str(t["f"].get("trait")) == "serde::de::Visitor" and t["f"].get("name") in names]
    vb, vi, vf = visits("visit_bool"), visits("visit_i64", "visit_u64", "visit_i128", "visit_u128"), visits("visit_f64", "visit_f32")
    typed_region = f.reachable(B) if B else set()
    vs = [b for b in visits("visit_string", "visit_str", "visit_borrowed_str") if b in typed_region]
    ctx.floor("ORDER.stage-calls", len(N) + len(B) + len(I) + len(F), 8, config)
    ctx.floor("ORDER.visits", len(vb) + len(vi) + len(vf) + len(vs), 8, config)
    stages = [("null", N, "bool", B + vb), ("bool", B, "int", I + vi), ("int", I, "float", F + vf), ("float", F, "string", vs)]
    for prev, pb, nxt, nb in stages:
        free = f.reachable(entry, avoid=pb) if pb else set(f.live_blocks)
        leak = sorted(b for b in nb if b in free)
        ctx.check(bool(pb) and bool(nb) and not leak, "ORDER", "C06:ORDER:any:%s-before-%s" % (prev, nxt),
                  "the %s interpretation is attempted only after the %s test (%d/%d sites)" % (nxt, prev, len(nb), len(pb)),
                  "deserialize_any reaches the %s interpretation (line(s) %s) on a path that skipped the %s test: untyped inference order null, bool, int, float, string is broken" %
                  (nxt, [f.blocks[b]["term"].get("ln") for b in leak], prev), config, ctx.where(f))
    # the null test answers unit on its true edge, and nothing typed is reached from there
    for nbk in N:
        t = f.blocks[nbk]["term"]
        e = switch_edges(f, t["t"]) if t["t"] is not None else None
        # the null edge proper: null-like text *and* not tagged `!!str` / `!!binary` (a chain of tag exclusions)
        for _round in range(4):
            if not e:
                break
            nxt = None
            for cb, ct in f.calls():
                if cb in f.reachable([e[0]]) and last_seg(fx.callee(ct)) in ("ne", "eq"):
                    with f.deep():
                        args = " ".join(render(f.sym_operand(a)) for a in ct["args"])
                    if ("SfTag::String" in args or "SfTag::Binary" in args) and f.dominates(nbk, cb) and not any(x in f.reachable([e[0]], avoid=[cb]) for x in visits("visit_unit")):
                        e2 = switch_edges(f, ct["t"]) if ct["t"] is not None else None
                        if e2:
                            nxt = (e2[0] if last_seg(fx.callee(ct)) == "ne" else e2[1], e[1])
                            break
            if nxt is None or nxt == e:
                break
            e = nxt
        vu = visits("visit_unit", "visit_none")
        okn = bool(e) and bool(f.reachable([e[0]]) & set(vu)) and not (f.reachable([e[0]]) & set(vb + vi + vf + vs + visits('visit_string', 'visit_str', 'visit_borrowed_str')))
        ctx.check(okn, "ORDER", "C06:ORDER:any:null-yields-unit", "a null-like plain scalar yields unit", "the null-like edge of deserialize_any does not end in visit_unit", config, ctx.where(f, nbk))


def rule_str_tag_not_null(ctx, fx, config):
    """A scalar tagged `!!str` is the string, whatever its text: the three typeless / optional positions that test
    null-likeness (deserialize_option, deserialize_any, deserialize_unit) also test the tag."""
    for nm, pred in (("deserialize_option", "scalar_is_nullish_for_option"), ("deserialize_any", "scalar_is_nullish"), ("deserialize_unit", "scalar_is_nullish")):
        f = fx.fn(DESER + nm)
        ctx.saw(f)
        calls = [(b, t) for b, t in f.calls() if fx.callee(t) == PS + pred]
        ok_all = bool(calls)
        for b, t in calls:
            e = switch_edges(f, t["t"]) if t["t"] is not None else None
            found = False
            if e:
                region = f.reachable([e[0]])
                for cb, ct in f.calls():
                    if cb in region and last_seg(fx.callee(ct)) in ("ne", "eq"):
                        with f.deep():
                            args = " ".join(render(f.sym_operand(a)) for a in ct["args"])
                        if "SfTag::String" in args:
                            # no null answer is reachable from the null-like edge without passing the tag test
                            vu = [x for x, xt in f.calls() if str(xt["f"].get("trait")) == "serde::de::Visitor" and xt["f"].get("name") in ("visit_unit", "visit_none")]
                            found = found or not any(x in f.reachable([e[0]], avoid=[cb]) for x in vu)
            ok_all = ok_all and found
        if nm != "deserialize_unit":
            okb = bool(calls)
            for b, t in calls:
                e = switch_edges(f, t["t"]) if t["t"] is not None else None
                foundb = False
                if e:
                    region = f.reachable([e[0]])
                    vu = [x for x, xt in f.calls() if str(xt["f"].get("trait")) == "serde::de::Visitor" and xt["f"].get("name") in ("visit_unit", "visit_none")]
                    for cb, ct in f.calls():
                        if cb in region and last_seg(fx.callee(ct)) in ("ne", "eq"):
                            with f.deep():
                                args = " ".join(render(f.sym_operand(a)) for a in ct["args"])
                            if "SfTag::Binary" in args:
                                foundb = foundb or not any(x in f.reachable([e[0]], avoid=[cb]) for x in vu)
                okb = okb and foundb
            ctx.check(okb, "STYLE", "C06:STYLE:binary-tag-not-null:%s" % nm, "a null-like text tagged `!!binary` is not answered with null",
                      "%s answers null for a `!!binary` scalar whose base64 text is null-like (`!!binary null` is the bytes 9e e9 65; an empty byte array is `!!binary` with no text)" % nm, config, ctx.where(f))
        ctx.check(ok_all, "STYLE", "C06:STYLE:str-tag-not-null:%s" % nm, "a null-like text tagged `!!str` is not answered with null", "%s answers null for a null-like scalar without looking at a `!!str` tag: `!!str null` reads as None / unit / Null while a String target reads \"null\"" % nm, config, ctx.where(f))


def rule_str_tag_everywhere(ctx, fx, config, only=None, prop="C06", floor=12):
    """Every position of the deserializer that asks `is this scalar null-like?` also asks for the `!!str` tag: either the null test
    runs only where the tag is already known not to be `!!str` (the tag comparison dominates it), or the null-like answer leads to a
    `!!str` comparison on every path before anything else happens.  (Which edge of the comparison is taken is decided for the three
    typeless positions by `rule_str_tag_not_null`; here the presence of the test on every path is decided.)"""
    n = 0
    for f in sorted(fx.fns.values(), key=lambda g: g.npath):
        if not f.file.endswith("src/de.rs") and not f.file.endswith("/de.rs") and f.file != "src/de.rs":
            continue
        if only is not None and f.npath not in only:
            continue
        calls = [(b, t) for b, t in f.calls() if fx.callee(t) in (PS + "scalar_is_nullish", PS + "scalar_is_nullish_for_option")]
        if not calls:
            continue
        ctx.saw(f)
        tagcmp = []
        for cb, ct in f.calls():
            if last_seg(fx.callee(ct)) in ("ne", "eq"):
                with f.deep():
                    args = " ".join(render(f.sym_operand(a)) for a in ct["args"])
                if "SfTag::String" in args:
                    tagcmp.append(cb)
        k = 0
        for b, t in calls:
            n += 1
            k += 1
            e = switch_edges(f, t["t"]) if t.get("t") is not None else None
            ok = any(f.dominates(c, b) and c != b for c in tagcmp)
            if not ok and e:
                ok = bool(tagcmp) and must_pass(f, [e[0]], tagcmp)
            ctx.check(ok, "STYLE", "%s:STYLE:str-tag-tested-with-null:%s#%d" % (prop, f.npath.replace(DESER, ""), k),
                      "the null-likeness test is accompanied by a `!!str` tag test on every path",
                      "%s treats a null-like text as null without looking at a `!!str` tag: `!!str null` / `!!str ~` is read as null (empty container, null merge value, rejected string …) in this position" % f.npath,
                      config, ctx.where(f, b))
    ctx.floor("STYLE.null-test-sites", n, floor, config)


def rule_tag_spellings(ctx, fx, config):
    """TABLE: the tag lookup table reaches every core tag by every text the parser can display for it.  saphyr displays a tag as
    `<handle>!<suffix>` (`!<suffix>` for the primary handle): `!!str` -> `tag:yaml.org,2002:!str`, `!str` -> `!str`, and a verbatim
    `!<tag:yaml.org,2002:str>` (empty handle) -> `!tag:yaml.org,2002:str`.  The last one is either a table key or is reduced to
    its URI (`tag:yaml.org,2002:str`, which must then be a key) before the lookup."""
    tb = fx.fn("tags::TAG_LOOKUP_MAP::{closure#0}")
    fo = fx.fn("tags::SfTag::from_optional_cow")
    ctx.saw(tb)
    ctx.saw(fo)
    table = {}
    for b, i, s_ in tb.stmts():
        if s_["k"] == "assign" and s_["rv"]["k"] == "aggr" and s_["rv"].get("ak") == "tuple" and len(s_["rv"]["ops"]) == 2:
            k = tb.sym_operand(s_["rv"]["ops"][0])
            with tb.deep():
                v = tb.sym_operand(s_["rv"]["ops"][1])
            if k[0] == "const" and isinstance(k[1], str) and v[0] == "aggr" and v[1] == "tags::SfTag":
                table[k[1]] = v[2]
    ctx.floor("TABLE.tag-rows", len(table), 40, config)
    # does the lookup reduce `!tag:...` to its URI?
    strips = False
    for b, t in fo.calls():
        if last_seg(fx.callee(t)) == "strip_prefix":
            a = fo.sym_operand(t["args"][1]) if len(t["args"]) > 1 else None
            if a and a[0] == "const" and a[1] == "!":
                # guarded by starts_with("tag:") on the stripped text, and the stripped text is what reaches the lookup
                with fo.deep():
                    gets = [fo.sym_operand(gt["args"][1]) for gb, gt in fo.calls() if last_seg(fx.callee(gt)) == "get" and len(gt["args"]) > 1]
                sw = [x for x, xt in fo.calls() if last_seg(fx.callee(xt)) == "starts_with" and render(fo.sym_operand(xt["args"][1])) == "'tag:'"]
                strips = bool(sw) and any(sym_contains(g, lambda n: n[0] == "call" and last_seg(n[1]) == "strip_prefix") for g in gets)
    core = {"int": "Int", "float": "Float", "bool": "Bool", "null": "Null", "seq": "Seq", "map": "Map", "str": "String", "binary": "Binary", "timestamp": "TimeStamp"}
    for nm, var in sorted(core.items()):
        forms = {"shorthand `!!%s`" % nm: "tag:yaml.org,2002:!" + nm, "local `!%s`" % nm: "!" + nm}
        for what, key in sorted(forms.items()):
            ctx.check(table.get(key) == var, "TABLE", "C06:TABLE:tag-spelling:%s:%s" % (nm, what.split()[0]), "%s (displayed `%s`) is SfTag::%s" % (what, key, var),
                      "the tag table maps `%s` (%s) to %s, expected SfTag::%s" % (key, what, table.get(key), var), config, ctx.where(tb))
        verb = "!tag:yaml.org,2002:" + nm
        okv = table.get(verb) == var or (strips and table.get(verb[1:]) == var)
        ctx.check(okv, "TABLE", "C06:TABLE:tag-spelling:%s:verbatim" % nm, "verbatim `!<tag:yaml.org,2002:%s>` (displayed `%s`) is SfTag::%s" % (nm, verb, var),
                  "a verbatim `!<tag:yaml.org,2002:%s>` is displayed as `%s`, which is neither a key of the tag table nor reduced to its URI before the lookup: the scalar is treated as carrying an unknown tag (`!<tag:yaml.org,2002:str> null` reads as null)" % (nm, verb), config, ctx.where(fo))


def rule_trim(ctx, fx, config):
    """TRIM: what the scalar parsers strip around a token is YAML white space and line breaks only — `str::trim` strips
    every Unicode White_Space character (U+00A0, U+2003, U+0085 …), which is content of a plain scalar."""
    tb = fx.fn(PS + "trim_blanks")
    ctx.saw(tb)
    from ..rules import char_consts
    cc = set()
    for g in fx.family(tb):
        cc |= char_consts(g)
        for b, t in g.calls():
            for a in t["args"]:
                with g.deep():
                    for x in _walk(g.sym_operand(a)):
                        if len(x) > 2 and x[0] == "const" and x[2] == "char":
                            cc.add(x[1])
    ctx.check(cc == {" ", "\t", "\n", "\r"}, "TABLE", "C06:TABLE:trim-alphabet", "blanks stripped around a scalar: space, tab, LF, CR", "trim_blanks strips %s" % sorted(map(repr, cc)), config, ctx.where(tb))
    readers = [g for g in fx.fns.values() if g.npath.startswith(PS) or g.npath in (DESER + "deserialize_any", DESER + "deserialize_bool")]
    uni = sorted({g.npath for g in readers for b, t in g.calls() if last_seg(fx.callee_decl(t)) in ("trim", "trim_start", "trim_end") and "str" in fx.callee_decl(t)})
    ctx.check(not uni, "TABLE", "C06:TABLE:no-unicode-trim", "no scalar parser trims with str::trim", "%s trim(s) with str::trim, which strips any Unicode white space: `12\\u{a0}` is accepted as the integer 12" % uni, config, ctx.where(tb))
    users = sorted({g.npath for g in readers for b, t in g.calls() if fx.callee(t) == tb.npath})
    ctx.floor("TABLE.trim-users", len(users), 6, config)


def _walk(sym):
    if isinstance(sym, tuple):
        yield sym
        for x in sym:
            if isinstance(x, (tuple, list)):
                for y in (x if isinstance(x, list) else [x]):
                    yield from _walk(y)


def rule_wire(ctx, fx, config):
    f = fx.fn("de::Cfg::from_options")
    ctx.saw(f)
    done = False
    for b, i, adt, var, fl, ops, s_ in aggregates(f):
        if adt == "de::Cfg":
            done = True
            for fld, op in zip(fl, ops):
                src = render(op)
                exp = "options." + WIRE.get(fld, "?")
                ctx.check(fld in WIRE and src == exp, "WIRE", "C06:WIRE:from_options:%s" % fld, "Cfg.%s <- %s" % (fld, exp),
                          "Cfg.%s is initialised from `%s`, expected `%s`: an option silently controls a different switch" % (fld, src, exp), config, ctx.where(f))
            ctx.floor("WIRE.fields", len(fl), 6, config)
    ctx.check(done, "WIRE", "C06:WIRE:from_options:aggregate", "Cfg aggregate found", "Cfg::from_options no longer builds Cfg directly", config, ctx.where(f))
    # readers of each switch
    reads = {k: set() for k in READERS}
    for g in fx.fns.values():
        for b, i, s_ in g.stmts():
            if s_["k"] != "assign":
                continue
            for p in _places(s_["rv"]):
                for e in p["pr"]:
                    if isinstance(e, dict) and e.get("of") == "de::Cfg" and e.get("f") in reads:
                        reads[e["f"]].add(g)
        for b in sorted(g.live_blocks):
            t = g.blocks[b]["term"]
            ops = []
            if t["k"] == "switch":
                ops = [t["o"]]
            elif t["k"] == "call":
                ops = t["args"]
            for o in ops:
                p = o.get("cp") or o.get("mv")
                if p:
                    for e in p["pr"]:
                        if isinstance(e, dict) and e.get("of") == "de::Cfg" and e.get("f") in reads:
                            reads[e["f"]].add(g)
    for sw, fns in reads.items():
        names = {(g.root or g.path).rsplit("::", 1)[-1] if g.kind == "closure" else g.name for g in fns}
        names.discard("from_options")
        extra = names - READERS[sw]
        ctx.check(bool(names) and not extra, "WIRE", "C06:WIRE:readers:%s" % sw, "`%s` is read only in %s" % (sw, sorted(names)),
                  "`%s` is also read in %s: the option now changes acceptance somewhere it is not documented to" % (sw, sorted(extra)) if names else "`%s` is read nowhere: the option has no effect" % sw,
                  config, ctx.where(f))


def _places(rv):
    from ..rules import _places_in_rvalue
    return list(_places_in_rvalue(rv))


def rule_base64(ctx, fx, config):
    f = fx.fn("base64::decode_base64_yaml")
    ctx.saw(f)
    errs = [b for b, i, adt, var, fl, ops, s_ in aggregates(f) if adt == "de_error::Error" and var == "InvalidBinaryBase64"]
    ctx.floor("BASE64.error-sites", len(errs), 6, config)
    # mask checks: Ne(BitAnd(x, MASK), 0) under Eq(pad, K)
    masks = {}
    with f.deep():
        for c in compares(f):
            for side, other in ((c["lhs"], c["rr"]), (c["rhs"], c["rl"])):
                if side[0] == "bin" and side[1] == "BitAnd":
                    consts = [x[1] for x in (side[2], side[3]) if x[0] == "const"]
                    if consts and other == "0":
                        rej = c["t"] if c["op"] == "Ne" else c["f"]
                        masks[consts[0]] = (c, rej)
    pads = {}
    with f.deep():
        for c in compares(f):
            if c["op"] == "Eq" and c["rl"] == "pad" or (c["op"] == "Eq" and "pad" in c["rl"] and c["rr"].isdigit()):
                pads[int(c["rr"])] = c
    with f.deep():
        shallow_pads = {}
    for c in compares(f):
        if c["op"] == "Eq" and c["rl"] == "pad" and c["rr"].isdigit():
            pads[int(c["rr"])] = c
    for mask, padv, what in ((0x0F, 2, "second sextet low 4 bits under two pads"), (0x03, 1, "third sextet low 2 bits under one pad")):
        key = "C06:BASE64:mask:%#x" % mask
        if not ctx.check(mask in masks, "BASE64", key, "canonical-padding mask %#x present" % mask, "the trailing-bit check with mask %#x (%s) is gone or altered: non-canonical base64 is accepted" % (mask, what), config, ctx.where(f)):
            continue
        c, rej = masks[mask]
        ctx.check(must_pass(f, [rej], errs), "BASE64", key + ":rejects", "non-zero trailing bits return the base64 error", "non-zero trailing bits are not rejected", config, ctx.where(f, c["block"]))
        ctx.check(padv in pads and f.dominates(pads[padv]["t"], c["block"]), "BASE64", key + ":under-pad", "mask applied when pad == %d" % padv, "mask %#x is not applied under pad == %d" % (mask, padv), config, ctx.where(f, c["block"]))
    # length multiple of 4
    lm = [b for b, t in f.calls() if last_seg(fx.callee(t)) == "is_multiple_of"]
    okl = False
    for b in lm:
        t = f.blocks[b]["term"]
        arg = f.sym_operand(t["args"][1])
        e = switch_edges(f, t["t"]) if t["t"] is not None else None
        if arg == ("const", 4, "usize") and e:
            sw = f.sym_operand(f.blocks[t["t"]]["term"]["o"])
            neg = sw[0] == "un"
            rej = e[0] if neg else e[1]
            okl = must_pass(f, [rej], errs)
    ctx.check(okl, "BASE64", "C06:BASE64:length-multiple-of-4", "length not a multiple of 4 is rejected", "the length check (multiple of 4) is gone or does not reject", config, ctx.where(f))
    # pad only in last chunk
    okp = False
    with f.deep():
        cs = list(compares(f))
    for c in cs:
        if c["op"] in ("Ne", "Eq") and "total_chunks" in (c["rl"], c["rr"]) and ("Add(idx, 1)" in (c["rl"], c["rr"]) or "Add(1, idx)" in (c["rl"], c["rr"])):
            rej = c["t"] if c["op"] == "Ne" else c["f"]
            okp = must_pass(f, [rej], errs)
    for c in compares(f):
        if c["op"] in ("Ne", "Eq") and "total_chunks" in (c["rl"], c["rr"]):
            rej = c["t"] if c["op"] == "Ne" else c["f"]
            okp = okp or must_pass(f, [rej], errs)
    ctx.check(okp, "BASE64", "C06:BASE64:pad-only-last-chunk", "padding before the last chunk is rejected", "padding inside the stream is no longer rejected", config, ctx.where(f))
    # alphabet: decode_val
    dv = fx.fn("base64::decode_val")
    ctx.saw(dv)
    ints = int_consts(dv)
    ctx.check({65, 90, 97, 122, 48, 57, 43, 47, 26, 52, 62, 63} <= ints, "BASE64", "C06:BASE64:alphabet", "standard alphabet ranges and offsets", "base64 alphabet constants changed: %s" % sorted(ints), config, ctx.where(dv))
    # ... and nothing else: the symbol table has exactly 64 entries.  A further byte value decoded to a sextet (`=` → 0 is the
    # tempting one) makes padding a data symbol wherever the caller's position checks do not look.
    extra = sorted(x for x in ints if x not in (65, 90, 97, 122, 48, 57, 43, 47, 26, 52, 62, 63, 0, 1))
    ctx.check(not extra, "BASE64", "C06:BASE64:alphabet:exactly-64-symbols", "decode_val knows the 64 symbols of the alphabet and no other byte",
              "decode_val handles further byte values %s (%s): a byte outside the alphabet is decoded to a sextet instead of being rejected" % (extra, ", ".join(repr(chr(x)) for x in extra if 32 <= x < 127)), config, ctx.where(dv))


def run(ctx):
    for config in ctx.configs:
        fx = ctx.facts(config)
        rule_arith(ctx, fx, config)
        rule_magnitude_from_digits(ctx, fx, config)
        rule_float_core_parse_guard(ctx, fx, config)
        rule_typed_table(ctx, fx, config)
        rule_literal_tables(ctx, fx, config)
        rule_style(ctx, fx, config)
        rule_any_order(ctx, fx, config)
        rule_trim(ctx, fx, config)
        rule_str_tag_not_null(ctx, fx, config)
        rule_str_tag_everywhere(ctx, fx, config)
        rule_tag_spellings(ctx, fx, config)
        rule_wire(ctx, fx, config)
        rule_base64(ctx, fx, config)
