"""C03 — merge keys equal the explicitly merged mapping with fixed precedence (DESIGN §4 C03)."""
import re
from ..mir import MissingAnchor, sym_contains
from ..rules import (render, aggregates, last_seg, bool_switches, must_pass, switch_edges, ev_switches, str_compare_consts, compares, err_return_blocks)

EXPLANATION = ("TABLE / SIBLING / DOM rules over the resolved MIR: the merge-key predicate tests exactly {one event, plain style, no "
               "tag, text `<<`} and the budget's merge-key counter tests the same triple; both merge-value expanders (recorded and "
               "live) map the kind of the merge value to the same outcome class — null-like scalar → nothing, other scalar → "
               "merge-value error, mapping → collected entries, sequence → per-element expansion, anything else → merge-value "
               "error, end of stream → EOF error — and the mapping collector rejects a non-mapping; while merged entries are being "
               "flushed the duplicate-key policy is not consulted and already-seen keys are skipped; flushing starts only after the "
               "mapping's own entries ended. The precedence order itself (pop / push_front idioms) is deliberately not encoded "
               "(any rule about it would be a frozen fragment); equality with the explicit document is value-level.")
ASSUMPTIONS = ["rustc's MIR (opt-level 0) faithfully represents the compiled crate",
               "merge precedence (last-to-first) and equality with the explicitly merged mapping are not decided (DESIGN §4 C03)"]

NKS = "<<de::YamlDeserializer as serde::Deserializer>::deserialize_map::MA as serde::de::MapAccess>::next_key_seed"


def outcome_classes(f, fx):
    """variant -> class for the top-level dispatch on the peeked merge value."""
    EV = [v["name"] for v in fx.adt("de::Ev")["variants"]]
    sw = [x for x in ev_switches(f) if not any(x[0] in comp for comp in f.sccs())]
    if not sw:
        return None
    # the first (dominating) one
    sw.sort(key=lambda x: len(f.dom[x[0]]))
    b, t = sw[0]
    arms = dict(zip(t["vals"], t["tgts"]))
    merr = {bb for bb, i, adt, var, fl, ops, s_ in aggregates(f) if adt == "de_error::Error" and var == "MergeValueNotMapOrSeqOfMaps"}
    loops = set().union(*f.sccs()) if f.sccs() else set()
    out = {}
    all_tg = set(t["tgts"])
    for vi, vn in enumerate(EV):
        tg = arms.get(vi, t["tgts"][-1])
        reach = f.reachable([tg], avoid=[x for x in all_tg if x != tg])
        calls = {fx.callee(f.blocks[x]["term"]) for x in reach if f.blocks[x]["term"]["k"] == "call"}
        marks = set()
        if any(c.endswith("scalar_is_nullish") for c in calls):
            marks.add("nullish?")
        if merr & reach:
            marks.add("merge-value-error")
        if "de::collect_entries_from_map" in calls or ("de::capture_node" in calls and "de::pending_entries_from_events" in calls and not (loops & reach)):
            marks.add("mapping")
        if "de::capture_node" in calls and "de::pending_entries_from_events" in calls and (loops & reach):
            marks.add("sequence-of")
        out[vn] = frozenset(marks)
    # None edge (end of stream) handled by the Option switch: find eof on the non-Some side
    return out


def rule_merge_key_variant_blind(ctx, fx, config, prop="C03"):
    """is_merge_key answers from the captured events alone: whichever KeyNode variant the capture produced (the variant depends on
    node properties such as anchors and tags, not on what the key *is*), the single-event / plain / untagged / `<<` tests are reached.
    A variant arm that answers `false` without looking at the events makes `&a <<` (or an alias of it) an ordinary key."""
    mk = fx.fn("de::is_merge_key")
    ctx.saw(mk)
    vnames = [v["name"] for v in fx.adt("de::KeyNode")["variants"]]

    def keynode_switches(g):
        out = []
        for b in sorted(g.live_blocks):
            t = g.blocks[b]["term"]
            if t["k"] != "switch":
                continue
            sym = g.sym_operand(t["o"])
            if sym[0] != "discr":
                continue
            root = sym[1]
            while isinstance(root, tuple) and root[0] in ("deref", "field", "downcast", "ref"):
                root = root[1]
            if isinstance(root, tuple) and root[0] in ("arg", "local") and "KeyNode" in g.local_ty(root[1]):
                out.append((b, t))
        return out
    lens = [c["block"] for c in compares(mk) if any("len(" in x for x in (c["rl"], c["rr"]))]
    n = 0
    for b, t in keynode_switches(mk):
        arms = dict(zip(t["vals"], t["tgts"]))
        for vi, vn in enumerate(vnames):
            tgt = arms.get(vi, t["tgts"][-1])
            n += 1
            ctx.check(bool(lens) and must_pass(mk, [tgt], lens), "TABLE", "%s:TABLE:is_merge_key:variant-blind:%s" % (prop, vn),
                      "a KeyNode::%s key is judged by its events" % vn,
                      "is_merge_key answers for a KeyNode::%s without looking at its events: which variant a scalar key is captured as depends on its anchor / tag, so `&a <<: *m` stops being a merge" % vn, config, ctx.where(mk, b))
    # accessor helpers that hand out the events: every variant hands out its own buffer
    for cb, ct in mk.calls():
        g = fx.local_callee(ct)
        if g is None or "KeyNode" not in g.npath:
            continue
        ctx.saw(g)
        for b, t in keynode_switches(g):
            arms = dict(zip(t["vals"], t["tgts"]))
            others = set(t["tgts"])
            for vi, vn in enumerate(vnames):
                tgt = arms.get(vi, t["tgts"][-1])
                region = g.reachable([tgt], avoid=[x for x in others if x != tgt])
                uses = any(s_["k"] == "assign" and ("@%s.events" % vn) in render(g.sym_rvalue(s_["rv"])) for bb, i, s_ in g.stmts() if bb in region)
                n += 1
                ctx.check(uses, "TABLE", "%s:TABLE:is_merge_key:variant-blind:%s" % (prop, vn), "%s hands out the events of a KeyNode::%s" % (g.name, vn),
                          "%s does not hand out the event buffer of a KeyNode::%s: is_merge_key cannot recognise a `<<` captured as that variant" % (g.npath, vn), config, ctx.where(g, b))
    ctx.floor("TABLE.merge-key-variants", n, 2, config)


def rule_expanded_entries_append_only(ctx, fx, config):
    """ORDER:expanded-entries-append-only — the expanders hand their entries on in *precedence order* (own keys, then merged
    sources, later-wins resolved by the consumer through the seen-set): a list of pending entries is only ever built by
    appending.  Removing, overwriting in place, de-duplicating or sorting such a list applies a second precedence rule inside
    one expanded source — and "later wins" there means the lowest-precedence value survives."""
    fam = ["de::collect_entries_from_map", "de::pending_entries_from_events", "de::pending_entries_from_live_events"]
    BAD = ("remove", "swap_remove", "retain", "retain_mut", "dedup", "dedup_by", "dedup_by_key", "truncate", "drain", "insert", "sort", "sort_by", "sort_by_key",
           "sort_unstable_by", "sort_unstable_by_key", "index_mut", "swap", "split_off", "get_mut", "last_mut", "first_mut", "iter_mut")
    n = 0
    for name in fam:
        fx.fn(name)  # anchors: the three expanders exist
    # every function of the deserializer that handles such a list (a helper may be handed to `.map(..)` as a value)
    scope = [f for f in sorted(fx.fns.values(), key=lambda g: g.npath) if f.file.endswith("src/de.rs") and f.kind != "closure"
             and any("PendingEntry" in str(l.get("ty", "")) and "Vec<" in str(l.get("ty", "")) for l in f.locals)]
    for f in scope:
        ctx.saw(f)
        bad = []
        for g in [f] + [h for h in fx.closures_of(f)]:
            for b, t in g.calls():
                c = last_seg(fx.callee_decl(t))
                if c not in BAD or not t["args"]:
                    continue
                tys = " ".join(str(a) for a in (t["f"].get("args") or [])) + " " + str(t["f"].get("self_ty") or "") + " " + str(t["f"].get("impl_self") or "")
                a0 = t["args"][0]
                pl = a0.get("mv") or a0.get("cp")
                lty = g.local_ty(pl["l"]) if pl is not None and not pl["pr"] else ""
                if ("PendingEntry" in tys or "PendingEntry" in lty) and "VecDeque" not in tys and "VecDeque" not in lty:
                    bad.append("%s (line %s)" % (c, t.get("ln")))
        n += 1
        ctx.check(not bad, "ORDER", "C03:ORDER:expanded-entries-append-only:%s" % f.name, "lists of pending entries are built by appending only",
                  "%s changes a list of pending entries in place — %s: the entries of an expanded merge source are in precedence order, and a second resolution inside the source lets a lower-precedence value replace a higher one" % (f.name, ", ".join(bad[:4])), config, ctx.where(f))
    ctx.floor("ORDER.expander-lists", n, 3, config)


def run(ctx):
    for config in ctx.configs:
        fx = ctx.facts(config)
        rule_expanded_entries_append_only(ctx, fx, config)
        # ---- TABLE: merge-key predicate and its twin in the budget counter
        mk = fx.fn("de::is_merge_key")
        hs = fx.fn("budget::BudgetEnforcer::handle_scalar")
        ctx.saw(mk)
        ctx.saw(hs)
        plain = [v["name"] for v in fx.adt("saphyr_parser_bw::ScalarStyle")["variants"]].index("Plain")

        def tests(f):
            lits = set()
            for g in fx.family(f):
                for k, v in str_compare_consts(g, fx).items():
                    if k in ("eq", "ne"):
                        lits |= v
            style_plain = False
            for b in sorted(f.live_blocks):
                t = f.blocks[b]["term"]
                if t["k"] == "switch":
                    with f.deep():
                        sym = f.sym_operand(t["o"])
                    if sym[0] == "discr" and render(sym[1]).endswith("style") and plain in t["vals"] and t["tgts"].count(t["tgts"][t["vals"].index(plain)]) == 1:
                        style_plain = True
            return lits, style_plain
        rule_merge_key_variant_blind(ctx, fx, config)
        l1, p1 = tests(mk)
        l2, p2 = tests(hs)
        ctx.check(l1 == {"<<"}, "TABLE", "C03:TABLE:is_merge_key:text", "merge key text is `<<`", "is_merge_key compares with %s" % sorted(l1), config, ctx.where(mk))
        ctx.check(p1, "TABLE", "C03:TABLE:is_merge_key:plain", "merge key must be a plain scalar", "is_merge_key no longer requires plain style: a quoted \"<<\" would be merged", config, ctx.where(mk))
        notag = False
        for b, t in mk.calls():
            if last_seg(fx.callee(t)) in ("eq", "ne"):
                with mk.deep():
                    args = [render(mk.sym_operand(a)) for a in t["args"]]
                if any("tags::SfTag::None" in a for a in args) and any(a.endswith("tag") or "tag" in a for a in args):
                    notag = True
        ctx.check(notag, "TABLE", "C03:TABLE:is_merge_key:untagged", "merge key must be untagged", "is_merge_key no longer requires the key to be untagged: a tagged `!!str <<` would be merged", config, ctx.where(mk))
        one = any(c["op"] in ("Ne", "Eq") and "1" in (c["rl"], c["rr"]) and any("len(" in x for x in (c["rl"], c["rr"])) for c in compares(mk))
        ctx.check(one, "TABLE", "C03:TABLE:is_merge_key:single-event", "merge key is a single scalar event", "is_merge_key no longer requires a one-event node", config, ctx.where(mk))
        ctx.check(l2 == l1 and p2, "TABLE", "C03:TABLE:budget-twin:text+style", "the budget's merge-key counter tests the same text and style", "budget merge-key counter tests text %s / plain=%s, deserializer tests %s / plain=%s" % (sorted(l2), p2, sorted(l1), p1), config, ctx.where(hs))
        tagtest = any(render(sym) in ("has_tag", "Not(has_tag)") for _b, sym, _t, _f in bool_switches(hs))
        ctx.check(tagtest, "TABLE", "C03:TABLE:budget-twin:untagged", "the budget's merge-key counter requires an untagged scalar", "budget merge-key counter no longer looks at the tag", config, ctx.where(hs))
        obs = fx.fn("budget::BudgetEnforcer::observe")
        okarg = False
        for b, t in obs.calls():
            if fx.callee(t) == hs.npath:
                with obs.deep():
                    a = obs.sym_operand(t["args"][3])
                okarg = a[0] == "call" and last_seg(a[1]) == "is_some"
        ctx.check(okarg, "TABLE", "C03:TABLE:budget-twin:tag-argument", "has_tag is `tag.is_some()`", "handle_scalar's has_tag argument is no longer tag.is_some()", config, ctx.where(obs))
        # ---- SIBLING: the two expanders
        a = fx.fn("de::pending_entries_from_events")
        b_ = fx.fn("de::pending_entries_from_live_events")
        ctx.saw(a)
        ctx.saw(b_)
        ca, cb = outcome_classes(a, fx), outcome_classes(b_, fx)
        ctx.check(ca is not None and cb is not None, "SIBLING", "C03:SIBLING:expanders:dispatch", "both expanders dispatch on the kind of the merge value", "cannot find the kind dispatch in one of the merge expanders", config, ctx.where(a))
        expected = {"Scalar": frozenset({"nullish?", "merge-value-error"}), "MapStart": frozenset({"mapping"}), "SeqStart": frozenset({"sequence-of"}),
                    "SeqEnd": frozenset({"merge-value-error"}), "MapEnd": frozenset({"merge-value-error"}), "Taken": frozenset({"merge-value-error"})}
        if ca and cb:
            for vn in expected:
                ctx.check(ca[vn] == cb[vn], "SIBLING", "C03:SIBLING:expanders:agree:%s" % vn, "both expanders treat %s as %s" % (vn, sorted(ca[vn])),
                          "the recorded expander treats a %s merge value as %s, the live one as %s" % (vn, sorted(ca[vn]), sorted(cb[vn])), config, ctx.where(b_))
                ctx.check(ca[vn] == expected[vn], "SIBLING", "C03:SIBLING:expanders:class:%s" % vn, "%s → %s" % (vn, sorted(expected[vn])),
                          "a %s merge value is handled as %s, expected %s (a merge value must be a mapping, a sequence of mappings or null)" % (vn, sorted(ca[vn]), sorted(expected[vn])), config, ctx.where(a))
        # null-like scalars → empty; everything else scalar → error: the nullish true edge must not reach the error
        for f in (a, b_):
            for sb, sym, tt, ff in bool_switches(f):
                if sym[0] == "call" and sym[1].endswith("scalar_is_nullish"):
                    merr = [bb for bb, i, adt, var, fl, ops, s_ in aggregates(f) if adt == "de_error::Error" and var == "MergeValueNotMapOrSeqOfMaps"]
                    ctx.check(any(last_seg(fx.callee(xt)) == "new" and "Vec" in fx.callee(xt) for x, xt in f.calls() if x in f.reachable([tt])) and must_pass(f, [ff], merr + [x for x, t in f.calls() if fx.callee(t) in ("de::collect_entries_from_map", "de::capture_node")]), "SIBLING", "C03:SIBLING:%s:null-is-empty" % f.name,
                              "a null-like scalar merge value can contribute nothing and any other scalar is rejected", "a scalar merge value that is not null-like is not rejected with MergeValueNotMapOrSeqOfMaps (or a null-like one can no longer yield the empty entry list)", config, ctx.where(f, sb))
        # eof
        for f in (a, b_):
            eofs = [bb for bb, t in f.calls() if fx.callee(t) == "de_error::Error::eof"]
            ctx.check(len(eofs) >= 2, "SIBLING", "C03:SIBLING:%s:eof" % f.name, "end of stream inside a merge value is an error", "%s no longer reports EOF inside a merge value" % f.name, config, ctx.where(f))
        # every element of a merge sequence is classified: after an element is captured inside the sequence loop, the only ways on are
        # the recursive expansion (which rejects anything that is not a mapping / null) or an error return — an element is never dropped
        ne = 0
        for f in (a, b_):
            loops = [c for c in f.sccs() if len(c) > 1]
            expand = [x for x, t in f.calls() if fx.callee(t) == "de::pending_entries_from_events"]
            errs = list(err_return_blocks(f))
            for cb, t in f.calls():
                if fx.callee(t) != "de::capture_node" or not any(cb in c for c in loops):
                    continue
                ne += 1
                nxt = t.get("t")
                okc = nxt is not None and must_pass(f, [nxt], expand + errs, to_blocks=[cb] + list(f.return_blocks()))
                ctx.check(okc, "SIBLING", "C03:SIBLING:%s:every-seq-element-classified" % f.name,
                          "each captured element of a merge sequence is handed to the recursive expansion (or an error is returned)",
                          "%s can drop a captured element of a merge sequence without handing it to pending_entries_from_events: an element that is not a mapping is silently ignored instead of rejected" % f.name,
                          config, ctx.where(f, cb))
        ctx.floor("SIBLING.seq-element-captures", ne, 2, config)
        # a `!!str` scalar is a string, not a null merge value (shared rule, C06)
        from .C06 import rule_str_tag_everywhere
        rule_str_tag_everywhere(ctx, fx, config, only=(a.npath, b_.npath), prop="C03", floor=2)
        # collector rejects non-mapping
        col = fx.fn("de::collect_entries_from_map")
        ctx.saw(col)
        from .C05 import end_edges
        ms = end_edges(col, fx, "MapStart")
        merr = [bb for bb, i, adt, var, fl, ops, s_ in aggregates(col) if adt == "de_error::Error" and var == "MergeValueNotMapOrSeqOfMaps"]
        okc = bool(ms) and bool(merr)
        if okc:
            sb, tg = ms[0]
            others = [x for x in col.succ[sb] if x != tg]
            okc = must_pass(col, others, merr)
        ctx.check(okc, "SIBLING", "C03:SIBLING:collector:rejects-non-mapping", "the mapping collector rejects anything but a MappingStart", "collect_entries_from_map accepts a non-mapping node", config, ctx.where(col))
        # merge keys are recognised inside merged mappings too
        ctx.check(any(fx.callee(t) == mk.npath for bb, t in col.calls()), "SIBLING", "C03:SIBLING:collector:nested-merges", "nested merge keys are expanded inside merged mappings", "collect_entries_from_map no longer recognises nested merge keys", config, ctx.where(col))
        # ---- ORDER: precedence among merge sources.  Merged entries are consumed first-occurrence-wins, and a later source
        # overrides an earlier one, so wherever several sources' batches are combined into one list they are taken
        # last-first: every list of batches (Vec<Vec<PendingEntry>>) is filled with push and drained with pop only.
        nb = 0
        for f2 in sorted(fx.fns.values(), key=lambda g: g.npath):
            if not f2.file.endswith("src/de.rs"):
                continue
            blocals = [i for i, l in enumerate(f2.d["locals"]) if "Vec<std::vec::Vec<de::PendingEntry" in l["ty"] and l.get("name") and not l["ty"].startswith("&")]
            for bl in blocals:
                nb += 1
                nm = f2.local_name(bl)
                ops = []
                for b2, t2 in f2.calls():
                    if t2["args"] and render(f2.sym_operand(t2["args"][0])) == nm:
                        ops.append(last_seg(fx.callee_decl(t2)))
                moved = any(s_["k"] == "assign" and s_["rv"]["k"] == "use" and (s_["rv"]["o"].get("mv") or {}).get("l") == bl and not (s_["rv"]["o"].get("mv") or {}).get("pr") for _b, _i, s_ in f2.stmts())
                bad = sorted(set(ops) - {"push", "pop", "new", "with_capacity", "is_empty", "len", "reserve"})
                # the other way to take the last batch first: `for x in list.into_iter().rev()` (the list is consumed whole)
                reversed_whole = False
                if "into_iter" in ops:
                    for b3, t3 in f2.calls():
                        if last_seg(fx.callee_decl(t3)) == "rev" and t3["args"] and re.match(r"^into_iter\(%s\)$" % re.escape(nm), render(f2.sym_operand(t3["args"][0]))):
                            reversed_whole = True
                    if reversed_whole:
                        bad = [x for x in bad if x != "into_iter"]
                        ops = ops + ["pop"]
                ctx.check("push" in ops and "pop" in ops and not bad, "ORDER", "C03:ORDER:batches-last-first:%s:%s" % (f2.name, nm), "`%s` is filled with push and drained with pop (last source first)" % nm,
                          "%s consumes its list of merge batches `%s` with %s: the batches are taken first-to-last, so an earlier merge source overrides a later one" % (f2.name, nm, bad or "something other than pop"), config, ctx.where(f2))
        ctx.floor("ORDER.batch-lists", nb, 3, config)
        # the mapping access's own stack of batches
        eq = [g for g in fx.fns.values() if g.name == "enqueue_next_merge_batch"]
        ctx.check(bool(eq) and any(last_seg(fx.callee_decl(t2)) == "pop" and render(g.sym_operand(t2["args"][0])).endswith("merge_stack") for g in eq for b2, t2 in g.calls()), "ORDER", "C03:ORDER:merge_stack-pop", "the mapping's merge batches are dequeued with pop (last `<<` entry first)", "enqueue_next_merge_batch no longer pops the merge stack", config, ctx.where(eq[0]) if eq else None)
        # ---- DOM: flushing
        f = fx.fn(NKS)
        ctx.saw(f)
        from .C04 import policy_sites
        sites = policy_sites(f, fx)
        loop_heads = [bb for bb, t in f.calls() if last_seg(fx.callee(t)) == "pop_front"]
        some_targets = []
        for bb in sorted(f.live_blocks):
            t = f.blocks[bb]["term"]
            if t["k"] == "switch":
                with f.deep():
                    sym = f.sym_operand(t["o"])
                if sym[0] == "discr" and sym[1][0] == "call" and last_seg(sym[1][1]) == "pop_front":
                    arms = dict(zip(t["vals"], t["tgts"]))
                    if 1 in arms:
                        some_targets.append((bb, arms[1]))
                    elif 0 in arms:
                        some_targets.append((bb, t["tgts"][-1]))
        def is_flush_flag(sb):
            # the field itself, or a local that was filled from it (`let from_merge = self.flushing_merges;`)
            with f.deep():
                d = render(f.sym_operand(f.blocks[sb]["term"]["o"]))
            return d == "self.flushing_merges"
        pend = [(sb, tt, ff) for sb, sym, tt, ff in bool_switches(f) if (render(sym) == "self.flushing_merges" or is_flush_flag(sb)) and any(f.edge_dominates(pb, pt, sb) for pb, pt in some_targets)]
        ctx.check(len(pend) >= 1, "DOM", "C03:DOM:flushing-test", "the pending branch distinguishes own entries from flushed merge entries", "next_key_seed no longer distinguishes flushed merge entries from own entries", config, ctx.where(f))
        for sb, tt, ff in pend:
            reach = f.reachable([tt], avoid=loop_heads)
            ctx.check(not any(ps in reach for ps, _a in sites), "DOM", "C03:DOM:flushing-bypasses-policy", "while flushing merges the duplicate-key policy is not consulted",
                      "merged entries are subjected to the duplicate-key policy: under the Error policy an own key that overrides a merged one would be rejected", config, ctx.where(f, sb))
            # already-seen keys are skipped silently while flushing
            okd = False
            for bb, sym, t2, f2 in bool_switches(f):
                with f.deep():
                    d = f.sym_operand(f.blocks[bb]["term"]["o"])
                if bb in reach and d[0] == "call" and last_seg(d[1]) == "contains" and "self.seen" in render(d):
                    delivered = [x for x, i, adt, var, fl, ops, s_ in aggregates(f) if s_["p"]["l"] == 0 and var == "Ok"]
                    errs = [x for x, i, adt, var, fl, ops, s_ in aggregates(f) if s_["p"]["l"] == 0 and var == "Err"]
                    r2 = f.reachable([t2], avoid=loop_heads)
                    okd = not (set(delivered) & r2) and not (set(errs) & r2)
            ctx.check(okd, "DOM", "C03:DOM:flushing-skips-seen", "own keys silently override merged ones (already-seen keys are skipped while flushing)",
                      "while flushing merges an already-seen key is delivered or reported instead of being skipped", config, ctx.where(f, sb))
        # the "we are serving merge batches" state lasts until the access answers None: it is switched off only on paths that
        # deliver nothing more.  Switched off after the first batch, every earlier `<<` entry of the mapping goes through the
        # duplicate-key policy (spurious duplicate error under Error; under LastWins the earlier `<<` wins).
        delivered_all = [x for x, i, adt, var, fl, ops, s_ in aggregates(f) if s_["p"]["l"] == 0 and var == "Ok" and render(f.sym_operand(s_["rv"]["ops"][0])).find("Some") >= 0]
        with f.deep():
            delivered_all = []
            for x, i, adt, var, fl, ops, s_ in aggregates(f):
                if s_["p"]["l"] == 0 and var == "Ok":
                    v = f.sym_operand(s_["rv"]["ops"][0])
                    if v[0] == "aggr" and v[2] == "Some":
                        delivered_all.append(x)
        nr = 0
        for bb, i, s_ in f.stmts():
            if s_["k"] == "assign" and s_["p"]["pr"] and render(f.sym_place(s_["p"])) == "self.flushing_merges":
                v = f.sym_rvalue(s_["rv"])
                if v == ("const", False, "bool"):
                    nr += 1
                    reach = f.reachable([bb])
                    ctx.check(not (set(delivered_all) & reach), "DOM", "C03:DOM:flushing-ends-only-at-none#%d" % nr, "`flushing_merges` is switched off only where nothing more is delivered",
                              "next_key_seed switches `flushing_merges` off on a path that goes on delivering keys: the merge batches served after it are treated as own entries and go through the duplicate-key policy", config, ctx.where(f, bb))
        ctx.floor("DOM.flushing-resets", nr, 1, config)
        # and every batch is enqueued in that state: the enqueue helper is called only where the flag is (or is about to be) true
        enq = [bb for bb, t in f.calls() if last_seg(fx.callee(t)) == "enqueue_next_merge_batch"]
        sets_true = [bb for bb, i, s_ in f.stmts() if s_["k"] == "assign" and s_["p"]["pr"] and render(f.sym_place(s_["p"])) == "self.flushing_merges" and f.sym_rvalue(s_["rv"]) == ("const", True, "bool")]
        flag_true_edges = [(sb, tt) for sb, sym, tt, ff in bool_switches(f) if render(sym) == "self.flushing_merges"]
        for k, eb in enumerate(enq, 1):
            oke = any(f.dominates(sb, eb) for sb in sets_true) or any(f.edge_dominates(sb, tt, eb) for sb, tt in flag_true_edges)
            ctx.check(oke, "DOM", "C03:DOM:batch-enqueued-while-flushing#%d" % k, "a merge batch is enqueued only while `flushing_merges` is set", "next_key_seed enqueues a merge batch on a path where `flushing_merges` is not known to be set: its entries are served as own entries", config, ctx.where(f, eb))
        ctx.floor("DOM.enqueue-sites", len(enq), 2, config)
        # ... which only works if every own key that reaches the visitor was recorded in the seen-set first, under every policy
        inserts = [bb for bb, t in f.calls() if last_seg(fx.callee(t)) == "insert" and render(f.sym_operand(t["args"][0])) == "self.seen"]
        nd = 0
        for x, i, adt, var, fl, ops, s_ in aggregates(f):
            if s_["p"]["l"] == 0 and var == "Ok":
                with f.deep():
                    v = f.sym_operand(s_["rv"]["ops"][0])
                if v[0] == "aggr" and v[2] == "Some":
                    nd += 1
                    ctx.check(any(f.dominates(ib, x) for ib in inserts), "DOM", "C03:DOM:own-keys-recorded", "every key handed to the visitor was recorded in the seen-set first (unconditionally)",
                              "a key can reach the visitor without being recorded in the seen-set (e.g. recorded only under some policy): a merged entry with the same key is then not suppressed and overrides the mapping's own value", config, ctx.where(f, x))
        ctx.floor("DOM.deliveries", nd, 2, config)
        # merge entries on the live path never reach the visitor directly: the merge arm `continue`s
        for bb, t in f.calls():
            if fx.callee(t) == b_.npath:
                delivered = [x for x, i, adt, var, fl, ops, s_ in aggregates(f) if s_["p"]["l"] == 0 and var == "Ok"]
                reach = f.reachable([t["t"]], avoid=loop_heads)
                ctx.check(not (set(delivered) & reach), "DOM", "C03:DOM:merge-entry-not-delivered", "a `<<` entry is never delivered as a key", "a merge entry can be delivered to the visitor as an ordinary key", config, ctx.where(f, bb))
                # it is reached only when is_merge_key answered true
                okm = any(sym[0] == "call" and sym[1] == mk.npath and f.edge_dominates(sb2, t2, bb) for sb2, sym, t2, f2 in bool_switches(f))
                ctx.check(okm, "DOM", "C03:DOM:merge-only-for-merge-keys", "merge expansion runs only for keys the predicate accepts", "merge expansion can run for a key that is_merge_key did not accept", config, ctx.where(f, bb))
