"""C07 — budget limits are enforced exactly and the usage report is accurate (DESIGN §4 C07).

Decides the code-shape half of the statement: each counter is compared strictly with *its*
limit and yields *its* breach; every raw parser event that the event source inspects has been
observed first; replayed events are observed through a kind-preserving mapping; the
per-document reset covers every accumulating field; all option components reach the event
source and every success path passes the finishing call, which invokes both report callbacks
before returning the delayed breach."""
from ..mir import norm, fieldpath, MissingAnchor, sym_contains
from ..rules import render, compares, aggregates, must_pass, writes_in, resets_in, bool_switches, last_seg, STRICT_REJECT_FORMS
from .. import proto

EXPLANATION = ("Static rules over the resolved MIR of /repo (per feature configuration): LIMIT (counter/limit/breach pairing "
               "with strict comparison and write->compare coverage), RESET (per-document reset completeness of the enforcer), "
               "OBSERVE (every match on a raw parser event in the event source is preceded by BudgetEnforcer::observe unless the "
               "budget is absent), REPLAY (kind-preserving re-observation of replayed events), PROTO p1/p4 (options threaded, "
               "finish on every success path) and FINISH (both callbacks before the breach). Decides necessary structural "
               "clauses, not equality of the report with an independent count.")
ASSUMPTIONS = ["rustc's MIR (opt-level 0) faithfully represents the compiled crate",
               "saphyr-parser delivers each event once; counting inside the dependency is out of scope",
               "a passing check means the structural obligations hold, not that the report equals an independent count"]

ENF = "budget::BudgetEnforcer"
BREACH = "budget::BudgetBreach"

# limit field -> (counter rendering (deep), breach variant, minimum number of compare sites)
LIMITS = {
    "self.budget.max_events": ("self.report.events", "Events", 1),
    "self.budget.max_nodes": ("self.report.nodes", "Nodes", 1),
    "self.budget.max_total_scalar_bytes": ("self.report.total_scalar_bytes", "ScalarBytes", 1),
    "self.budget.max_anchors": ("len(self.defined_anchors)", "Anchors", 1),
    "self.budget.max_depth": ("self.report.max_depth", "Depth", 2),
    "self.budget.max_aliases": ("self.report.aliases", "Aliases", 1),
    "self.budget.max_documents": ("self.report.documents", "Documents", 1),
    "self.budget.max_merge_keys": ("self.report.merge_keys", "MergeKeys", 1),
}
# fields whose carry-over across documents is documented / harmless
RESET_EXEMPT = {
    "self.report.documents": "documented: the document count is not reset (and not limited) under per-document enforcement",
    "self.report.breached": "written only by finalize(), after the stream",
}


def enforcer_methods(fx):
    ms = [f for f in fx.fns.values() if f.d.get("impl_adt") == ENF and f.kind == "assoc"]
    if not ms:
        raise MissingAnchor("no methods of %s" % ENF)
    return ms


def counter_write_blocks(fn, base):
    """blocks (and a start block for coverage) where `base` is written: assignment, or a call
    taking `&mut base` — for bool-returning `insert` the effect starts on its true edge."""
    out = []
    for b in sorted(fn.live_blocks):
        blk = fn.blocks[b]
        for s_ in blk["stmts"]:
            if s_["k"] == "assign" and s_["p"]["pr"] and render(fn.sym_place(s_["p"])) == base:
                out.append((b, b, s_.get("ln")))
        t = blk["term"]
        if t["k"] == "call":
            if t["dest"]["pr"] and render(fn.sym_place(t["dest"])) == base:
                out.append((b, t["t"], t.get("ln")))
            for a in t["args"]:
                pl = a.get("mv") or a.get("cp")
                if pl is None or pl["pr"]:
                    continue
                if fn.local_ty(pl["l"]).startswith("&mut ") and render(fn.sym_operand(a)) == base:
                    start = t["t"]
                    # idiom: `if set.insert(x) { … }` — the count grows on the true edge only
                    if start is not None and fn.blocks[start]["term"]["k"] == "switch" and not fn.blocks[start]["stmts"]:
                        sw = fn.blocks[start]["term"]
                        o = sw["o"]
                        pl2 = o.get("mv") or o.get("cp")
                        if pl2 is not None and pl2 == t["dest"] and sw["ty"] == "bool":
                            from ..rules import switch_edges
                            start = switch_edges(fn, start)[0]
                    out.append((b, start, t.get("ln")))
    return out


def rule_limit(ctx, fx, config):
    seen = {k: 0 for k in LIMITS}
    for f in enforcer_methods(fx):
        ctx.saw(f)
        with f.deep():
            cmps = list(compares(f))
        for c in cmps:
            lim_side = None
            if c["rl"] in LIMITS:
                lim_side = "l"
            elif c["rr"] in LIMITS:
                lim_side = "r"
            elif c["rl"].startswith("self.budget.max_") or c["rr"].startswith("self.budget.max_"):
                ctx.bad("LIMIT", "C07:LIMIT:%s:unknown-limit:%s~%s" % (f.npath, c["rl"], c["rr"]),
                        "comparison against a budget limit that is not in the reviewed table", config, ctx.where(f, ln=c["ln"]))
                continue
            else:
                continue
            limit = c["rl"] if lim_side == "l" else c["rr"]
            counter = c["rr"] if lim_side == "l" else c["rl"]
            exp_counter, variant, _ = LIMITS[limit]
            key = "C07:LIMIT:%s:%s" % (f.npath, limit.rsplit(".", 1)[-1])
            where = ctx.where(f, ln=c["ln"])
            if counter != exp_counter:
                ctx.bad("LIMIT", key + ":counter", "limit %s is compared with `%s`, expected `%s`" % (limit, counter, exp_counter), config, where)
                continue
            form = (c["op"], lim_side == "r")
            if form not in STRICT_REJECT_FORMS:
                ctx.bad("LIMIT", key + ":strict", "comparison `%s %s %s` does not reject exactly when count > limit (off-by-one or inverted)" % (c["rl"], c["op"], c["rr"]), config, where)
                continue
            reject = c["t"] if STRICT_REJECT_FORMS[form] else c["f"]
            # reject edge must construct the paired breach with the counter as payload, on every path
            agg_blocks = []
            payload_ok = True
            for b, i, adt, var, fields, ops, s_ in aggregates(f):
                if adt == BREACH and var == variant:
                    agg_blocks.append(b)
                    with f.deep():
                        pay = [render(f.sym_operand(o)) for o in s_["rv"]["ops"]]
                    if pay and pay[0] != exp_counter:
                        payload_ok = False
            okb = bool(agg_blocks) and must_pass(f, [reject], agg_blocks)
            ctx.check(okb, "LIMIT", key + ":breach", "reject edge constructs BudgetBreach::%s" % variant,
                      "the reject edge of `%s > %s` does not (always) construct BudgetBreach::%s" % (counter, limit, variant), config, where)
            ctx.check(payload_ok, "LIMIT", key + ":payload", "breach payload is the counter", "BudgetBreach::%s carries something other than `%s`" % (variant, exp_counter), config, where)
            seen[limit] += 1
            # write -> compare coverage inside this function
            base = exp_counter[4:-1] if exp_counter.startswith("len(") else exp_counter
            for wb, start, ln in counter_write_blocks(f, base):
                if start is None:
                    continue
                if wb in f.reachable([reject]) and reject != c["block"]:
                    # a write on the reject path itself (e.g. report.anchors = count before Err)
                    if wb in f.reachable([reject], avoid=[c["block"]]):
                        continue
                cmp_blocks = [cc["block"] for cc in cmps if {cc["rl"], cc["rr"]} == {limit, counter}]
                okw = start in cmp_blocks or must_pass(f, [start], cmp_blocks)
                ctx.check(okw, "LIMIT", key + ":covered", "every write of %s is followed by the comparison on all paths" % base,
                          "`%s` is updated (line %s) on a path that reaches a return without comparing it to %s" % (base, ln, limit), config, ctx.where(f, ln=ln))
    for limit, (cn, variant, floor) in LIMITS.items():
        ctx.floor("LIMIT.%s" % limit.rsplit(".", 1)[-1], seen[limit], floor, config)
    # alias/anchor ratio heuristic in finalize
    fin = fx.fn("budget::BudgetEnforcer::finalize")
    ctx.saw(fin)
    # the predicate may live in a `&self` helper of the enforcer: collect the comparisons of finalize and of the enforcer's
    # own methods it calls with `self`
    pred_fns = [fin]
    for cb, ct in fin.calls():
        g = fx.local_callee(ct)
        if g is not None and g.npath.startswith("budget::BudgetEnforcer::") and ct["args"] and render(fin.sym_operand(ct["args"][0])) in ("self", "&self", "ref(self)"):
            pred_fns.append(g)
            ctx.saw(g)
    cs, sw = set(), set()
    for g in pred_fns:
        with g.deep():
            cs |= {(c["op"], c["rl"], c["rr"]) for c in compares(g)}
            sw |= {render(sym) for _b, sym, _t, _f in bool_switches(g)}
            # a comparison that is the helper's returned value (last clause of an `&&` chain) feeds no switch
            for _b, _i, s_ in g.stmts():
                if s_["k"] == "assign":
                    v = g.sym_rvalue(s_["rv"])
                    if v[0] == "bin" and v[1] in ("Gt", "Ge", "Lt", "Le", "Eq", "Ne"):
                        cs.add((v[1], render(v[2]), render(v[3])))
    import re as _re
    need = [("Ge", "self.report.aliases", "self.budget.alias_anchor_min_aliases"),
            ("Eq", "self.report.anchors", "0")]
    for n_ in need:
        ctx.check(n_ in cs, "LIMIT", "C07:LIMIT:finalize:ratio:%s" % n_[0],
                  "ratio heuristic clause %s(%s, %s) present" % n_, "ratio heuristic clause %s(%s, %s) missing or altered; found %s" % (n_ + (sorted(cs),)), config, ctx.where(fin))
    # aliases > multiplier x anchors — any non-wrapping product of exactly these two factors, in either order
    okp = False
    for op, l, r in cs:
        if op == "Gt" and l == "self.report.aliases":
            m = _re.match(r"^(Mul|saturating_mul|checked_mul)\((.+), (.+)\)$", r)
            if m and {m.group(2), m.group(3)} == {"self.budget.alias_anchor_ratio_multiplier", "self.report.anchors"}:
                okp = True
    ctx.check(okp, "LIMIT", "C07:LIMIT:finalize:ratio:Gt", "ratio clause: aliases > multiplier x anchors (non-wrapping product)",
              "the ratio clause `aliases > multiplier x anchors` is missing or altered; found %s" % sorted(cs), config, ctx.where(fin))
    ctx.check("self.budget.enforce_alias_anchor_ratio" in sw, "LIMIT", "C07:LIMIT:finalize:ratio:switch",
              "heuristic is gated by enforce_alias_anchor_ratio", "the ratio heuristic is no longer gated by enforce_alias_anchor_ratio", config, ctx.where(fin))


def rule_scalar_bytes_operand(ctx, fx, config, prop="C07"):
    """What is added to `total_scalar_bytes` is the length of the scalar's text, for parser scalars and replayed ones alike:
    every increment's operand resolves — through the enforcer's own helpers and their callers, up to three levels — to `len(text)`
    and never to a constant, a conditional mix, or a separately supplied amount (a replayed scalar is materialised again in the
    target whether or not its text still borrows from the input)."""
    n = [0]

    def judge(f, sym, depth, trail):
        """returns list of (ok, description)"""
        if sym[0] == "call" and last_seg(sym[1]) == "len" and sym[2]:
            inner = sym[2][0]
            bad = sym_contains(inner, lambda x: x[0] == "const")
            return [(not bad, "%s: len(%s)" % (trail, render(inner)[:50]))]
        if sym[0] == "arg" and depth < 3:
            out = []
            for g, cb in fx.callers.get(f.npath, []):
                t = g.blocks[cb]["term"]
                if sym[1] - 1 < len(t["args"]):
                    with g.deep():
                        a = g.sym_operand(t["args"][sym[1] - 1])
                    out += judge(g, a, depth + 1, trail + " <- " + g.name)
            return out or [(False, "%s: parameter `%s` of an uncalled function" % (trail, sym[2]))]
        return [(False, "%s: `%s`" % (trail, render(sym)[:80]))]
    for f in sorted(fx.fns.values(), key=lambda g: g.npath):
        if not f.npath.startswith("budget::BudgetEnforcer::"):
            continue
        for b, i, s_ in f.stmts():
            if s_["k"] != "assign" or render(f.sym_place(s_["p"])) != "self.report.total_scalar_bytes":
                continue
            with f.deep():
                v = f.sym_rvalue(s_["rv"])
            add = None
            if v[0] == "call" and last_seg(v[1]) in ("saturating_add", "checked_add", "wrapping_add") and len(v[2]) == 2:
                add = v[2][1]
            elif v[0] == "field" and v[1][0] == "bin" and v[1][1] in ("AddWithOverflow",):
                add = v[1][3]
            elif v[0] == "bin" and v[1] == "Add":
                add = v[3]
            elif v[0] == "const" and v[1] == 0:
                continue  # reset
            if add is None:
                # written from a call result (`x = x.saturating_add(n)` lowers to a call terminator) — handled below
                continue
            for ok, why in judge(f, add, 0, f.name):
                n[0] += 1
                ctx.check(ok, "LIMIT", "%s:LIMIT:scalar-bytes-operand:%s" % (prop, f.name), "the amount charged to total_scalar_bytes is the length of the scalar's text (%s)" % why,
                          "total_scalar_bytes grows by something other than the scalar's own length (%s): scalars delivered to the target are not (all) charged against max_total_scalar_bytes" % why, config, ctx.where(f, b))
        for b, t in f.calls():
            if t["dest"]["pr"] and render(f.sym_place(t["dest"])) == "self.report.total_scalar_bytes" and last_seg(fx.callee(t)) in ("saturating_add", "checked_add", "wrapping_add") and len(t["args"]) == 2:
                with f.deep():
                    add = f.sym_operand(t["args"][1])
                for ok, why in judge(f, add, 0, f.name):
                    n[0] += 1
                    ctx.check(ok, "LIMIT", "%s:LIMIT:scalar-bytes-operand:%s" % (prop, f.name), "the amount charged to total_scalar_bytes is the length of the scalar's text (%s)" % why,
                              "total_scalar_bytes grows by something other than the scalar's own length (%s): scalars delivered to the target are not (all) charged against max_total_scalar_bytes" % why, config, ctx.where(f, b))
    ctx.floor("LIMIT.scalar-bytes-increments", n[0], 1, config)


def rule_container_slot(ctx, fx, config):
    """SLOT (containers): the enforcer tracks, per open mapping, whether the next node is a key or a value (only an untagged plain
    `<<` in *key* position is a merge key).  A container node occupies one slot of its parent mapping: closing it completes an
    entry only if it was opened in *value* position.  So (a) the container's frame records the position it was opened in — a
    value computed by `entering_container`, true exactly on the not-expecting-a-key path — and (b) `leave_sequence` /
    `leave_mapping` call `finish_value` only under that recorded flag.  Unconditional, a sequence or mapping used as a *key*
    (`? [a, b]`) flips the key/value parity of the rest of the mapping: later merge keys are not counted, plain `<<` values are."""
    ec = fx.fn("budget::BudgetEnforcer::entering_container")
    ctx.saw(ec)
    # (a1) entering_container answers `true` only where the parent mapping was NOT expecting a key
    trues = [b for b, i, s_ in ec.stmts() if s_["k"] == "assign" and s_["p"]["l"] == 0 and not s_["p"]["pr"] and ec.sym_rvalue(s_["rv"]) == ("const", True, "bool")]
    exp = [(sb, tt, ff) for sb, sym, tt, ff in bool_switches(ec) if render(sym).endswith("expecting_key")]
    oka = bool(trues) and bool(exp) and all(any(ec.edge_dominates(sb, ff, tb) for sb, tt, ff in exp) for tb in trues)
    ctx.check(oka, "SLOT", "C07:SLOT:container:opened-in-value-position", "entering_container answers true exactly on the path where the parent mapping was not expecting a key",
              "entering_container no longer tells key position from value position (its `true` answer is not confined to the not-expecting-a-key edge, or it answers nothing)", config, ctx.where(ec))
    # (a2) the frames pushed by observe carry that answer
    obs = fx.fn("budget::BudgetEnforcer::observe")
    nfr = 0
    for b, i, adt, var, fl, ops, s_ in aggregates(obs):
        if adt == "budget::ContainerState":
            nfr += 1
            okf = "from_mapping_value" in fl
            if okf:
                with obs.deep():
                    v = obs.sym_operand(s_["rv"]["ops"][fl.index("from_mapping_value")])
                okf = v[0] == "call" and v[1] == ec.npath
            ctx.check(okf, "SLOT", "C07:SLOT:container:frame-records-position:%s" % var, "the %s frame records the position the container was opened in (entering_container's answer)" % var,
                      "the %s frame pushed by observe does not record whether the container was opened in value position" % var, config, ctx.where(obs, b))
    ctx.floor("SLOT.container-frames", nfr, 2, config)
    # (b) leave_* completes an entry only under the recorded flag
    for nm in ("leave_sequence", "leave_mapping"):
        g = fx.fn("budget::BudgetEnforcer::" + nm)
        ctx.saw(g)
        fin = [b for b, t in g.calls() if fx.callee(t) == "budget::BudgetEnforcer::finish_value"]
        with g.deep():
            flags = [(sb, tt) for sb, sym, tt, ff in bool_switches(g) if "from_mapping_value" in render(g.sym_operand(g.blocks[sb]["term"]["o"])) and "pop(" in render(g.sym_operand(g.blocks[sb]["term"]["o"]))]
        okb = bool(fin) and bool(flags) and all(any(g.edge_dominates(sb, tt, fb) for sb, tt in flags) for fb in fin)
        ctx.check(okb, "SLOT", "C07:SLOT:container:%s:finish-only-in-value-position" % nm, "%s completes the parent's entry only if the popped frame was opened in value position" % nm,
                  "%s calls finish_value whatever position the container was opened in: closing a sequence / mapping used as a *key* makes the parent expect a key again, so the following value is taken for a key and every later `<<` of that mapping is mis-counted" % nm, config, ctx.where(g))


def rule_ratio_only_at_end(ctx, fx, config):
    """The alias/anchor ratio is a statement about a whole counting unit (all anchors of the input — of the document under
    per-document enforcement — wherever they are defined).  It is evaluated only (a) by `finalize`, or (b) by `observe` on the
    DocumentEnd event under per-document enforcement, in both cases after `report.anchors` was brought up to date from the
    defined-anchor set — never while nodes are still being observed, where a prefix with few anchors so far would be rejected
    although the unit as a whole is within the ratio.  And under per-document enforcement (b) exists: finalize only ever sees the
    counters of the last document."""
    bud = [f for f in fx.fns.values() if f.npath.startswith("budget::")]
    builders = {f.npath for f in bud for b, i, adt, var, fl, ops, s_ in aggregates(f) if adt == "budget::BudgetBreach" and var == "AliasAnchorRatio"}
    called = {fx.callee(t) for f in bud for b, t in f.calls()}
    helpers = builders & called
    sites = []
    for f in bud:
        if f.npath in builders and f.npath not in helpers:
            sites += [(f, b) for b, i, adt, var, fl, ops, s_ in aggregates(f) if adt == "budget::BudgetBreach" and var == "AliasAnchorRatio"]
        sites += [(f, b) for b, t in f.calls() if fx.callee(t) in helpers]
    ctx.floor("LIMIT.ratio-evaluation-sites", len(sites), 2, config)
    obs = fx.fn("budget::BudgetEnforcer::observe")
    evn = [v["name"] for v in fx.adt("saphyr_parser_bw::Event")["variants"]]
    docend = set()
    for b in sorted(obs.live_blocks):
        t = obs.blocks[b]["term"]
        if t["k"] == "switch":
            sym = obs.sym_operand(t["o"])
            if sym[0] == "discr" and render(sym[1]) in ("ev", "*ev", "deref(ev)"):
                arms = dict(zip(t["vals"], t["tgts"]))
                tgt = arms.get(evn.index("DocumentEnd"))
                if tgt is not None and list(t["tgts"]).count(tgt) == 1:
                    docend = {x for x in obs.live_blocks if obs.dominates(tgt, x)}
    perdoc = per_document_blocks(obs)
    have_b = False
    for f, b in sites:
        w = [wb for wb, i, s_ in f.stmts() if s_["k"] == "assign" and render(f.sym_place(s_["p"])) == "self.report.anchors"]
        counted = bool(w) and any(f.dominates(wb, b) for wb in w)
        if f.npath == "budget::BudgetEnforcer::finalize":
            ok = counted
        elif f.npath == obs.npath:
            ok = counted and b in docend and b in perdoc
            have_b = have_b or ok
        else:
            ok = False
        ctx.check(ok, "LIMIT", "C07:LIMIT:ratio:only-at-end-of-unit:%s" % f.name, "the alias/anchor ratio is evaluated only at the end of the input (finalize) or of a document (DocumentEnd under per-document enforcement), after the anchors were counted",
                  "%s evaluates the alias/anchor ratio while the unit is still being read (or before its anchors were counted): an input that defines its anchors after a run of aliases is rejected although every quantity is within its limit" % f.npath,
                  config, ctx.where(f, b))
    ctx.check(have_b, "LIMIT", "C07:LIMIT:ratio:per-document", "under per-document enforcement the ratio is evaluated at every document end",
              "under per-document enforcement the alias/anchor ratio is not evaluated at the document end: finalize sees only the last document's counters, so an over-ratio document followed by another one is accepted", config, ctx.where(obs))


def per_document_blocks(obs):
    """blocks of `observe` that run only under EnforcingPolicy::PerDocument (any test of the policy)"""
    out = set()
    for b, sym, tt, ff in bool_switches(obs):
        if sym[0] == "call" and "PartialEq" in sym[1] and "EnforcingPolicy" in sym[1] and tt != ff:
            args = [render(a) for a in sym[2]]
            if "self.policy" in args and any("PerDocument" in a for a in args):
                edge = tt if last_seg(sym[1]) == "eq" else ff
                out |= {x for x in obs.live_blocks if obs.edge_dominates(b, edge, x)}
    return out


def per_document_region(obs):
    """the PerDocument arm that opens a new account (several arms may test the policy: the one that resets is meant)"""
    cands = []
    for b, sym, tt, ff in bool_switches(obs):
        if sym[0] == "call" and "PartialEq" in sym[1] and "EnforcingPolicy" in sym[1]:
            args = [render(a) for a in sym[2]]
            if "self.policy" in args and any("PerDocument" in a for a in args) and tt != ff:
                edge = tt if last_seg(sym[1]) == "eq" else ff
                cands.append({x for x in obs.live_blocks if obs.dominates(edge, x)})
    # the same test written as a `match self.policy { PerDocument => .., AllContent => .. }`
    for b in sorted(obs.live_blocks):
        t = obs.blocks[b]["term"]
        if t["k"] != "switch":
            continue
        sym = obs.sym_operand(t["o"])
        if sym[0] == "discr" and render(sym[1]) == "self.policy":
            names = [v["name"] for v in obs.facts.adt("budget::EnforcingPolicy")["variants"]]
            if "PerDocument" in names:
                idx = names.index("PerDocument")
                edge = t["tgts"][t["vals"].index(idx)] if idx in t["vals"] else t["tgts"][-1]
                if t["tgts"].count(edge) == 1:
                    cands.append({x for x in obs.live_blocks if obs.dominates(edge, x)})
    for reg in cands:
        for x in reg:
            t = obs.blocks[x]["term"]
            if t["k"] == "call" and "reset" in last_seg(str(t["f"].get("res") or t["f"].get("path", ""))):
                return reg
    return cands[0] if cands else None


def accumulating_fields(fx):
    """fields of the enforcer written by observe() and its callees outside the per-document arm."""
    obs = fx.fn("budget::BudgetEnforcer::observe")
    region = per_document_region(obs) or set()
    allw = writes_in(obs, fx, blocks=obs.live_blocks - region)
    return {p: w for p, w in allw.items() if p.startswith("self.") and p not in RESET_EXEMPT}, allw


def rule_reset(ctx, fx, config, prop="C07"):
    obs = fx.fn("budget::BudgetEnforcer::observe")
    ctx.saw(obs)
    region = per_document_region(obs)
    if not ctx.check(region is not None, "RESET", "%s:RESET:observe:per-document-arm" % prop, "per-document arm found (policy == PerDocument)",
                     "cannot find the `policy == PerDocument` arm of observe(): per-document enforcement is gone or restructured", config, ctx.where(obs)):
        return
    acc, allw = accumulating_fields(fx)
    resw = resets_in(obs, fx, blocks=region)

    def covered(p):
        return any(p == r or p.startswith(r + ".") for r in resw)
    n = 0
    for p in sorted(x for x in allw if x.startswith("self.") and x != "self"):
        n += 1
        key = "%s:RESET:observe:%s" % (prop, p)
        if p in RESET_EXEMPT:
            ctx.ok("RESET", key, "exempt: %s" % RESET_EXEMPT[p], config, ctx.where(obs))
            continue
        ctx.check(covered(p), "RESET", key, "accumulating field is cleared in the per-document arm (%s)" % (resw.get(p, ["via parent"])[0]),
                  "`%s` accumulates in observe() (written at %s) but is not cleared at the document start under PerDocument: earlier documents influence whether a later one is accepted" % (p, allw[p][0]),
                  config, ctx.where(obs))
    ctx.floor("RESET.fields", n, 11, config)


def place_root_type(fn, p):
    """type of the place a `discr` statement reads (best effort from projection types)."""
    ty = fn.local_ty(p["l"])
    for e in p["pr"]:
        if e == "*":
            ty = ty.lstrip("&")
            if ty.startswith("mut "):
                ty = ty[4:]
        elif isinstance(e, dict) and "ty" in e:
            ty = e["ty"]
    return ty


def event_matches(f):
    """(block, term) of every switch on the discriminant of a raw parser Event."""
    for b in sorted(f.live_blocks):
        blk = f.blocks[b]
        t = blk["term"]
        if t["k"] != "switch":
            continue
        pl = t["o"].get("mv") or t["o"].get("cp")
        if pl is None:
            continue
        dst = None
        for s_ in blk["stmts"]:
            if s_["k"] == "assign" and s_["p"] == pl and s_["rv"]["k"] == "discr":
                dst = s_["rv"]["p"]
        if dst is None:
            continue
        if place_root_type(f, dst).startswith("saphyr_parser_bw::Event<"):
            yield b, t


def budget_none_edges(f):
    none_edges = set()
    for b in sorted(f.live_blocks):
        t = f.blocks[b]["term"]
        if t["k"] == "switch":
            sym = f.sym_operand(t["o"])
            if sym[0] == "discr" and (render(sym[1]) == "self.budget" or (sym[1][0] == "call" and [render(a) for a in sym[1][2]] == ["self.budget"])):
                for v, tg in zip(t["vals"], t["tgts"]):
                    if v == 0:
                        none_edges.add((b, tg))
                if 0 not in t["vals"]:
                    none_edges.add((b, t["tgts"][-1]))
    return none_edges


def reach_avoiding(f, starts, avoid_blocks, avoid_edges):
    seen = set()
    st = list(starts)
    while st:
        x = st.pop()
        if x in seen or x in avoid_blocks:
            continue
        seen.add(x)
        for s2 in f.succ[x]:
            if (x, s2) not in avoid_edges:
                st.append(s2)
    return seen


def rule_observe(ctx, fx, config):
    """(a) a function of the event source that *delivers* events matches a raw parser event only
    after `BudgetEnforcer::observe` (unless no budget is configured); (b) a function that only
    drops raw events must, on the DocumentStart arm, let the enforcer restart its per-document
    accounting (observe, or an enforcer method clearing every accumulating field)."""
    nsites = 0
    acc, _ = accumulating_fields(fx)
    resetting = {"budget::BudgetEnforcer::observe"}
    for m in enforcer_methods(fx):
        rs = resets_in(m, fx)
        if all(any(p == r or p.startswith(r + ".") for r in rs) for p in acc):
            resetting.add(m.npath)
    ev_variants = [v["name"] for v in fx.adt("saphyr_parser_bw::Event")["variants"]]
    ds_idx = ev_variants.index("DocumentStart")
    for f in fx.fns.values():
        if f.d.get("impl_adt") != "live_events::LiveEvents":
            continue
        pulls = [b for b, t in f.calls() if fx.callee(t) == "live_events::SaphyrParser::next"]
        if not pulls:
            continue
        ctx.saw(f)
        delivers = "de::Ev<" in f.d.get("sig", "").split("->")[-1]
        obs_blocks = [b for b, t in f.calls() if fx.callee(t) == "budget::BudgetEnforcer::observe"]
        reset_blocks = [b for b, t in f.calls() if fx.callee(t) in resetting]
        none_edges = budget_none_edges(f)
        k = 0
        for b, t in event_matches(f):
            k += 1
            nsites += 1
            dom_pulls = [p for p in pulls if f.dominates(p, b)]
            key = "C07:OBSERVE:%s:event-match#%d" % (f.npath, k)
            if not dom_pulls:
                ctx.bad("OBSERVE", key, "match on a raw parser event not dominated by a parser pull (unrecognised idiom)", config, ctx.where(f, b))
                continue
            pull = max(dom_pulls, key=lambda p: len(f.dom[p]))
            if delivers:
                seen = reach_avoiding(f, [f.blocks[pull]["term"]["t"]], set(obs_blocks), none_edges)
                if b in seen:
                    exempt = False
                    if stop_at_doc_end_always_false(fx):
                        for sb, ssym, tt, ff in bool_switches(f):
                            if render(ssym) == "self.stop_at_doc_end" and f.dominates(tt, b) and tt != ff:
                                exempt = True
                    if exempt:
                        ctx.ok("OBSERVE", key, "exempt: look-ahead under stop_at_doc_end, which every constructor call passes as constant false (re-checked)", config, ctx.where(f, b))
                    else:
                        ctx.bad("OBSERVE", "C07:OBSERVE:%s:unobserved-pull" % f.npath,
                                "a raw parser event pulled at line %s is matched (line %s) and can be delivered without passing BudgetEnforcer::observe" % (f.blocks[pull]["term"].get("ln"), t.get("ln")),
                                config, ctx.where(f, b))
                else:
                    ctx.ok("OBSERVE", key, "event is observed before it is matched (or no budget is configured)", config, ctx.where(f, b))
            else:
                arms = dict(zip(t["vals"], t["tgts"]))
                tgt = arms.get(ds_idx, t["tgts"][-1])
                seen = reach_avoiding(f, [tgt], set(reset_blocks), none_edges)
                leak = [x for x in seen if f.blocks[x]["term"]["k"] == "return" or x in pulls]
                ctx.check(not leak, "OBSERVE", "C07:OBSERVE:%s:document-start-unobserved" % f.npath,
                          "the DocumentStart arm restarts the enforcer's per-document accounting (%s)" % ", ".join(sorted(x.rsplit("::", 1)[-1] for x in resetting)),
                          "raw events are dropped without passing the budget and the DocumentStart arm (line %s) reaches a return / the next pull without observe() or a per-document restart: depth, container and anchor state of the skipped document leak into the next one" % t.get("ln"),
                          config, ctx.where(f, b))
    ctx.floor("OBSERVE.sites", nsites, 3, config)


def stop_at_doc_end_always_false(fx):
    ok = True
    cnt = 0
    for e in proto.entries(fx):
        a = e.term["args"][5]
        sym = e.fn.sym_operand(a)
        cnt += 1
        if not (sym[0] == "const" and sym[1] is False):
            ok = False
    return ok and cnt > 0


EV2EVENT = {"Scalar": "Scalar", "SeqStart": "SequenceStart", "SeqEnd": "SequenceEnd", "MapStart": "MappingStart", "MapEnd": "MappingEnd"}


def enforcer_effects(fx, g, seen=None):
    """fields of the enforcer written and enforcer methods called by `g`, transitively over BudgetEnforcer methods"""
    seen = seen if seen is not None else set()
    if g.npath in seen:
        return set()
    seen.add(g.npath)
    eff = set()
    for b, i, s_ in g.stmts():
        if s_["k"] == "assign":
            r = render(g.sym_place(s_["p"]))
            if r.startswith("self.report.") or r in ("self.depth",):
                eff.add(r)
    for b, t in g.calls():
        c = fx.callee(t)
        if t["dest"]["pr"]:
            r = render(g.sym_place(t["dest"]))
            if r.startswith("self.report.") or r in ("self.depth",):
                eff.add(r)
        if c.startswith("budget::BudgetEnforcer::"):
            eff.add("call:" + last_seg(c))
            h = fx.local_callee(t)
            if h is not None:
                eff |= enforcer_effects(fx, h, seen)
        if last_seg(c) == "push" and t["args"] and render(g.sym_operand(t["args"][0])).endswith("self.containers"):
            eff.add("self.containers.push")
    return eff


# what observing a replayed node of each kind must charge, whichever enforcer entry point is used
REPLAY_EFFECTS = {
    "Scalar": {"self.report.events", "self.report.nodes", "self.report.total_scalar_bytes", "call:handle_scalar"},
    "SeqStart": {"self.report.events", "self.report.nodes", "self.depth"},
    "MapStart": {"self.report.events", "self.report.nodes", "self.depth"},
    "SeqEnd": {"self.report.events", "self.depth"},
    "MapEnd": {"self.report.events", "self.depth"},
}


def rule_replay(ctx, fx, config):
    f = fx.fn("live_events::LiveEvents::observe_budget_for_replay")
    ctx.saw(f)
    ev = fx.adt("de::Ev")
    vnames = [v["name"] for v in ev["variants"]]
    obs_blocks = [b for b, t in f.calls() if fx.callee(t) == "budget::BudgetEnforcer::observe"]
    ctx.check(len(obs_blocks) >= 1, "REPLAY", "C07:REPLAY:observe-call", "replay helper calls observe", "observe_budget_for_replay no longer calls BudgetEnforcer::observe", config, ctx.where(f))
    # the switch on discr(ev)
    found = False
    for b in sorted(f.live_blocks):
        t = f.blocks[b]["term"]
        if t["k"] != "switch":
            continue
        sym = f.sym_operand(t["o"])
        if sym[0] == "discr" and render(sym[1]) in ("ev", "*ev"):
            found = True
            arms = dict(zip(t["vals"], t["tgts"]))
            for vi, vn in enumerate(vnames):
                tgt = arms.get(vi, t["tgts"][-1])
                region = f.reachable([tgt], avoid=obs_blocks)
                built = {var for bb, i, adt, var, fl, ops, s_ in aggregates(f, region) if adt == "saphyr_parser_bw::Event"}
                key = "C07:REPLAY:map:%s" % vn
                if vn in EV2EVENT:
                    # the arm's own aggregate: exclude aggregates shared by other arms
                    # a dedicated enforcer entry point for replayed nodes is as good as `observe` when it charges the same things
                    alt = False
                    others = [x for v2, x in arms.items() if x != tgt]
                    for cb, ct in f.calls():
                        c = fx.callee(ct)
                        if cb in f.reachable([tgt], avoid=others) and c.startswith("budget::BudgetEnforcer::") and c != "budget::BudgetEnforcer::observe":
                            h = fx.local_callee(ct)
                            if h is not None and REPLAY_EFFECTS[vn] <= (enforcer_effects(fx, h) | {"call:" + last_seg(c)}) and must_pass(f, [tgt], [cb] + obs_blocks, to_blocks=f.return_blocks()):
                                alt = True
                                ctx.saw(h)
                    ctx.check(alt or EV2EVENT[vn] in built and must_pass(f, [tgt], obs_blocks, to_blocks=f.return_blocks()) or (EV2EVENT[vn] in built and obs_blocks and all(ob in f.reachable([tgt]) for ob in obs_blocks)),
                              "REPLAY", key, "Ev::%s is re-observed as Event::%s" % (vn, EV2EVENT[vn]),
                              "replayed Ev::%s is not re-observed as Event::%s (built: %s): replayed nodes are mis-counted" % (vn, EV2EVENT[vn], sorted(built)), config, ctx.where(f, tgt))
                    # and it must build ONLY its own kind before reaching observe
                    own = {var for bb, i, adt, var, fl, ops, s_ in aggregates(f, f.reachable([tgt], avoid=obs_blocks + [x for v2, x in arms.items() if x != tgt])) if adt == "saphyr_parser_bw::Event"}
                    ctx.check(own <= {EV2EVENT[vn]}, "REPLAY", key + ":only", "arm builds only its own kind", "arm for Ev::%s builds %s" % (vn, sorted(own)), config, ctx.where(f, tgt))
                else:
                    ctx.check(not (set(obs_blocks) & region), "REPLAY", key, "non-node variant %s is not re-observed (it never appears in a replay buffer)" % vn, "the non-node variant Ev::%s reaches the enforcer as if it were a replayed node" % vn, config, ctx.where(f, tgt))
    ctx.check(found, "REPLAY", "C07:REPLAY:switch", "kind switch found", "cannot find the match on the replayed event's kind", config, ctx.where(f))
    # a replayed scalar is re-observed with its taggedness: the enforcer counts an untagged plain `<<` key only
    oktag = False
    for bb, i, adt, var, fl, ops, s_ in aggregates(f):
        if adt == "saphyr_parser_bw::Event" and var == "Scalar" and len(s_["rv"]["ops"]) >= 4:
            with f.deep():
                tg = render(f.sym_operand(s_["rv"]["ops"][3]))
            oktag = oktag or ("raw_tag" in tg or ".tag" in tg or "tag" in tg.replace("saphyr_parser_bw::Tag", "")) and not tg.endswith("None{}")
    # … or through a dedicated entry point that is told the taggedness (a bool argument computed from the recorded tag)
    for cb, ct in f.calls():
        c = fx.callee(ct)
        if c.startswith("budget::BudgetEnforcer::") and c != "budget::BudgetEnforcer::observe":
            for a in ct["args"][1:]:
                with f.deep():
                    tg = render(f.sym_operand(a))
                if ("raw_tag" in tg or "tag" in tg) and ("is_some" in tg or "Ne(" in tg or "ne(" in tg or "phi(" in tg):
                    oktag = True
    ctx.check(oktag, "REPLAY", "C07:REPLAY:scalar-taggedness", "a replayed scalar is re-observed as tagged iff the recorded scalar was tagged",
              "observe_budget_for_replay hands replayed scalars to the enforcer without a tag: a tagged `<<` key inside a replayed mapping is counted as a merge key", config, ctx.where(f))
    # in next_impl: every Ok(Some(ev)) produced inside the inject loop is dominated by the replay observation
    ni = fx.fn("live_events::LiveEvents::next_impl")
    ctx.saw(ni)
    from ..rules import lifted, lifted_stmt_blocks
    LEADT = "live_events::LiveEvents"
    # (directly, or through a helper of the event source in which the call is unavoidable)
    rb = lifted(fx, ni, lambda g, b, t: fx.callee(t) == f.npath, same_adt=LEADT)
    ctx.check(len(rb) >= 1, "REPLAY", "C07:REPLAY:next_impl:call", "next_impl calls the replay observation", "next_impl no longer calls observe_budget_for_replay", config, ctx.where(ni))
    # the replayed event: buf[idx].clone() ... returned.  Rule: the block that increments
    # total_replayed_events (the replay path marker) must reach a return only through the replay observation
    marks = lifted_stmt_blocks(fx, ni, lambda g, s_: s_["k"] == "assign" and s_["p"]["pr"] and render(g.sym_place(s_["p"])) == "self.total_replayed_events" and g.sym_rvalue(s_["rv"])[0] != "const", same_adt=LEADT)
    okret = [b for b, i, adt, var, fl, ops, s_ in aggregates(ni) if s_["p"]["l"] == 0 and not s_["p"]["pr"] and adt.endswith("result::Result") and var == "Ok"]
    ctx.check(bool(marks) and must_pass(ni, marks, rb, to_blocks=okret), "REPLAY", "C07:REPLAY:next_impl:dominates",
              "every replayed event passes observe_budget_for_replay before it is returned",
              "a replayed event can be returned without passing the budget", config, ctx.where(ni, marks[0] if marks else None))

    # SLOT: a replayed alias is observed twice (the raw Alias event and the replayed node); only one of the two may advance
    # the key/value position of the enclosing mapping.  Every path that schedules a replay (push onto self.inject) with a
    # budget present passes the call that gives the alias's slot back; the paths that do not replay never call it.
    refill = [b for b, t in ni.calls() if fx.callee(t) == "budget::BudgetEnforcer::alias_slot_refilled_by_replay"]
    pushes = []
    for b, t in ni.calls():
        if last_seg(fx.callee_decl(t)) == "push" and t["args"]:
            with ni.deep():
                if render(ni.sym_operand(t["args"][0])).endswith("self.inject"):
                    pushes.append(b)
    ctx.check(len(pushes) >= 1, "REPLAY", "C07:REPLAY:slot:push-site", "replay scheduling site found (%d)" % len(pushes), "cannot find where next_impl schedules a replay (self.inject.push)", config, ctx.where(ni))
    free = reach_avoiding(ni, [0], set(refill), budget_none_edges(ni))
    leak = [b for b in pushes if b in free]
    ctx.check(bool(refill) and not leak, "REPLAY", "C07:REPLAY:slot:alias-gives-slot-back",
              "with a budget, a replay is scheduled only after the raw alias's key/value slot was given back to the replayed node",
              "next_impl schedules an alias replay without giving the raw alias's slot back: the alias and the replayed node both advance the enclosing "
              "mapping's key/value position, the next key is taken for a value and a following `<<` is not counted (max_merge_keys not enforced)", config, ctx.where(ni, (leak or pushes or [None])[0]))
    # ... and the synthetic (non-replayed) results of the alias arm are not reachable from the call
    for rb_ in refill:
        after = ni.reachable([ni.blocks[rb_]["term"]["t"]], avoid=pushes) if ni.blocks[rb_]["term"].get("t") is not None else set()
        rets = [b for b in okret if b in after and not any(ni.dominates(p_, b) for p_ in pushes)]
        # after the call, control continues to the push; an Ok return reachable while avoiding the push would be a node that keeps the slot twice given back
        ctx.check(not rets, "REPLAY", "C07:REPLAY:slot:only-when-replayed", "the slot is given back only on the path that replays",
                  "the alias slot is given back on a path that returns without scheduling a replay", config, ctx.where(ni, rb_))
    g = fx.fn("budget::BudgetEnforcer::alias_slot_refilled_by_replay")
    ctx.saw(g)
    tog = False
    for b, i, s_ in g.stmts():
        if s_["k"] == "assign" and s_["p"]["pr"]:
            with g.deep():
                dst = render(g.sym_place(s_["p"]))
                v = g.sym_rvalue(s_["rv"])
            if dst.endswith("expecting_key") and v[0] == "un" and v[1] == "Not" and render(v[2]) == dst:
                tog = True
    ctx.check(tog, "REPLAY", "C07:REPLAY:slot:toggle", "the slot give-back inverts expecting_key of the innermost mapping", "alias_slot_refilled_by_replay no longer inverts expecting_key", config, ctx.where(g))


def rule_finish(ctx, fx, config):
    f = fx.fn(proto.FINISH)
    ctx.saw(f)
    # finalize call, the two callbacks (indirect calls), breach return
    fin_b = [b for b, t in f.calls() if fx.callee(t) == "budget::BudgetEnforcer::finalize"]
    ctx.check(len(fin_b) == 1, "FINISH", "C07:FINISH:finalize", "finish() finalises the enforcer", "finish() does not call BudgetEnforcer::finalize exactly once", config, ctx.where(f))
    if not fin_b:
        return
    indirect = []
    for b, t in f.calls():
        if "ptr" in t["f"]:
            indirect.append((b, "fnptr"))
        else:
            c = fx.callee_decl(t)
            if c.endswith("FnMut::call_mut") or c.endswith("FnOnce::call_once") or c.endswith("Fn::call"):
                indirect.append((b, "dyn"))
    kinds = sorted(k for _b, k in indirect)
    ctx.check(kinds == ["dyn", "fnptr"], "FINISH", "C07:FINISH:callbacks", "both report callbacks (fn pointer and boxed closure) are invoked",
              "finish() must invoke exactly the fn-pointer callback and the boxed callback; found %s" % kinds, config, ctx.where(f))
    # the breach error return must come after both callback sites (each callback is conditional on being set:
    # its *test* must dominate the breach return)
    errb = [b for b, t in f.calls() if fx.callee(t) == "de_error::budget_error"]
    ctx.check(len(errb) >= 1, "FINISH", "C07:FINISH:breach", "delayed breach is converted to an error", "finish() no longer surfaces report.breached", config, ctx.where(f))
    tests = []
    for b in sorted(f.live_blocks):
        t = f.blocks[b]["term"]
        if t["k"] == "switch":
            sym = f.sym_operand(t["o"])
            if sym[0] == "discr" and render(sym[1]) in ("self.budget_report", "self.budget_report_cb"):
                tests.append((b, render(sym[1])))
    for eb in errb:
        for tb, nm in tests:
            ctx.check(f.dominates(tb, eb), "FINISH", "C07:FINISH:order:%s" % nm, "callback test precedes the breach return",
                      "the breach can be returned before the %s callback is considered" % nm, config, ctx.where(f, eb))
    ctx.floor("FINISH.callback-tests", len(tests), 2, config)
    # report passed to callbacks is the finalize() result
    # default budget is on
    od = fx.fn("<options::Options as std::default::Default>::default")
    ctx.saw(od)
    has = False
    for b, i, adt, var, fl, ops, s_ in aggregates(od):
        if adt == "options::Options":
            idx = fl.index("budget") if "budget" in fl else -1
            with od.deep():
                v = od.sym_operand(s_["rv"]["ops"][idx]) if idx >= 0 else None
            if v and v[0] == "aggr" and v[2] == "Some":
                has = True
    ctx.check(has, "FINISH", "C07:DEFAULT:budget-on", "Options::default() carries Some(budget)", "Options::default() no longer enables a budget", config, ctx.where(od))


def run(ctx):
    for config in ctx.configs:
        fx = ctx.facts(config)
        rule_limit(ctx, fx, config)
        rule_ratio_only_at_end(ctx, fx, config)
        rule_container_slot(ctx, fx, config)
        rule_scalar_bytes_operand(ctx, fx, config)
        rule_reset(ctx, fx, config)
        rule_observe(ctx, fx, config)
        rule_replay(ctx, fx, config)
        rule_finish(ctx, fx, config)
        n1 = proto.check_p1(ctx, fx, config)
        ctx.floor("PROTO.p1", n1, 24 if config == "default" else 24, config)
        n4 = proto.check_p4(ctx, fx, config)
        n4 += proto.check_p4_iter(ctx, fx, config)
        ctx.floor("PROTO.p4", n4, 6, config)
