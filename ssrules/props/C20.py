"""C20 — presentation wrappers and serializer options change layout only, never data (DESIGN §4 C20)."""
from ..mir import MissingAnchor, sym_contains
from ..rules import (render, aggregates, last_seg, bool_switches, str_compare_consts, str_consts, char_consts, must_pass,
                     switch_edges, writes_in, err_return_blocks, compares)
from . import C12

EXPLANATION = ("TABLE / PAIR / SIBLING rules over the resolved MIR: the reserved names through which wrapper types are smuggled "
               "(emitted by the wrappers' Serialize impls) equal the names the emitter intercepts, per serde method, so no "
               "wrapper is ever written out as ordinary data; the characters neutralised in an inline comment ⊇ the parser's "
               "line-break set; a staged comment is cleared after the wrapped value on every non-error path, is consumed only "
               "by the end-of-scalar writer and only outside flow context; literal / folded wrapper bodies are emitted only "
               "behind the control-character guard (shared with C12); every wrapper's Deserialize delegates to the inner "
               "type's Deserialize with the same deserializer and does nothing else with it.")
ASSUMPTIONS = ["rustc's MIR (opt-level 0) faithfully represents the compiled crate; the parser's break set is read from the pinned saphyr-parser's MIR",
               "layout-only effect of options and wrappers on arbitrary values is a value-level statement: not decided"]

SER_NEWTYPE = "<&mut ser::YamlSerializer as serde::Serializer>::serialize_newtype_struct"
SER_TUPLE = "<&mut ser::YamlSerializer as serde::Serializer>::serialize_tuple_struct"
TUPLE_FIELD = "<ser::TupleSer as serde::ser::SerializeTupleStruct>::serialize_field"


def emitted_names(fx):
    """reserved names passed by Serialize impls, per serde method."""
    out = {"serialize_newtype_struct": {}, "serialize_tuple_struct": {}}
    for f in fx.fns.values():
        if f.d.get("impl_trait") != "serde::Serialize":
            continue
        for b, t in f.calls():
            fd = t["f"]
            if fd.get("trait") == "serde::Serializer" and fd.get("name") in out and len(t["args"]) > 1:
                a = f.sym_operand(t["args"][1])
                if a[0] == "const" and isinstance(a[1], str) and a[1].startswith("__yaml"):
                    arity = None
                    if fd["name"] == "serialize_tuple_struct" and len(t["args"]) > 2:
                        n = f.sym_operand(t["args"][2])
                        arity = n[1] if n[0] == "const" else None
                    out[fd["name"]].setdefault(a[1], []).append((f, arity))
    return out


def _flow_free_edges(f):
    """edges of `f` on which `in_flow == 0` is known: the true edge of `in_flow == 0` / `in_flow <= 0`, the false edge of
    `in_flow > 0` / `in_flow != 0` / `0 < in_flow` — the test may be read into a local first (`let block = self.in_flow == 0`)"""
    out = []
    with f.deep():
        sw = list(bool_switches(f))
    for sb, sym, tt, ff in sw:
        neg = False
        while sym[0] == "un" and sym[1] == "Not":
            sym, neg = sym[2], not neg
        if sym[0] != "bin":
            continue
        op, a, b = sym[1], render(sym[2]), render(sym[3])
        yes = None
        if "in_flow" in a and b == "0":
            yes = {"Eq": True, "Le": True, "Ne": False, "Gt": False}.get(op)
        elif "in_flow" in b and a == "0":
            yes = {"Eq": True, "Ge": True, "Ne": False, "Lt": False}.get(op)
        if yes is None:
            continue
        if neg:
            yes = not yes
        out.append((sb, tt if yes else ff))
    return out


def run(ctx):
    for config in ctx.configs:
        fx = ctx.facts(config)
        # an option (compact_list_indent) may move text, never make it unparseable: shared layout rule (C13)
        from .C13 import rule_empty_seq_indent
        rule_empty_seq_indent(ctx, fx, config, prop="C20")
        em = emitted_names(fx)
        nt = fx.fn(SER_NEWTYPE)
        ts = fx.fn(SER_TUPLE)
        ctx.saw(nt)
        ctx.saw(ts)
        # `match name { CONST => … }` on &str compiles to eq calls: collect every __yaml* literal the function mentions
        got_nt = {s_ for s_ in str_consts(nt) if s_.startswith("__yaml")}
        got_ts = {s_ for s_ in str_consts(ts) if s_.startswith("__yaml")}
        for method, got, f in (("serialize_newtype_struct", got_nt, nt), ("serialize_tuple_struct", got_ts, ts)):
            names = set(em[method])
            ctx.floor("NAMES.%s" % method, len(names), 3, config)
            for n in sorted(names | got):
                key = "C20:NAMES:%s:%s" % (method, n)
                if n in names and n in got:
                    ctx.ok("NAMES", key, "emitted by %s and intercepted" % sorted({g.npath for g, _a in em[method][n]})[0], config, ctx.where(f))
                elif n in names:
                    ctx.bad("NAMES", key, "wrapper %s emits the reserved name `%s` through %s, but the emitter does not intercept it there: the wrapper is written out as ordinary data" % (em[method][n][0][0].npath, n, method), config, ctx.where(em[method][n][0][0]))
                else:
                    ctx.bad("NAMES", key, "the emitter intercepts `%s` in %s but no wrapper emits it through that method (stale or mis-routed name)" % (n, method), config, ctx.where(f))
        # tuple arities: anchor 2, weak 3, commented 2 — each emitter site agrees with the others on the same name
        for n, sites in em["serialize_tuple_struct"].items():
            ar = {a for _g, a in sites}
            ctx.check(len(ar) == 1 and None not in ar, "NAMES", "C20:NAMES:arity:%s" % n, "all wrappers emit `%s` with arity %s" % (n, sorted(ar)), "wrappers disagree on the arity of `%s`: %s" % (n, sorted(map(str, ar))), config, ctx.where(ts))
        # -- comment sanitiser ⊇ parser break set
        brk = fx.foreign.get("saphyr_parser_bw::input::is_break")
        if brk is None:
            raise MissingAnchor("foreign MIR of saphyr_parser_bw::input::is_break")
        breaks = char_consts(brk)
        tf = fx.fn(TUPLE_FIELD)
        ctx.saw(tf)
        stage = [(b, i, s_) for b, i, s_ in tf.stmts() if s_["k"] == "assign" and s_["p"]["pr"] and render(tf.sym_place(s_["p"])).endswith(".pending_inline_comment")]
        staged_some = []
        for b, i, s_ in stage:
            with tf.deep():
                v = tf.sym_rvalue(s_["rv"])
            if v[0] == "aggr" and v[2] == "Some":
                staged_some.append((b, v, s_))
        ctx.floor("COMMENT.stage-sites", len(staged_some), 1, config)
        for b, v, s_ in staged_some:
            neutral = set()
            def visit(x):
                if isinstance(x, tuple):
                    if x and x[0] == "call" and last_seg(x[1]) in ("replace", "replace_all", "replacen"):
                        for a in x[2][1:2]:
                            for c in _chars(a):
                                neutral.add(c)
                    for y in x:
                        if isinstance(y, tuple):
                            visit(y)
            visit(v)
            ctx.check(breaks <= neutral, "COMMENT", "C20:COMMENT:sanitiser-covers-breaks", "comment text: %s neutralised ⊇ parser break set %s" % (sorted(map(repr, neutral)), sorted(map(repr, breaks))),
                      "the inline comment neutralises %s but the parser breaks lines on %s: the rest of the comment is read as YAML (an injected entry)" % (sorted(map(repr, neutral)), sorted(map(repr, breaks))), config, ctx.where(tf, ln=s_.get("ln")))
            # PAIR: cleared after the wrapped value on every non-error path
            clears = [bb for bb, i2, s2 in stage if tf.sym_rvalue(s2["rv"])[0] == "aggr" and tf.sym_rvalue(s2["rv"])[2] == "None"]
            oks = [bb for bb, i2, adt, var, fl, ops, s2 in aggregates(tf) if s2["p"]["l"] == 0 and var == "Ok"]
            ctx.check(bool(clears) and must_pass(tf, [b], clears, to_blocks=oks), "COMMENT", "C20:COMMENT:cleared-after-value", "a staged comment is cleared before the field serializer returns Ok",
                      "a staged comment can survive the wrapped value (complex values ignore it) and be attached to a later, unrelated scalar", config, ctx.where(tf, b))
            # staged only outside flow
            okf = any(tf.edge_dominates(sb, e, b) for sb, e in _flow_free_edges(tf))
            ctx.check(okf, "COMMENT", "C20:COMMENT:staged-outside-flow", "comments are staged only when not in flow context", "a comment can be staged inside a flow collection (it would swallow the rest of the line)", config, ctx.where(tf, b))
        # who consumes the staged comment: only write_end_of_scalar, and only when not in flow
        takers = set()
        for f in fx.fns.values():
            for b, t in f.calls():
                if fx.callee(t) == "std::option::Option::take" and render(f.sym_operand(t["args"][0])).endswith("pending_inline_comment"):
                    takers.add(f.npath)
        ctx.check(takers == {"ser::YamlSerializer::write_end_of_scalar"}, "COMMENT", "C20:COMMENT:single-consumer", "only write_end_of_scalar consumes the staged comment", "the staged comment is consumed by %s" % sorted(takers), config, ctx.where(tf))
        we = fx.fn("ser::YamlSerializer::write_end_of_scalar")
        ctx.saw(we)
        okw = False
        for b, t in we.calls():
            if fx.callee(t) == "std::option::Option::take":
                if any(we.edge_dominates(sb, e, b) for sb, e in _flow_free_edges(we)):
                    okw = True
        ctx.check(okw, "COMMENT", "C20:COMMENT:written-outside-flow", "the comment is written only outside flow context", "write_end_of_scalar can write ` # comment` inside a flow collection", config, ctx.where(we))
        # -- literal / folded wrapper bodies go through the guarded emitter
        C12.rule_block_guard(ctx, fx, config, breaks, "C20")
        for name in ("__yaml_lit_str", "__yaml_fold_str"):
            # the arm ends in self.serialize_str(&captured)
            pass
        calls = [fx.callee(t) for b, t in nt.calls()]
        ctx.check(calls.count(C12.SER_STR) >= 2, "BLOCK", "C20:BLOCK:wrappers-use-serialize_str", "LitStr / FoldStr arms emit through serialize_str (the guarded emitter)", "the literal / folded wrapper arms no longer emit through serialize_str", config, ctx.where(nt))
        # -- wrappers deserialize by pure delegation
        wrappers = ["ser::FlowSeq", "ser::FlowMap", "ser::Commented", "ser::SpaceAfter", "long_strings::LitString", "long_strings::FoldString"]
        n = 0
        for w in wrappers:
            fs = [f for f in fx.fns.values() if f.d.get("impl_trait") == "serde::Deserialize" and f.d.get("impl_adt") == w and f.name == "deserialize"]
            if not ctx.check(len(fs) == 1, "DELEGATE", "C20:DELEGATE:%s:impl" % w, "Deserialize impl found", "Deserialize impl for %s not found" % w, config, None):
                continue
            f = fs[0]
            ctx.saw(f)
            n += 1
            dparam = f.local_name(1) or "_1"
            uses = []
            for g in fx.family(f):
                for b, t in g.calls():
                    for ai, a in enumerate(t["args"]):
                        if render(g.sym_operand(a)) == dparam and g is f:
                            uses.append((t, ai))
            okd = len(uses) == 1 and uses[0][0]["f"].get("trait") == "serde::Deserialize" and uses[0][0]["f"].get("name") == "deserialize" and uses[0][1] == 0
            ctx.check(okd, "DELEGATE", "C20:DELEGATE:%s" % w, "the deserializer is handed, once and untouched, to the inner type's Deserialize",
                      "Deserialize for %s does something with the deserializer other than delegating to the inner type (uses: %s)" % (w, [(u[0]["f"].get("name"), u[1]) for u in uses]), config, ctx.where(f))
            # the inner value is only wrapped: every other call is Result::map / the wrapper constructor closure
            others = [fx.callee(t) for b, t in f.calls() if not (t["f"].get("trait") == "serde::Deserialize") and fx.callee(t) != "std::string::String::new"]
            for g in fx.family(f):
                if g is not f:
                    others += [fx.callee(t) for b, t in g.calls() if fx.callee(t) != "std::string::String::new"]
            ctx.check(all(last_seg(c) in ("map", "branch", "from_residual") for c in others), "DELEGATE", "C20:DELEGATE:%s:pure" % w, "nothing but Result::map (and the wrapper constructor) around the delegation", "the wrapper's Deserialize post-processes the inner value: %s" % others, config, ctx.where(f))
        ctx.floor("DELEGATE.wrappers", n, 6, config)
        # who may write block-scalar headers / bodies: only the guarded emitter
        hdr = set()
        for f in fx.fns.values():
            if not f.file.endswith(("ser.rs", "wrapping.rs", "long_strings.rs")):
                continue
            for b, t in f.calls():
                if last_seg(fx.callee_decl(t)) in ("write_char", "push") and len(t["args"]) > 1:
                    a = f.sym_operand(t["args"][1])
                    if a[0] == "const" and a[1] in ("|", ">") and a[2] == "char":
                        hdr.add(f.npath)
                if last_seg(fx.callee_decl(t)) in ("write_str", "push_str") and len(t["args"]) > 1:
                    a = f.sym_operand(t["args"][1])
                    if a[0] == "const" and isinstance(a[1], str) and a[1].rstrip("\n-+0123456789") in ("|", ">"):
                        hdr.add(f.npath)
        ctx.check(hdr == {C12.SER_STR}, "BLOCK", "C20:BLOCK:single-header-writer", "block-scalar headers are written only by serialize_str (the guarded emitter)",
                  "block-scalar headers are also written by %s, outside the control-character guard" % sorted(hdr - {C12.SER_STR}), config, ctx.where(nt))
        fb = {f.npath for f in fx.fns.values() for b, t in f.calls() if fx.callee(t).endswith("::write_folded_block") and f.name != "write_folded_block"}
        ctx.check(fb == {C12.SER_STR}, "BLOCK", "C20:BLOCK:single-body-writer", "folded bodies are written only from serialize_str", "write_folded_block is also called from %s" % sorted(fb - {C12.SER_STR}), config, ctx.where(nt))
        rule_flow_keys(ctx, fx, config)
        rule_label_rule_only_before_colon(ctx, fx, config)
        rule_variants_in_flow(ctx, fx, config)
        rule_co_update(ctx, fx, config)


def rule_label_rule_only_before_colon(ctx, fx, config, prop="C20"):
    """Two quoting rules exist: the *value* rule (knows about flow context, quotes YAML 1.1 boolean / float spellings so that an
    untyped reader gets the string back) and the *key / label* rule.  The label rule is used only where a `:` follows on every
    successful path — mapping keys and `Variant:` labels.  Text written in value position through the label rule (the name of a
    tagged unit variant `!!E yes`, a scalar element …) reads back as another type, or splits a flow collection."""
    lab = fx.fn("ser::YamlSerializer::write_plain_or_quoted")
    n = 0
    for f, b in sorted(fx.callers.get(lab.npath, []), key=lambda x: (x[0].npath, x[1])):
        n += 1
        ctx.saw(f)
        t = f.blocks[b]["term"]
        colons = []
        for cb, ct in f.calls():
            if last_seg(fx.callee_decl(ct) or fx.callee(ct)) in ("write_str", "write_char", "push_str", "push") and len(ct["args"]) > 1:
                a = f.sym_operand(ct["args"][-1])
                if a[0] == "const" and isinstance(a[1], str) and a[1].startswith(":"):
                    colons.append(cb)
        errs = list(err_return_blocks(f))
        nxt = t.get("t")
        ok = nxt is not None and bool(colons) and must_pass(f, [nxt], colons + errs)
        k = sum(1 for g2, b2 in fx.callers.get(lab.npath, []) if g2 is f and b2 < b) + 1
        ctx.check(ok, "TABLE", "%s:TABLE:label-rule-only-before-colon:%s#%d" % (prop, f.name, k), "text written with the key / label quoting rule is followed by `:` on every successful path",
                  "%s writes text with the key / label quoting rule (write_plain_or_quoted) in a position that is not followed by `:`: a value written that way is not protected against flow indicators or YAML 1.1 boolean / float spellings (`!!E yes` reads back as a bool)" % f.npath,
                  config, ctx.where(f, b))
    ctx.floor("TABLE.label-rule-callers", n, 3, config)  # (callers may legitimately be merged: the floor guards against vacuity only)


def rule_variants_in_flow(ctx, fx, config, prop="C20"):
    """Inside a flow collection (`in_flow > 0`) line breaks and indentation mean nothing: the block form `Variant:` + newline of a
    newtype / tuple / struct variant must not be written there.  In each of the three variant serializers every call that belongs
    to the block form (newline, indentation, the label quoting rule) lies on the `in_flow == 0` side of a test of the flow counter,
    and the flow side opens a flow mapping (`{`)."""
    n = 0
    for nm in ("serialize_newtype_variant", "serialize_tuple_variant", "serialize_struct_variant"):
        cands = [f for f in fx.fns.values() if f.name == nm and "YamlSerializer" in f.npath and f.file.endswith("src/ser.rs")]
        if not cands:
            raise MissingAnchor("YamlSerializer::%s" % nm)
        f = cands[0]
        ctx.saw(f)
        flow_edges = []
        with f.deep():
            for c in compares(f):
                if "in_flow" in c["rl"] and c["rr"] == "0":
                    if c["op"] == "Gt" or c["op"] == "Ne":
                        flow_edges.append((c["block"], c["t"], c["f"]))
                    elif c["op"] == "Eq":
                        flow_edges.append((c["block"], c["f"], c["t"]))
        block_calls = [b for b, t in f.calls() if last_seg(fx.callee(t)) in ("newline", "write_indent", "write_plain_or_quoted")]
        n += 1
        ok = bool(flow_edges) and bool(block_calls) and all(any(f.edge_dominates(cb, blk, b) for cb, fl, blk in flow_edges) for b in block_calls)
        ctx.check(ok, "FLOW", "%s:FLOW:variant-block-form-only-outside-flow:%s" % (prop, nm), "%s writes its block form (label, line break, indentation) only when not inside a flow collection" % nm,
                  "%s can write the block form `Variant:` + line break / indentation inside a flow collection: `[S:\\n  f: [1]]` and `{a: N: 1}` do not parse" % nm, config, ctx.where(f))
        opens = any(last_seg(fx.callee(t)) == "open_flow_variant" or (last_seg(fx.callee_decl(t) or "") in ("write_str", "write_char") and len(t["args"]) > 1 and f.sym_operand(t["args"][-1])[:2] == ("const", "{")) for b, t in f.calls()
                    if any(f.edge_dominates(cb, fl, b) for cb, fl, blk in flow_edges))
        ctx.check(opens, "FLOW", "%s:FLOW:variant-flow-form-opens-mapping:%s" % (prop, nm), "inside flow %s opens a single-entry flow mapping" % nm,
                  "%s has no flow form that opens `{Variant: …}`" % nm, config, ctx.where(f))
    ctx.floor("FLOW.variant-serializers", n, 3, config)


def rule_co_update(ctx, fx, config, prop="C20"):
    """PAIR (co-update): in the folded-block writer, two named cursors that are *added to form a slice bound* (`prev_i +
    prev_ch_len` = end of the previous character) describe one thing and are written together: inside loops, every block that
    assigns one assigns the other.  Updating the position alone leaves the length of some earlier character in place: with a
    multi-byte character at the wrap column the bound falls inside the following word and its first bytes are dropped."""
    n = 0
    for f in sorted(fx.fns.values(), key=lambda g: g.npath):
        if not f.file.endswith("src/wrapping.rs"):
            continue
        pairs = set()
        for b, i, s_ in f.stmts():
            if s_["k"] != "assign":
                continue
            v = f.sym_rvalue(s_["rv"])
            inner = v
            if v[0] == "field" and v[1][0] == "bin":
                inner = v[1]
            if inner[0] == "bin" and inner[1] in ("Add", "AddWithOverflow") and inner[2][0] == "local" and inner[3][0] == "local" and len(inner[2]) > 2 and len(inner[3]) > 2 and inner[2][2] and inner[3][2]:
                a, c = inner[2], inner[3]
                if a[2].startswith("prev") or c[2].startswith("prev") or a[2].endswith("_len") or c[2].endswith("_len"):
                    pairs.add((a[1], a[2], c[1], c[2]))
        loops = set().union(*[c for c in f.sccs() if len(c) > 1]) if f.sccs() else set()
        for la, na, lc, nc in sorted(pairs):
            wa = {b for b, i, s_ in f.stmts() if s_["k"] == "assign" and not s_["p"]["pr"] and s_["p"]["l"] == la and b in loops}
            wc = {b for b, i, s_ in f.stmts() if s_["k"] == "assign" and not s_["p"]["pr"] and s_["p"]["l"] == lc and b in loops}
            if not wa and not wc:
                continue
            n += 1
            ctx.saw(f)
            heads = [x for c_ in f.sccs() if len(c_) > 1 for x in c_ if any(p_ not in c_ for p_ in f.pred[x])]
            goal = list(set(heads) | set(f.return_blocks()))

            def partnered(x, others):
                # the partner is written in the same block, or unavoidably right after / right before on the same iteration
                if x in others:
                    return True
                for y in others:
                    if f.dominates(x, y) and must_pass(f, list(f.succ[x]), [y], to_blocks=goal):
                        return True
                    if f.dominates(y, x) and must_pass(f, list(f.succ[y]), [x], to_blocks=goal):
                        return True
                return False
            lonely = [x for x in wa if not partnered(x, wc)] + [x for x in wc if not partnered(x, wa)]
            ctx.check(not lonely, "PAIR", "%s:PAIR:co-update:%s:%s+%s" % (prop, f.name, na, nc), "`%s` and `%s` (added to form a slice bound) are always assigned together" % (na, nc),
                      "%s assigns `%s` without `%s` (or the other way round) on some path of its loop: their sum is used as a byte bound, so a stale partner puts the bound inside a neighbouring character / word" % (f.name, na, nc), config, ctx.where(f, lonely[0] if lonely else None))
    ctx.floor("PAIR.co-updated-cursors", n, 1, config)


def _chars(sym):
    out = []
    if isinstance(sym, tuple):
        if sym and sym[0] == "const" and len(sym) > 2 and sym[2] == "char":
            out.append(sym[1])
        elif sym and sym[0] == "const" and isinstance(sym[1], str) and len(sym[1]) == 1 and "str" in str(sym[2]):
            out.append(sym[1])
        else:
            for y in sym:
                if isinstance(y, tuple):
                    out.extend(_chars(y))
    return out


def rule_flow_keys(ctx, fx, config):
    """FLOW-KEY: a key written between the braces of a flow mapping is quoted by the *flow* rules (`,` `[` `]` `{` `}` are
    structural there).  Either the key sink always asks for flow safety, or the flag it is given is true at every call
    site on the flow edge of MapSer::serialize_key (the serializer's in_flow counter is still 0 while the keys of the
    outermost flow mapping are written, so it is not an acceptable source)."""
    ks = fx.fn("<&mut ser::KeyScalarSink as serde::Serializer>::serialize_str")
    ctx.saw(ks)
    calls = [(b, t) for b, t in ks.calls() if fx.callee(t) == "ser_quoting::is_plain_value_safe"]
    if not ctx.check(len(calls) == 1, "FLOW-KEY", "C20:FLOW-KEY:sink:consults", "the key sink consults is_plain_value_safe", "the key sink no longer consults is_plain_value_safe (%d calls)" % len(calls), config, ctx.where(ks)):
        return
    b, t = calls[0]
    flag = ks.sym_operand(t["args"][2])
    if flag == ("const", True, "bool"):
        ctx.ok("FLOW-KEY", "C20:FLOW-KEY:sink:flow-safe", "keys are always tested with the flow rules (in_flow = true)", config, ctx.where(ks, b))
        return
    r = render(flag)
    # the flag is a field of the sink: find which parameter of scalar_key_to_string fills it, then inspect the flow-edge call site
    mk = fx.fn("ser::scalar_key_to_string")
    param = None
    for ab, i, adt, var, fl, ops, s_ in aggregates(mk):
        if adt.endswith("KeyScalarSink"):
            for fld, op in zip(fl, ops):
                if r.endswith("." + fld) and op[0] == "local" and op[1] <= mk.d["nargs"]:
                    param = op[1] - 1
    sk = fx.fn("<ser::MapSer as serde::ser::SerializeMap>::serialize_key")
    ctx.saw(sk)
    okf = False
    detail = "flag `%s`" % r
    if param is not None:
        for sb, sym, tt, ff in bool_switches(sk):
            if render(sym) == "self.flow":
                for cb, ct in sk.calls():
                    if fx.callee(ct) == mk.npath and sk.edge_dominates(sb, tt, cb):
                        a = sk.sym_operand(ct["args"][param])
                        detail = "flow-edge call passes `%s`" % render(a)
                        okf = a == ("const", True, "bool") or render(a) == "self.flow"
    ctx.check(okf, "FLOW-KEY", "C20:FLOW-KEY:sink:flow-safe", "on the flow edge the key sink is told it is in flow context",
              "keys of a flow mapping are not guaranteed to be quoted by the flow rules (%s): FlowMap({\"a, b\": 1}) is written as `{a, b: 1}` and reads back as different data" % detail, config, ctx.where(ks, b))
