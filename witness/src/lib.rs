//! Compile-fail witnesses (DESIGN.md §2.3).  Every `compile_fail` example is paired with a
//! compiling twin that differs only in the offending line, so a witness that fails to compile
//! for an unrelated reason (a wrong path, a renamed function) is caught by its twin.
//! (The errors involved — "implementation of `Deserialize` is not general enough", "lifetime
//! may not live long enough" — carry no error code, so none can be pinned.)

/// C09 — reader input never lends: `from_reader` into a borrowed `&str` must not type-check.
/// ```compile_fail
/// fn f(r: &[u8]) -> Result<(), serde_saphyr::Error> {
///     let s: &str = serde_saphyr::from_reader(r)?;
///     let _ = s;
///     Ok(())
/// }
/// ```
/// twin (owned target compiles):
/// ```
/// fn f(r: &[u8]) -> Result<(), serde_saphyr::Error> {
///     let s: String = serde_saphyr::from_reader(r)?;
///     let _ = s;
///     Ok(())
/// }
/// ```
pub struct C09FromReaderNeverLends;

/// C09 — the streaming iterator never lends either.
/// ```compile_fail
/// fn g(r: &mut &[u8]) {
///     let v: Vec<Result<&str, serde_saphyr::Error>> = serde_saphyr::read(r).collect();
///     let _ = v;
/// }
/// ```
/// twin:
/// ```
/// fn g(r: &mut &[u8]) {
///     let v: Vec<Result<String, serde_saphyr::Error>> = serde_saphyr::read(r).collect();
///     let _ = v;
/// }
/// ```
pub struct C09ReadIteratorNeverLends;

/// C09 — nor does the closure helper over a reader.
/// ```compile_fail
/// fn h(r: &[u8]) -> Result<(), serde_saphyr::Error> {
///     let s: &str = serde_saphyr::with_deserializer_from_reader(r, |de| <&str as serde::Deserialize>::deserialize(de))?;
///     let _ = s;
///     Ok(())
/// }
/// ```
/// twin:
/// ```
/// fn h(r: &[u8]) -> Result<(), serde_saphyr::Error> {
///     let s: String = serde_saphyr::with_deserializer_from_reader(r, |de| <String as serde::Deserialize>::deserialize(de))?;
///     let _ = s;
///     Ok(())
/// }
/// ```
pub struct C09WithDeserializerFromReaderNeverLends;

/// C09 — positive control: the string entry point *does* lend (so the three witnesses above
/// fail for the reader-specific reason, not because `&str` targets are impossible).
/// ```
/// fn k(s: &str) -> Result<(), serde_saphyr::Error> {
///     let v: &str = serde_saphyr::from_str(s)?;
///     let _ = v;
///     Ok(())
/// }
/// ```
pub struct C09FromStrLends;
