use serde::Deserialize;
use serde_saphyr::Spanned;
use std::collections::HashMap;

#[derive(Deserialize, Debug)]
enum E { V(Spanned<u64>), L(Vec<Spanned<u64>>) }
#[derive(Deserialize, Debug)]
struct D { a: E, b: E }

fn lc(l: &serde_saphyr::Location) -> (u64, u64) { (l.line() as u64, l.column() as u64) }

#[test]
fn tagged_variant_payload_through_alias_keeps_the_alias_use_site() {
    let d: D = serde_saphyr::from_str("a: &t !V 5\nb: *t\n").unwrap();
    let (E::V(a), E::V(b)) = (&d.a, &d.b) else { panic!() };
    assert_eq!((lc(&a.referenced), lc(&a.defined)), ((1, 10), (1, 10)));
    assert_eq!((lc(&b.referenced), lc(&b.defined)), ((2, 4), (1, 10)), "{b:?}");
    // a tagged sequence written in place keeps its elements' own positions
    let d: D = serde_saphyr::from_str("a: !L [1, 2]\nb: !V 3\n").unwrap();
    let E::L(v) = &d.a else { panic!() };
    assert_eq!(lc(&v[1].referenced), lc(&v[1].defined));
    assert_eq!(lc(&v[1].referenced), (1, 11));
    // ... and through an alias names the alias
    let d: D = serde_saphyr::from_str("a: &s !L [1, 2]\nb: *s\n").unwrap();
    let E::L(v) = &d.b else { panic!() };
    assert_eq!((lc(&v[1].referenced), lc(&v[1].defined)), ((2, 4), (1, 14)), "{v:?}");
}

#[derive(Deserialize, Debug)]
struct SK(Spanned<String>);
impl PartialEq for SK { fn eq(&self, o: &Self) -> bool { self.0.value == o.0.value } }
impl Eq for SK {}
impl std::hash::Hash for SK { fn hash<H: std::hash::Hasher>(&self, h: &mut H) { self.0.value.hash(h) } }
#[derive(Deserialize, Debug)]
struct F { #[allow(dead_code)] a: String, m: HashMap<SK, u64> }

#[test]
fn span_carrying_key_through_alias_keeps_the_alias_use_site() {
    let f: F = serde_saphyr::from_str("a: &k foo\nm:\n  *k : 1\n  z: 2\n").unwrap();
    let k = f.m.keys().find(|k| k.0.value == "foo").unwrap();
    assert_eq!((lc(&k.0.referenced), lc(&k.0.defined)), ((3, 3), (1, 7)), "{k:?}");
    let z = f.m.keys().find(|k| k.0.value == "z").unwrap();
    assert_eq!((lc(&z.0.referenced), lc(&z.0.defined)), ((4, 3), (4, 3)));
}
