use serde::Deserialize;
#[derive(Debug, Deserialize, PartialEq)]
enum E { A, B(i32), C(i32, i32) }
#[test]
fn tagged() {
    println!("{:?}", serde_saphyr::from_str::<E>("!A 5"));
    println!("{:?}", serde_saphyr::from_str::<E>("!A [1,2]"));
    println!("{:?}", serde_saphyr::from_str::<E>("!C [1,2,3]"));
    println!("{:?}", serde_saphyr::from_str::<E>("!B [1,2]"));
    println!("{:?}", serde_saphyr::from_str::<E>("{A: 5}").map_err(|e| e.to_string()));
    println!("{:?}", serde_saphyr::from_str::<Vec<E>>("[!A 5, !B 3]"));
}
