// F15 (C07): after an alias that is replayed in a mapping (`b: *x`), the budget enforcer's key/value position was flipped
// (raw Alias event + first replayed node both advanced it), so a following `<<` key was not counted.
// Before 843d712: report.merge_keys == 0 (check_yaml_budget says 1) and max_merge_keys = 0 accepted the document.
use serde_saphyr::budget::{check_yaml_budget, BudgetReport, EnforcingPolicy};
use serde_saphyr::{Budget, Options};
use std::{cell::RefCell, rc::Rc};
fn live(y: &str, max_merge: Option<usize>) -> (bool, Option<BudgetReport>) {
    let slot: Rc<RefCell<Option<BudgetReport>>> = Rc::new(RefCell::new(None));
    let sink = slot.clone();
    let mut options = Options::default().with_budget_report(move |r: BudgetReport| { *sink.borrow_mut() = Some(r); });
    let mut b = Budget::default();
    if let Some(m) = max_merge { b.max_merge_keys = m; }
    options.budget = Some(b);
    let ok = serde_saphyr::from_str_with_options::<serde_json::Value>(y, options).is_ok();
    let r = slot.borrow().clone();
    (ok, r)
}
#[test]
fn f15_merge_key_after_alias_in_mapping_is_counted() {
    for y in ["{a: &x 1, b: *x, <<: {k: 2}}", "a: &x [1]\nb: *x\n<<: {k: 2}\n", "a: &x 1\n*x : 2\n<<: {k: 2}\n"] {
        let raw = check_yaml_budget(y, Budget::default(), EnforcingPolicy::AllContent).unwrap();
        assert_eq!(raw.merge_keys, 1);
        let (ok, rep) = live(y, None);
        assert!(ok);
        assert_eq!(rep.unwrap().merge_keys, 1, "{y}");
        assert!(!live(y, Some(0)).0, "max_merge_keys = 0 must reject {y}");
    }
}
