#[test]
fn f13_robotics_non_ascii_does_not_panic() {
    for y in [".iné", "1 + .naé", "piü", "deg(1)é", "1e", "taé", "-.iné", "( .iné )", "rad(.naé)", "1:2é", "iné"] {
        let r = std::panic::catch_unwind(|| {
            let opts = serde_saphyr::options! { angle_conversions: true };
            serde_saphyr::from_str_with_options::<f64>(y, opts)
        });
        assert!(r.is_ok(), "panicked on {y:?}");
        assert!(r.unwrap().is_err(), "accepted {y:?}");
    }
}
