use serde::Deserialize;
use validator::Validate;
#[derive(Debug, Deserialize, Validate)]
struct S {
    #[validate(length(min = 3))] a: String,
    #[validate(length(min = 3))] b: String,
    #[validate(length(min = 3))] c: String,
    #[validate(length(min = 3))] d: String,
    #[validate(length(min = 3))] e: String,
    #[validate(length(min = 3))] f: String,
}
#[test]
fn f11_validator_report_order_is_stable() {
    let y = "a: x\nb: x\nc: x\nd: x\ne: x\nf: x\n";
    let mut seen = std::collections::BTreeSet::new();
    for _ in 0..40 {
        let e = serde_saphyr::from_str_validate::<S>(y).unwrap_err();
        seen.insert(e.to_string());
    }
    assert_eq!(seen.len(), 1, "the same call rendered {} different reports (hash-order dependent)", seen.len());
}
