// F16–F27: serializer / scalar defects found while confirming seeded changes (reported by sub-agents as pre-existing, or found
// by the follow-up probes). Every test passes on the repaired tree and fails on 843d712 (the tree before these fixes).
use serde::{Deserialize, Serialize};
use std::collections::BTreeMap;
fn rt<T: Serialize + serde::de::DeserializeOwned + PartialEq + std::fmt::Debug>(v: &T) { rto(v, serde_saphyr::SerializerOptions::default()) }
fn rto<T: Serialize + serde::de::DeserializeOwned + PartialEq + std::fmt::Debug>(v: &T, o: serde_saphyr::SerializerOptions) {
    let mut y = String::new();
    serde_saphyr::to_fmt_writer_with_options(&mut y, v, o).unwrap();
    let back: T = serde_saphyr::from_str(&y).unwrap_or_else(|e| panic!("does not read back: {y:?}: {e}"));
    assert_eq!(&back, v, "{y:?}");
}
#[derive(Debug, Serialize, Deserialize, PartialEq, Clone)] struct Inner { s: String }
#[derive(Debug, Serialize, Deserialize, PartialEq, Clone)] struct Outer { inner: Inner }
#[derive(Debug, Serialize, Deserialize, PartialEq, Clone)] struct St { a: i32, v: Vec<i32> }
#[derive(Debug, Serialize, Deserialize, PartialEq, Clone)] struct TS(Vec<i32>, BTreeMap<String, i32>);
#[derive(Debug, Serialize, Deserialize, PartialEq, Clone)] enum En { T(Vec<i32>, St), S { x: BTreeMap<String, i32>, y: i32 } }
#[test] fn f16_block_indicator_is_relative() {
    let long = format!(" lead\n{}", "x".repeat(100));
    rt(&Outer { inner: Inner { s: long.clone() } });
    rt(&vec![vec![long.clone()]]);
    rt(&vec![Inner { s: long }]);
}
#[test] fn f17_newline_only_strings() {
    rt(&"\n".repeat(81));
    rto(&"\n".to_string(), serde_saphyr::ser_options! { folded_wrap_chars: 0 });
}
#[test] fn f18_long_keys() {
    let mut m = BTreeMap::new(); m.insert("k".repeat(1025), 1); m.insert("z".to_string(), 2);
    rt(&m); rt(&serde_saphyr::FlowMap(m));
}
#[test] fn f19_untyped_read_back() {
    for s in ["infinity", "-Infinity", "+nan", "12\u{a0}", "\u{2003}1"] { rt(&serde_json::Value::String(s.to_string())); }
}
#[test] fn f20_hex_i128_min() {
    assert_eq!(serde_saphyr::from_str::<i128>(&format!("-0x8{}", "0".repeat(31))).unwrap(), i128::MIN);
    assert!(serde_saphyr::from_str::<i128>(&format!("-0x8{}1", "0".repeat(30))).is_err());
}
#[test] fn f21_tuple_struct_and_tuple_variant_layout() {
    let mut m = BTreeMap::new(); m.insert("k".to_string(), 1);
    rt(&TS(vec![1, 2], m.clone()));
    rt(&vec![vec![TS(vec![1], m.clone())]]);
    rt(&En::T(vec![1], St { a: 1, v: vec![1, 2] }));
    rt(&vec![vec![En::T(vec![1], St { a: 1, v: vec![1, 2] })]]);
}
#[test] fn f22_f24_f26_composite_keys() {
    let st = St { a: 1, v: vec![1, 2] };
    let mut ck = BTreeMap::new(); ck.insert(vec![1, 2], st.clone());
    rto(&ck, serde_saphyr::ser_options! { compact_list_indent: true });
    let mut cv = BTreeMap::new(); cv.insert(vec![0, 7], vec![1, 2]); cv.insert(vec![1, 7], vec![]);
    rt(&cv);
    let mut x = BTreeMap::new(); x.insert("k0".to_string(), 1); x.insert("k1".to_string(), 2);
    let mut ce = BTreeMap::new(); ce.insert(vec![0, 7], En::S { x, y: 2 });
    rt(&ce);
}
#[test] fn f23_yaml12_directive() { rto(&St { a: 1, v: vec![1] }, serde_saphyr::ser_options! { yaml_12: true }); }
#[test] fn f25_compact_empty_sequence_after_block_sibling() {
    #[derive(Debug, Serialize, Deserialize, PartialEq)] struct S2 { a: Vec<i32>, b: Vec<i32> }
    rto(&S2 { a: vec![1, 2], b: vec![] }, serde_saphyr::ser_options! { compact_list_indent: true });
}
