use serde::Deserialize;
use std::collections::BTreeMap;
#[test]
fn f1_per_document_anchor_budget_is_per_document() {
    // five documents, each defines ONE anchor; max_anchors = 2 must accept all of them
    let mut y = String::new();
    for i in 0..5 { y.push_str(&format!("---\na: &x{i} 1\nb: *x{i}\n")); }
    let opts = serde_saphyr::options! { budget: serde_saphyr::budget! { max_anchors: 2 } };
    let mut rd = y.as_bytes();
    let items: Vec<Result<BTreeMap<String, i32>, _>> = serde_saphyr::read_with_options(&mut rd, opts).collect();
    assert_eq!(items.len(), 5);
    for (i, it) in items.iter().enumerate() { assert!(it.is_ok(), "document {i}: {:?}", it.as_ref().err().map(|e| e.to_string())); }
}
#[test]
fn f2_depth_state_does_not_leak_after_skipped_document() {
    let y = "[[[[ {a: 1} ]]]]\n---\n[[[[1]]]]\n";
    let opts = serde_saphyr::options! { budget: serde_saphyr::budget! { max_depth: 5 } };
    let mut rd = y.as_bytes();
    let items: Vec<Result<Vec<Vec<Vec<Vec<i32>>>>, _>> = serde_saphyr::read_with_options(&mut rd, opts).collect();
    assert_eq!(items.len(), 2);
    assert!(items[0].is_err());
    assert!(items[1].is_ok(), "document 1: {}", items[1].as_ref().unwrap_err());
}
