// Known finding K3 (C14) — FAILS on the current tree; documents the recorded, unrepaired defect.
use serde::{Deserialize, Serialize};
use serde_saphyr::RcAnchor;
use std::rc::Rc;
#[derive(Debug, Serialize, Deserialize)]
struct D { a: RcAnchor<String>, b: i32, c: RcAnchor<String> }
#[test]
fn k3_anchor_on_block_scalar_string() {
    for text in [format!("line one\n{}\n", "x".repeat(100)), "w ".repeat(60)] {
        let s = Rc::new(text);
        let y = serde_saphyr::to_string(&D { a: RcAnchor(s.clone()), b: 5, c: RcAnchor(s.clone()) }).unwrap();
        let back: D = serde_saphyr::from_str(&y).unwrap_or_else(|e| panic!("{y}: {e}"));
        assert!(Rc::ptr_eq(&back.a.0, &back.c.0), "sharing lost: {y}");
        assert_eq!(*back.c.0, *s, "{y}");
    }
}
