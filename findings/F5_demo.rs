#[test]
fn f5_surplus_sequence_elements_are_an_error() {
    let r: Result<(i32, i32), _> = serde_saphyr::from_str("[1, 2, 3]");
    let e = r.expect_err("a 3-element sequence was accepted for a 2-tuple");
    let msg = e.to_string();
    assert!(!msg.contains("multiple"), "surplus element misreported as a second document: {msg}");
    // streaming: the surplus element must not desynchronise the following document
    let mut rd = "[1,2,3]\n---\n[4,5]\n".as_bytes();
    let items: Vec<Result<(i32, i32), _>> = serde_saphyr::read(&mut rd).collect();
    assert_eq!(items.len(), 2, "{:?}", items.iter().map(|r| r.as_ref().map_err(|e| e.to_string())).collect::<Vec<_>>());
    assert!(items[0].is_err());
    assert_eq!(items[1].as_ref().ok(), Some(&(4, 5)));
    // nested: [[1,2,3],[4,5]] into Vec<(i32,i32)>
    let r: Result<Vec<(i32, i32)>, _> = serde_saphyr::from_str("[[1,2,3],[4,5]]");
    assert!(r.is_err(), "{r:?}");
    // exact arity still fine
    let ok: (i32, i32) = serde_saphyr::from_str("[1, 2]").unwrap();
    assert_eq!(ok, (1, 2));
    let ok: Vec<[u8; 2]> = serde_saphyr::from_str("[[1,2],[3,4]]").unwrap();
    assert_eq!(ok, vec![[1, 2], [3, 4]]);
}
