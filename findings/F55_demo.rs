use serde::{Serialize, Deserialize};
use serde_saphyr::{RcAnchor, RcWeakAnchor, RcRecursive, RcRecursion};
use std::rc::Rc;
#[derive(Debug, Serialize, Deserialize)]
struct W { strong: Option<RcAnchor<i32>>, weak: RcWeakAnchor<i32> }
#[derive(Debug, Serialize, Deserialize)]
struct Node { name: String, next: RcRecursion<Node> }
#[test]
fn probe() {
    // 1. anchored sequence as a sequence item
    let shared = RcAnchor(Rc::new(vec![1, 2]));
    let v = vec![shared.clone(), shared.clone()];
    let y = serde_saphyr::to_string(&v).unwrap();
    println!("1: {y:?}");
    println!("   back: {:?}", serde_saphyr::from_str::<Vec<RcAnchor<Vec<i32>>>>(&y).map(|v| v.iter().map(|e| (*e.0).clone()).collect::<Vec<_>>()).map_err(|e| e.to_string().lines().next().unwrap().to_string()));
    // 2. dangling weak
    let w = W { strong: None, weak: RcWeakAnchor(std::rc::Weak::new()) };
    let y = serde_saphyr::to_string(&w).unwrap();
    println!("2: {y:?}");
    println!("   back: {:?}", serde_saphyr::from_str::<W>(&y).map(|w| w.weak.0.upgrade().is_none()).map_err(|e| e.to_string().lines().next().unwrap().to_string()));
    // 3. dangling recursion inside an anchored recursive
    let y3 = "&a\nname: x\nnext: null\n";
    println!("3: {:?}", serde_saphyr::from_str::<RcRecursive<Node>>(y3).map(|n| n.borrow().next.upgrade().is_none()).map_err(|e| e.to_string().lines().next().unwrap().to_string()));
}
