// Known findings K1 and K2 (C13) — these tests FAIL on the current tree; they document the recorded, unrepaired defects.
use std::collections::BTreeMap;
fn rt<T: serde::Serialize + serde::de::DeserializeOwned + PartialEq + std::fmt::Debug>(v: &T, o: serde_saphyr::SerializerOptions) {
    let mut y = String::new();
    serde_saphyr::to_fmt_writer_with_options(&mut y, v, o).unwrap();
    let back: T = serde_saphyr::from_str(&y).unwrap_or_else(|e| panic!("does not read back: {y:?}: {e}"));
    assert_eq!(&back, v, "{y:?}");
}
#[test]
fn k1_indent_step_other_than_two() {
    for step in [1usize, 3, 4, 8] {
        rt(&vec![vec![1, 2], vec![3]], serde_saphyr::ser_options! { indent_step: step });
    }
}
#[test]
fn k2_empty_collections_without_braces() {
    rt(&vec![Some(Vec::<i32>::new()), Some(vec![1])], serde_saphyr::ser_options! { empty_as_braces: false });
    rt(&vec![Some(BTreeMap::<String, i32>::new())], serde_saphyr::ser_options! { empty_as_braces: false });
}
