use serde::{Deserialize, Serialize};
use std::collections::BTreeMap;

fn rt_str(s: &str) {
    let y = serde_saphyr::to_string(&s.to_string()).unwrap();
    let back: String = serde_saphyr::from_str(&y).unwrap_or_else(|e| panic!("{s:?} -> {y:?}: {e}"));
    assert_eq!(back, s, "root string {s:?} emitted as {y:?}");
    let mut m = BTreeMap::new();
    m.insert(s.to_string(), s.to_string());
    let y = serde_saphyr::to_string(&m).unwrap();
    let back: BTreeMap<String, String> = serde_saphyr::from_str(&y).unwrap_or_else(|e| panic!("map {s:?} -> {y:?}: {e}"));
    assert_eq!(back, m, "map with {s:?} emitted as {y:?}");
    let v = vec![s.to_string()];
    let y = serde_saphyr::to_string(&v).unwrap();
    let back: Vec<String> = serde_saphyr::from_str(&y).unwrap_or_else(|e| panic!("seq {s:?} -> {y:?}: {e}"));
    assert_eq!(back, v, "seq with {s:?} emitted as {y:?}");
}

#[test]
fn f6_merge_key_and_document_markers() {
    for s in ["<<", "---", "...", "--- a", "... b", "---\ta"] { rt_str(s); }
}
#[test]
fn f9_edge_blanks_and_bom() {
    for s in ["a ", "null ", "a\t", "\u{FEFF}abc", "12 ", "true "] { rt_str(s); }
}
#[test]
fn f8_cr_in_block_scalars() {
    let long = format!("{}\r{}\n{}", "x".repeat(60), "y".repeat(60), "z".repeat(10));
    rt_str(&long);
    let y = serde_saphyr::to_string(&serde_saphyr::LitString("x\ry\n".to_string())).unwrap();
    let back: String = serde_saphyr::from_str(&y).unwrap();
    assert_eq!(back, "x\ry\n", "LitString emitted as {y:?}");
    let y = serde_saphyr::to_string(&serde_saphyr::FoldString("x\ry".to_string())).unwrap();
    let back: String = serde_saphyr::from_str(&y).unwrap();
    assert_eq!(back.trim_end_matches('\n'), "x\ry", "FoldString emitted as {y:?}");
}
#[derive(Serialize)]
struct S { a: serde_saphyr::Commented<i32> }
#[derive(Deserialize, Debug, PartialEq)]
struct D { a: i32 }
#[test]
fn f7_cr_in_comment() {
    let y = serde_saphyr::to_string(&S { a: serde_saphyr::Commented(5, "x\rinjected: 1".to_string()) }).unwrap();
    let back: BTreeMap<String, i32> = serde_saphyr::from_str(&y).unwrap_or_else(|e| panic!("{y:?}: {e}"));
    assert_eq!(back.len(), 1, "comment injected an entry: {y:?} -> {back:?}");
}
