use serde::{Serialize, Deserialize};
use serde_saphyr::RcAnchor;
use std::rc::Rc;
use std::collections::BTreeMap;
#[derive(Debug, Serialize, Deserialize, PartialEq, Clone)]
struct P { a: i32, b: Vec<i32> }
fn rt<T: Serialize + for<'de> Deserialize<'de> + PartialEq + std::fmt::Debug>(name: &str, v: &T) {
    for (ci, step) in [(false, 2usize), (true, 2), (false, 4)] {
        let opts = serde_saphyr::SerializerOptions { compact_list_indent: ci, indent_step: step, ..Default::default() };
        let mut y = String::new();
        serde_saphyr::to_fmt_writer_with_options(&mut y, v, opts.clone()).unwrap();
        let back: Result<T, _> = serde_saphyr::from_str(&y);
        let ok = match &back { Ok(b) => { let mut y2 = String::new(); serde_saphyr::to_fmt_writer_with_options(&mut y2, b, opts).unwrap(); y2 == y } Err(_) => false };
        println!("{name} ci={ci} step={step}: {} {:?} => {:?}", if ok { "OK  " } else { "FAIL" }, y, back.map_err(|e| e.to_string().lines().next().unwrap().to_string()));
    }
}
#[test]
fn probe() {
    let s = RcAnchor(Rc::new(vec![1, 2]));
    rt("seq-in-seq", &vec![s.clone(), s.clone()]);
    rt("seq-in-seq-in-seq", &vec![vec![s.clone(), s.clone()]]);
    let m = RcAnchor(Rc::new(P { a: 1, b: vec![3] }));
    rt("map-in-seq", &vec![m.clone(), m.clone()]);
    let mut bm = BTreeMap::new(); bm.insert("k".to_string(), vec![s.clone(), s.clone()]);
    rt("seq-in-seq-in-map", &bm);
    let e = RcAnchor(Rc::new(Vec::<i32>::new()));
    rt("empty-seq-in-seq", &vec![e.clone(), e.clone()]);
    rt("tuple", &(s.clone(), 5, s.clone()));
}
