use serde::{Deserialize, Serialize};
use serde_saphyr::RcAnchor;
use std::rc::Rc;

#[derive(Serialize, Deserialize, Debug, PartialEq, Clone)]
enum E {
    N(i32),
    T(i32, i32),
    S { a: i32, b: Vec<i32> },
    W(Box<E>),
    U,
}

fn samples() -> Vec<E> {
    vec![
        E::N(5),
        E::T(1, 2),
        E::S { a: 1, b: vec![2, 3] },
        E::W(Box::new(E::N(9))),
        E::W(Box::new(E::S { a: 4, b: vec![] })),
    ]
}

#[derive(Serialize, Deserialize, Debug)]
struct InMap {
    first: Vec<i32>,
    a: RcAnchor<E>,
    b: RcAnchor<E>,
}

fn option_sets() -> Vec<serde_saphyr::SerializerOptions> {
    let mut v = vec![serde_saphyr::SerializerOptions::default()];
    let mut o = serde_saphyr::SerializerOptions::default();
    o.compact_list_indent = true;
    v.push(o);
    let mut o = serde_saphyr::SerializerOptions::default();
    o.yaml_12 = true;
    v.push(o);
    v
}

fn emit<T: Serialize>(v: &T, o: &serde_saphyr::SerializerOptions) -> String {
    let mut s = String::new();
    serde_saphyr::to_fmt_writer_with_options(&mut s, v, o.clone()).unwrap();
    s
}

#[test]
fn shared_enum_with_payload_round_trips_in_every_position() {
    for o in option_sets() {
        for e in samples() {
            // mapping values (the second after a block sibling)
            let rc = Rc::new(e.clone());
            let d = InMap { first: vec![1], a: RcAnchor(rc.clone()), b: RcAnchor(rc) };
            let y = emit(&d, &o);
            let back: InMap = serde_saphyr::from_str(&y).unwrap_or_else(|err| panic!("{e:?}\n{y}\n{err}"));
            assert_eq!(*back.a.0, e, "{y}");
            assert!(Rc::ptr_eq(&back.a.0, &back.b.0), "{y}");
            // sequence elements
            let rc = Rc::new(e.clone());
            let v = vec![RcAnchor(rc.clone()), RcAnchor(rc)];
            let y = emit(&v, &o);
            let back: Vec<RcAnchor<E>> = serde_saphyr::from_str(&y).unwrap_or_else(|err| panic!("{e:?}\n{y}\n{err}"));
            assert_eq!(*back[0].0, e, "{y}");
            assert!(Rc::ptr_eq(&back[0].0, &back[1].0), "{y}");
            // nested sequences and a tuple
            let rc = Rc::new(e.clone());
            let v = (vec![vec![RcAnchor(rc.clone())]], RcAnchor(rc));
            let y = emit(&v, &o);
            let back: (Vec<Vec<RcAnchor<E>>>, RcAnchor<E>) =
                serde_saphyr::from_str(&y).unwrap_or_else(|err| panic!("{e:?}\n{y}\n{err}"));
            assert_eq!(*back.1.0, e, "{y}");
            assert!(Rc::ptr_eq(&back.0[0][0].0, &back.1.0), "{y}");
            // the document root
            let rc = Rc::new(e.clone());
            let y = emit(&RcAnchor(rc), &o);
            let back: RcAnchor<E> = serde_saphyr::from_str(&y).unwrap_or_else(|err| panic!("{e:?}\n{y}\n{err}"));
            assert_eq!(*back.0, e, "{y}");
        }
    }
}
