use serde::Deserialize;
use serde_saphyr::RcAnchor;
use std::rc::Rc;

struct ParsesOnDrop(#[allow(dead_code)] i32);
impl<'de> Deserialize<'de> for ParsesOnDrop {
    fn deserialize<D: serde::Deserializer<'de>>(d: D) -> Result<Self, D::Error> {
        Ok(ParsesOnDrop(i32::deserialize(d)?))
    }
}
impl Drop for ParsesOnDrop {
    fn drop(&mut self) {
        let v = serde_saphyr::from_str::<i32>("5");
        assert_eq!(v.unwrap(), 5);
    }
}
#[derive(Deserialize)]
struct DocA {
    #[allow(dead_code)]
    a: RcAnchor<ParsesOnDrop>,
    #[allow(dead_code)]
    b: bool,
}

#[test]
fn nested_call_in_drop_during_scope_exit_does_not_panic() {
    let r = serde_saphyr::from_str::<DocA>("a: &x 1\nb: notabool\n");
    assert!(r.is_err());
}

struct Nested;
impl<'de> Deserialize<'de> for Nested {
    fn deserialize<D: serde::Deserializer<'de>>(d: D) -> Result<Self, D::Error> {
        if bool::deserialize(d)? {
            assert_eq!(serde_saphyr::from_str::<i32>("5").unwrap(), 5);
        }
        Ok(Nested)
    }
}
#[derive(Deserialize)]
struct DocB {
    a: RcAnchor<i32>,
    #[allow(dead_code)]
    n: Nested,
    b: RcAnchor<i32>,
}

#[test]
fn nested_call_leaves_enclosing_anchor_table_alone() {
    let d: DocB = serde_saphyr::from_str("a: &x 1\nn: false\nb: *x\n").unwrap();
    assert!(Rc::ptr_eq(&d.a.0, &d.b.0));
    let d: DocB = serde_saphyr::from_str("a: &x 1\nn: true\nb: *x\n").unwrap();
    assert!(Rc::ptr_eq(&d.a.0, &d.b.0));
}
