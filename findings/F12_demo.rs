#[test]
fn f12_huge_ratio_multiplier_does_not_panic() {
    // any option configuration: a very large multiplier must not overflow in finish()
    let opts = serde_saphyr::options! {
        budget: serde_saphyr::budget! {
            alias_anchor_ratio_multiplier: usize::MAX,
            alias_anchor_min_aliases: 1,
        },
    };
    let y = "a: &x 1\nb: &y 2\nc: *x\nd: *y\n";
    let r: Result<std::collections::BTreeMap<String, i32>, _> = serde_saphyr::from_str_with_options(y, opts);
    assert!(r.is_ok(), "{:?}", r.err().map(|e| e.to_string()));
}
