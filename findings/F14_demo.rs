// F14 (C05): a bare `Variant` scalar naming a non-unit variant consumed the FOLLOWING node as its payload.
// Before 8a033ea: [A, 5] -> Ok([A(5)]), [T, [1, 2]] -> Ok([T(1, 2)]), [S, {x: 1}] -> Ok([S{x:1}]), [O, U] -> Err (U read as i32).
use serde::Deserialize;
#[derive(Debug, Deserialize, PartialEq)]
enum E { A(i32), T(i32, i32), S { x: i32 }, U, O(Option<i32>) }
#[test]
fn f14_bare_variant_does_not_take_the_next_node() {
    assert!(serde_saphyr::from_str::<Vec<E>>("[A, 5]").is_err());
    assert!(serde_saphyr::from_str::<Vec<E>>("[T, [1, 2]]").is_err());
    assert!(serde_saphyr::from_str::<Vec<E>>("[S, {x: 1}]").is_err());
    assert_eq!(serde_saphyr::from_str::<Vec<E>>("[O, U]").unwrap(), vec![E::O(None), E::U]);
    assert_eq!(serde_saphyr::from_str::<E>("O").unwrap(), E::O(None));
    assert_eq!(serde_saphyr::from_str::<Vec<E>>("[{A: 5}, U]").unwrap(), vec![E::A(5), E::U]);
}
