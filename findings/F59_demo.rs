use std::io::{self, Read};

/// A reader that delivers `data` and then fails with the given error kind.
struct FailsAfter {
    data: Vec<u8>,
    pos: usize,
    kind: io::ErrorKind,
}
impl Read for FailsAfter {
    fn read(&mut self, buf: &mut [u8]) -> io::Result<usize> {
        if self.pos < self.data.len() {
            let n = buf.len().min(self.data.len() - self.pos);
            buf[..n].copy_from_slice(&self.data[self.pos..self.pos + n]);
            self.pos += n;
            Ok(n)
        } else {
            Err(io::Error::new(self.kind, "stream truncated"))
        }
    }
}

#[test]
fn reader_failing_with_unexpected_eof_is_an_error_not_the_end_of_input() {
    for kind in [io::ErrorKind::UnexpectedEof, io::ErrorKind::Other, io::ErrorKind::BrokenPipe] {
        let r = FailsAfter { data: b"a: 1\nb: 2\n".to_vec(), pos: 0, kind };
        let v: Result<std::collections::BTreeMap<String, i32>, _> = serde_saphyr::from_reader(r);
        assert!(v.is_err(), "{kind:?}: a value was built from the truncated prefix: {v:?}");
    }
}

#[test]
fn clean_end_of_input_is_still_accepted() {
    let v: std::collections::BTreeMap<String, i32> = serde_saphyr::from_reader(&b"a: 1\nb: 2\n"[..]).unwrap();
    assert_eq!(v.len(), 2);
    let v: Option<i32> = serde_saphyr::from_reader(&b""[..]).unwrap();
    assert_eq!(v, None);
}
