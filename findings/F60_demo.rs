use std::collections::BTreeMap;
type M = BTreeMap<String, String>;
fn run(input: &str, cap: usize) -> Vec<Result<M, String>> {
    let opts = serde_saphyr::options! { budget: serde_saphyr::budget! { max_reader_input_bytes: Some(cap) } };
    serde_saphyr::read_with_options::<_, M>(&mut input.as_bytes(), opts)
        .map(|r| r.map_err(|e| e.to_string()))
        .collect()
}
#[test]
fn no_value_after_the_cap_was_exceeded() {
    let v = run("a: x\n---\nb: y\n", 13);
    assert!(v.iter().any(|r| r.is_err()), "{v:?}");
    let first_err = v.iter().position(|r| r.is_err()).unwrap();
    assert!(v[first_err + 1..].is_empty(), "items after the cap error: {v:?}");
    let v = run("a: x\n---\nb: y\n---\nc: z\n", 22);
    let first_err = v.iter().position(|r| r.is_err()).expect("cap error");
    assert!(v[first_err + 1..].is_empty(), "items after the cap error: {v:?}");
}
#[test]
fn a_type_error_is_still_recovered_from() {
    let mut r = "a: 1\n---\nb: x\n---\nc: 3\n".as_bytes();
    let it = serde_saphyr::read::<_, BTreeMap<String, i32>>(&mut r);
    let v: Vec<bool> = it.map(|r| r.is_ok()).collect();
    assert_eq!(v, vec![true, false, true]);
}
