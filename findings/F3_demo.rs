use std::io::Read;
/// yields `~\n` and then fails hard
struct Failing { data: &'static [u8], pos: usize }
impl Read for Failing {
    fn read(&mut self, buf: &mut [u8]) -> std::io::Result<usize> {
        if self.pos < self.data.len() {
            let n = 1.min(buf.len());
            buf[..n].copy_from_slice(&self.data[self.pos..self.pos + n]);
            self.pos += n;
            Ok(n)
        } else {
            Err(std::io::Error::new(std::io::ErrorKind::Other, "disk on fire"))
        }
    }
}
#[test]
fn f3_io_error_after_null_document_is_reported() {
    let mut rd = Failing { data: b"~\n", pos: 0 };
    let items: Vec<Result<i32, _>> = serde_saphyr::read(&mut rd).collect();
    assert!(items.iter().any(|r| r.is_err()), "the reader failed but the iterator yielded {:?} items and no error", items.len());
}
