use serde::Deserialize;
use std::collections::BTreeMap;
#[derive(Debug, Deserialize)]
#[serde(deny_unknown_fields)]
struct S { #[allow(dead_code)] a: i32 }
fn has_ctl(s: &str) -> bool { s.chars().any(|c| (c.is_control() && c != '\n' && c != '\t')) }
#[test]
fn f4_rendered_report_is_terminal_safe() {
    // duplicate key carrying an escape sequence (written as a YAML escape)
    let y = "\"a\\e[31mX\": 1\n\"a\\e[31mX\": 2\n";
    let e = serde_saphyr::from_str::<BTreeMap<String, i32>>(y).unwrap_err();
    let r = e.to_string();
    assert!(!has_ctl(&r), "rendered report contains control characters: {r:?}");
    // unknown field reflected by serde
    let y = "a: 1\n\"b\\e]0;pwn\\a\": 2\n";
    let e = serde_saphyr::from_str::<S>(y).unwrap_err();
    let r = e.to_string();
    assert!(!has_ctl(&r), "rendered report contains control characters: {r:?}");
    assert!(r.contains("unknown field"), "{r}");
    // C1 CSI
    let y = "\"k\\x9b31m\": 1\n\"k\\x9b31m\": 2\n";
    let e = serde_saphyr::from_str::<BTreeMap<String, i32>>(y).unwrap_err();
    let r = e.render();
    assert!(!has_ctl(&r), "rendered report contains control characters: {r:?}");
}
