#!/bin/sh
# Offline setup: build the fact-extraction driver and warm the dependency caches for the two
# quick configurations (facts themselves are extracted by each check from /repo's current tree).
set -e
cd "$(dirname "$0")"
export CARGO_NET_OFFLINE=true
(cd ssfacts && cargo build --release --offline 2>&1 | tail -3)
python3 - <<'PY'
import sys, os, threading
sys.path.insert(0, os.getcwd())
from ssrules import facts
errs = []
def go(c):
    try:
        facts.extract(c, quiet=False)
    except Exception as e:
        errs.append((c, e))
ts = [threading.Thread(target=go, args=(c,)) for c in facts.QUICK_CONFIGS]
[t.start() for t in ts]; [t.join() for t in ts]
if errs:
    print("setup: fact extraction failed:", errs); sys.exit(1)
print("setup ok")
PY
