#!/bin/bash
# Intake of one behaviour-preserving refactoring produced by a sub-agent: confirm it independently in its scratch worktree
# (differential demo passes on the unmodified tree and with the patch; whole suite passes with the patch, default and all
# features), store it under controls/<name>/, remove the worktree, and run every registered quick check against it.
# usage: tools/intake_control.sh <worktree> <Cxx> <name> [cargo-features-for-the-demo]
set -u
WT=$1; P=$2; NAME=$3; FEAT=${4:-}
VERIF=$(cd "$(dirname "$0")/.." && pwd)
export CARGO_BUILD_JOBS=${CARGO_BUILD_JOBS:-6} CARGO_NET_OFFLINE=true CARGO_TARGET_DIR=${CTL_TARGET:-$WT/target}
if [ ! -f "$WT/CONTROL/patch.diff" ] || [ ! -f "$WT/CONTROL/demo.rs" ]; then echo "NO DELIVERABLE in $WT"; exit 2; fi
cd "$WT" || exit 2
git checkout -q -- src 2>/dev/null
FF=""; [ -n "$FEAT" ] && FF="--features $FEAT"
cp CONTROL/demo.rs tests/zz_control_demo.rs
A=$(cargo test --offline $FF --test zz_control_demo 2>&1 | grep -E "^test result|could not compile" | head -1)
git apply CONTROL/patch.diff || { echo "REJECT: patch does not apply"; exit 1; }
B=$(cargo test --offline $FF --test zz_control_demo 2>&1 | grep -E "^test result|could not compile" | head -1)
rm -f tests/zz_control_demo.rs
S1=$(cargo nextest run --workspace --no-fail-fast --offline 2>&1 | grep Summary)
S2=$(cargo nextest run --workspace --no-fail-fast --offline --features garde,validator,miette,robotics,figment 2>&1 | grep Summary)
git checkout -q -- src
echo "demo clean:   $A"; echo "demo patched: $B"; echo "suite: $S1"; echo "suite(all): $S2"
case "$A" in *"ok."*) ;; *) echo "REJECT: demo does not pass on the unmodified tree"; exit 1;; esac
case "$B" in *"ok."*) ;; *) echo "REJECT: demo does not pass with the patch (behaviour changed?)"; exit 1;; esac
echo "$S1 $S2" | grep -q "failed" && { echo "REJECT: suite has failures"; exit 1; }
D="$VERIF/controls/$P-$NAME"; mkdir -p "$D"
cp CONTROL/patch.diff CONTROL/demo.rs "$D/"; cp CONTROL/README.md "$D/agent_README.md" 2>/dev/null
cd /; git -C /repo worktree remove --force "$WT"
if ! git -C /repo apply --check "$D/patch.diff" 2>/dev/null; then echo "NOTE: patch does not apply to current /repo HEAD"; exit 0; fi
[ -n "${NO_EVAL:-}" ] && exit 0
echo "#### evaluate (every quick check must stay silent)"
python3 "$VERIF/tools/eval_seeded.py" "$D" 2>&1 | tail -30
