#!/bin/bash
# re-verify every stored seeded change on the current /repo HEAD (scratch worktree /tmp/wt-fix)
cd /tmp/wt-fix && git checkout -q -- . && git checkout -q --detach $(git -C /repo rev-parse HEAD)
export CARGO_TARGET_DIR=/tmp/wt-fix/target CARGO_NET_OFFLINE=true
for d in /verif/seeded/*/; do
  n=$(basename $d); feat=""
  case $n in C18-*) feat="--features garde,validator";; C19-*) feat="--features robotics";; esac
  cp $d/demo.rs tests/zz_seeded_demo.rs
  a=$(cargo test --offline $feat --test zz_seeded_demo 2>&1 | grep -E "^test result|could not compile" | head -1)
  git apply $d/patch.diff || { echo "$n: PATCH DOES NOT APPLY"; rm -f tests/zz_seeded_demo.rs; continue; }
  b=$(cargo test --offline $feat --test zz_seeded_demo 2>&1 | grep -E "^test result|could not compile" | head -1)
  git checkout -q -- src; rm -f tests/zz_seeded_demo.rs
  echo "$n | clean: $a | patched: $b"
done
