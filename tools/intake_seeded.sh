#!/bin/bash
# Intake of one sub-agent deliverable: confirm it independently in its scratch worktree, store it under
# seeded/<Cxx>-<name>/, remove the worktree, and run every registered quick check against it.
# usage: tools/intake_seeded.sh <worktree> <Cxx> <name> [cargo-features]
set -u
WT=$1; P=$2; NAME=$3; FEAT=${4:-}
VERIF=$(cd "$(dirname "$0")/.." && pwd)
export CARGO_BUILD_JOBS=${CARGO_BUILD_JOBS:-6}
if [ ! -f "$WT/SEEDED/patch.diff" ] || [ ! -f "$WT/SEEDED/demo.rs" ]; then echo "NO DELIVERABLE in $WT"; exit 2; fi
echo "#### verify $P-$NAME"
OUT=$(timeout 2400 "$VERIF/tools/verify_seeded.sh" "$WT" "$FEAT" 2>&1 | tail -7)
echo "$OUT"
CLEAN=$(echo "$OUT" | sed -n '/demo on unmodified/{n;p}')
PATCHED=$(echo "$OUT" | sed -n '/demo with patch/{n;p}')
SUITE=$(echo "$OUT" | grep Summary)
case "$CLEAN" in *"ok."*) ;; *) echo "REJECT: demo does not pass on the unmodified tree"; exit 1;; esac
case "$PATCHED" in *FAILED*) ;; *) echo "REJECT: demo does not fail with the patch"; exit 1;; esac
case "$SUITE" in *"passed, "*) ;; *passed*) ;; *) echo "REJECT: suite"; exit 1;; esac
if echo "$SUITE" | grep -q "failed"; then echo "REJECT: suite has failures"; exit 1; fi
D="$VERIF/seeded/$P-$NAME"; mkdir -p "$D"
cp "$WT/SEEDED/patch.diff" "$WT/SEEDED/demo.rs" "$D/"; cp "$WT/SEEDED/README.md" "$D/agent_README.md" 2>/dev/null
git -C /repo worktree remove --force "$WT"
if ! git -C /repo apply --check "$D/patch.diff" 2>/dev/null; then echo "NOTE: patch does not apply to current /repo HEAD (needs rebase)"; exit 0; fi
echo "#### evaluate"
python3 "$VERIF/tools/eval_seeded.py" "$D" 2>&1 | tail -25
