#!/usr/bin/env python3
"""Generate /verif/MANIFEST.json from the table in ssrules/registry.py (single source of truth)."""
import json, os, sys
sys.path.insert(0, os.path.dirname(os.path.dirname(os.path.abspath(__file__))))
from ssrules import registry

checks = []
for pid, r in sorted(registry.CLAIMED.items()):
    checks.append(dict(
        property_id=pid,
        quick_cmd="./check %s --tier quick" % pid,
        thorough_cmd="./check %s --tier thorough" % pid,
        evidence_file="/verif/evidence/%s.json" % pid,
        replay_cmd_template="./check %s --replay {path}" % pid,
        engine="ssfacts+ssrules",
        level_claimed=dict(category="other", text=r["level"], design_ref=r.get("design", "DESIGN.md §4 %s" % pid)),
        level_note=r["note"],
        technique=r["technique"],
    ))
na = [dict(property_id=p, reason=reason) for p, reason in sorted(registry.NOT_APPLICABLE.items())]
m = dict(
    version=1,
    setup_cmd="./setup.sh",
    hooks=dict(guard="serde_saphyr_verif", enable="none needed: the checks read the MIR of the unmodified crate (no hooks are compiled in)",
               baseline_off_cmd="cd /repo && cargo nextest run --workspace --no-fail-fast --offline || cargo test --workspace --no-fail-fast --offline",
               source_commits=registry.HOOK_COMMITS, add_only=True),
    engines=[
        dict(name="ssfacts", path="/verif/ssfacts", serves_properties=sorted(registry.CLAIMED), kind_free_text="rustc_private driver (nightly): dumps the type-checked, callee-resolved MIR, ADT/impl/static tables of /repo's current tree per feature configuration"),
        dict(name="ssrules", path="/verif/ssrules", serves_properties=sorted(registry.CLAIMED), kind_free_text="Python rule engine over the MIR facts: dominance, must-pass-through, counter/limit pairing, reset completeness, discard discipline, table/sibling agreement, taint, state census"),
        dict(name="witness", path="/verif/witness", serves_properties=registry.WITNESS_PROPS, kind_free_text="rustdoc compile_fail witnesses with compiling twins (type-level remainder)"),
    ],
    checks=checks,
    not_applicable=na,
    notes=registry.NOTES,
)
with open(os.path.join(os.path.dirname(os.path.dirname(os.path.abspath(__file__))), "MANIFEST.json"), "w") as fh:
    json.dump(m, fh, indent=1)
print("MANIFEST.json: %d checks, %d not_applicable" % (len(checks), len(na)))
