#!/bin/bash
# Confirm a seeded change independently: usage tools/verify_seeded.sh <worktree> <features-or-empty>
# 1. demo passes on the unmodified tree, 2. patch applies + builds, 3. unedited suite passes with the patch,
# 4. demo fails with the patch.  Leaves the worktree clean.
set -u
WT=$1; FEAT=${2:-}
cd "$WT" || exit 2
export CARGO_TARGET_DIR=$WT/target CARGO_NET_OFFLINE=true
FF=""; [ -n "$FEAT" ] && FF="--features $FEAT"
git checkout -q -- src 2>/dev/null
cp SEEDED/demo.rs tests/zz_seeded_demo.rs
echo "== demo on unmodified tree"; cargo test --offline $FF --test zz_seeded_demo 2>&1 | grep -E "^test result|^error(\[E|: could not compile)" | head -3
git apply SEEDED/patch.diff || { echo "PATCH DOES NOT APPLY"; rm -f tests/zz_seeded_demo.rs; exit 1; }
echo "== demo with patch"; cargo test --offline $FF --test zz_seeded_demo 2>&1 | grep -E "^test result|^error(\[E|: could not compile)" | head -3
rm -f tests/zz_seeded_demo.rs
echo "== suite with patch"; cargo nextest run --workspace --no-fail-fast --offline $FF 2>&1 | grep -E "Summary|FAIL " | head -5
git checkout -q -- src
git status --short | head -5
