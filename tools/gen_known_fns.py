#!/usr/bin/env python3
"""Regenerate ssrules/tables/known_fns.json: the functions of the tree the rules were confirmed on (union over all feature
configurations).  Run after every /repo change that is meant to stay (a `fix:` commit) — the rules are re-confirmed on that
tree — never on a tree under evaluation.  usage: tools/gen_known_fns.py"""
import json, os, sys
V = os.path.dirname(os.path.dirname(os.path.abspath(__file__)))
sys.path.insert(0, V)
from ssrules import facts as F
from ssrules.mir import norm
from ssrules import normalise
names = set()
hashes = {}
for cfg in F.THOROUGH_CONFIGS:
    d = F.load(cfg)
    for fn in d["fns"]:
        if fn["kind"] != "closure":
            names.add(norm(fn["path"]))
            hashes.setdefault(norm(fn["path"]), set()).add(normalise.body_hash(fn))
out = os.path.join(V, "ssrules", "tables", "known_fns.json")
json.dump({"_comment": "functions of the confirmed tree (tools/gen_known_fns.py); see ssrules/normalise.py", "tree": F.tree_hash(), "fns": sorted(names), "hashes": {k: sorted(v) for k, v in sorted(hashes.items())}}, open(out, "w"), indent=0)
print("known functions:", len(names), "tree", F.tree_hash())
