#!/usr/bin/env python3
"""Debug aid: pretty-print the MIR facts of functions matching a regex.
usage: tools/show.py [-c config] [-s] <regex>      (-s: symbolic view of switches/calls)"""
import sys, os, re, json
sys.path.insert(0, os.path.dirname(os.path.dirname(os.path.abspath(__file__))))
from ssrules import facts as F
from ssrules.mir import Facts, norm, fieldpath

def pl(p):
    s = "_%d" % p["l"]
    for e in p["pr"]:
        if e == "*": s = "(*%s)" % s
        elif "dc" in e: s = "(%s as %s)" % (s, e["dc"])
        elif "i" in e: s = "%s.%s" % (s, e.get("f", e["i"]))
        elif "ix" in e: s = "%s[_%d]" % (s, e["ix"])
        elif "ci" in e: s = "%s[%d]" % (s, e["ci"])
        else: s = "%s?%s" % (s, e)
    return s
def op(o):
    if "cp" in o: return "copy " + pl(o["cp"])
    if "mv" in o: return "move " + pl(o["mv"])
    if "c" in o:
        c = o["c"]
        if "fn" in c: return "fn " + norm(c["fn"])
        if "v" in c: return "const %r" % (c["v"],)
        return "const<%s>" % c["ty"]
    return str(o)
def rv(r):
    k = r["k"]
    if k == "use": return op(r["o"])
    if k == "ref": return ("&mut " if r["mut"] else "&") + pl(r["p"])
    if k == "bin": return "%s(%s, %s)" % (r["op"], op(r["a"]), op(r["b"]))
    if k == "un": return "%s(%s)" % (r["op"], op(r["o"]))
    if k == "cast": return "%s as %s [%s]" % (op(r["o"]), r["ty"], r["ck"])
    if k == "discr": return "discr(%s)" % pl(r["p"])
    if k == "aggr":
        if r["ak"] == "adt": return "%s::%s{%s}" % (norm(r["adt"]), r["variant"], ", ".join("%s: %s" % (f, op(o)) for f, o in zip(r.get("fields", []), r["ops"])))
        if r["ak"] == "closure": return "closure %s [%s]" % (r["closure"], ", ".join(op(o) for o in r["ops"]))
        return "%s(%s)" % (r["ak"], ", ".join(op(o) for o in r["ops"]))
    return json.dumps(r)
def main():
    args = sys.argv[1:]
    config = "default"; symb = False
    while args and args[0].startswith("-"):
        if args[0] == "-c": config = args[1]; args = args[2:]
        elif args[0] == "-s": symb = True; args = args[1:]
    fx = Facts(F.load(config))
    rx = re.compile(args[0])
    pool = list(fx.fns.values()) + list(fx.foreign.values())
    for f in pool:
        if not rx.search(f.npath): continue
        print("=" * 100); print("fn %s   [%s:%d-%d] nargs=%d vis=%s" % (f.path, f.file, f.lo, f.hi, f.nargs, f.d.get("vis")))
        print("  sig:", f.d.get("sig"))
        for i, l in enumerate(f.locals):
            if l.get("name") or i <= f.nargs: print("   _%d: %s  %s" % (i, l["ty"], l.get("name", "")))
        live = f.live_blocks
        for b, blk in enumerate(f.blocks):
            if b not in live and not blk["cleanup"]: continue
            if blk["cleanup"] and "-u" not in sys.argv: continue
            print("  bb%d%s:" % (b, " (cleanup)" if blk["cleanup"] else ""))
            for s in blk["stmts"]:
                if s["k"] == "assign": print("      %s = %s    // %s %s" % (pl(s["p"]), rv(s["rv"]), s.get("ln", ""), s.get("mac", "")))
                else: print("      %s" % json.dumps(s))
            t = blk["term"]; k = t["k"]
            if k == "call":
                fn = t["f"]; nm = norm(fn.get("res") or fn.get("path", "<ptr>")) if "path" in fn else "<indirect %s>" % op(fn["ptr"])
                print("      %s = %s(%s) -> bb%s uw=%s   // %s %s%s" % (pl(t["dest"]), nm, ", ".join(op(a) for a in t["args"]), t["t"], t["uw"], t.get("ln", ""), t.get("mac", ""), "" if fn.get("res") else "  [unresolved %s self=%s]" % (fn.get("trait"), fn.get("self_ty"))))
                if symb: print("          sym:", [fieldpath(f.sym_operand(a)) or f.sym_operand(a) for a in t["args"]])
            elif k == "switch":
                print("      switch %s [%s] %s -> %s   // %s" % (op(t["o"]), t["ty"], t["vals"], t["tgts"], t.get("ln", "")))
                if symb: print("          sym:", f.sym_operand(t["o"]))
            elif k == "assert": print("      assert(%s == %s) %s -> bb%s  // %s" % (op(t["cond"]), t["exp"], t["ak"], t["t"], t.get("ln", "")))
            elif k == "drop": print("      drop(%s) -> bb%s uw=%s" % (pl(t["p"]), t["t"], t["uw"]))
            elif k == "goto": print("      goto bb%s" % t["t"])
            else: print("      %s" % k)
main()
