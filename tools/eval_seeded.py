#!/usr/bin/env python3
"""Run the registered quick checks against a seeded change: apply seeded/<id>/patch.diff to /repo, run every
check (or the listed ones), undo the patch.  Prints which checks report a violation and with which keys.
usage: tools/eval_seeded.py <seeded-dir> [Cxx ...]"""
import json, os, subprocess, sys
VERIF = os.path.dirname(os.path.dirname(os.path.abspath(__file__)))
d = os.path.abspath(sys.argv[1])
props = sys.argv[2:] or ["C%02d" % i for i in range(1, 21)]
st = subprocess.run(["git", "-C", "/repo", "status", "--porcelain", "--untracked-files=no"], stdout=subprocess.PIPE, text=True).stdout.strip()
if st:
    print("refusing: /repo has local changes"); sys.exit(2)
subprocess.check_call(["git", "-C", "/repo", "apply", os.path.join(d, "patch.diff")])
res = {}
try:
    env = dict(os.environ, SS_EVIDENCE_DIR="/tmp/ss_eval_ev", SS_REPLAY_DIR="/tmp/ss_eval_rp")
    for p in props:
        r = subprocess.run([os.path.join(VERIF, "check"), p], env=env, stdout=subprocess.PIPE, stderr=subprocess.STDOUT, text=True)
        keys = [l.strip().split(" ", 1)[1] for l in r.stdout.splitlines() if l.startswith("  violation ")]
        if r.returncode != 0:
            res[p] = keys
finally:
    subprocess.check_call(["git", "-C", "/repo", "checkout", "--", "."])
print(json.dumps(res, indent=1))
