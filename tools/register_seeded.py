#!/usr/bin/env python3
"""Register a stored seeded change: write meta.json and add the SEEDED-* mutant.
usage: tools/register_seeded.py <dir-name> <expect-key> <config> <json-file-with-fields>
fields: breaks, summary, needs, demo_result, first_eval, strengthened (or null), caught_by (dict), round"""
import json, os, sys
V = os.path.join(os.path.dirname(os.path.dirname(os.path.abspath(__file__))), "seeded")
d, exp, cfg, fj = sys.argv[1:5]
m = json.load(open(fj))
rnd = m.pop("round", 3)
m["origin"] = "fresh sub-agent (round %s) given only the property text and a scratch worktree" % rnd
m["what_i_ran"] = ["tools/intake_seeded.sh <worktree> <Cxx> <name> [features]: tools/verify_seeded.sh in the agent's scratch git worktree of /repo (demo passes on the unmodified tree; git apply patch.diff; demo fails; cargo nextest run --workspace --no-fail-fast --offline passes with the patch), store, git -C /repo worktree remove --force, then tools/eval_seeded.py (git -C /repo apply; every registered quick check; git -C /repo checkout -- .)"]
m["files"] = sorted(set(os.listdir(os.path.join(V, d)) + ["meta.json"]))
json.dump(m, open(os.path.join(V, d, "meta.json"), "w"), indent=1, ensure_ascii=False)
prop = m["breaks"]
f = os.path.join(os.path.dirname(V), "mutants", "%s.json" % prop)
mm = json.load(open(f)); mid = "SEEDED-" + d
mm = [x for x in mm if x["id"] != mid]
mm.append({"id": mid, "property": prop, "what": "confirmed seeded change %s (round %s)" % (d, rnd), "patch": "seeded/%s/patch.diff" % d, "edits": [], "expect": exp, "configs": cfg})
json.dump(mm, open(f, "w"), indent=1, ensure_ascii=False)
print("registered", mid)
