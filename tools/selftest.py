#!/usr/bin/env python3
"""E4 — checker self-test (DESIGN.md §2.4).  For every seeded edit in mutants/*.json: copy
/repo's tracked sources to a scratch directory outside /repo and /verif, apply the edit (it
must still compile — fact extraction is a `cargo check`), run the property's check against
the scratch tree and require that it reports the expected rule instance; the scratch tree is
removed afterwards.  Nothing of the crate is executed.
usage: tools/selftest.py [-p Cxx] [-m mutant-id] [-j N] [--configs default]"""
import argparse, json, os, shutil, subprocess, sys, tempfile, glob, time
from concurrent.futures import ThreadPoolExecutor

VERIF = os.path.dirname(os.path.dirname(os.path.abspath(__file__)))
REPO = "/repo"


def load_mutants():
    ms = []
    for p in sorted(glob.glob(os.path.join(VERIF, "mutants", "*.json"))):
        for m in json.load(open(p)):
            m["_file"] = os.path.basename(p)
            ms.append(m)
    return ms


def make_scratch(base):
    d = tempfile.mkdtemp(prefix="ssmut-", dir=base)
    files = subprocess.check_output(["git", "-C", REPO, "ls-files", "src", "examples", "Cargo.toml", "Cargo.lock"], text=True).split()
    for f in files:
        dst = os.path.join(d, f)
        os.makedirs(os.path.dirname(dst), exist_ok=True)
        shutil.copy2(os.path.join(REPO, f), dst)
    return d


def apply_edit(root, m):
    if m.get("patch"):
        # a confirmed seeded change (seeded/<id>/patch.diff): applied with git apply outside a repository
        r = subprocess.run(["git", "apply", "--unsafe-paths", "--directory=" + root, os.path.join(VERIF, m["patch"])], cwd="/", stdout=subprocess.PIPE, stderr=subprocess.STDOUT, text=True)
        if r.returncode != 0:
            return "patch does not apply: " + r.stdout[-300:]
        return None
    for e in m["edits"]:
        p = os.path.join(root, e["file"])
        t = open(p).read()
        cnt = t.count(e["find"])
        want = e.get("count", 1)
        if cnt < 1 or (want != "all" and cnt != want):
            return "edit anchor found %d times (expected %s) in %s: %r" % (cnt, want, e["file"], e["find"][:60])
        t = t.replace(e["find"], e["replace"])
        open(p, "w").write(t)
    return None


def run_one(m, args, slot):
    base = args.scratch
    d = make_scratch(base)
    t0 = time.time()
    try:
        err = apply_edit(d, m)
        if err:
            return m, "STALE", err, 0
        env = dict(os.environ, SS_REPO=d, SS_EVIDENCE_DIR=os.path.join(d, "_ev"), SS_REPLAY_DIR=os.path.join(d, "_rp"),
                   SS_CACHE=os.path.join(VERIF, ".cache", "mut%d" % slot))
        cfgs = m.get("configs") or args.configs
        if cfgs:
            env["SS_CONFIGS"] = cfgs
        p = subprocess.run([os.path.join(VERIF, "check"), m["property"]], env=env, stdout=subprocess.PIPE, stderr=subprocess.STDOUT, text=True)
        out = p.stdout
        if "facts-unavailable" in out:
            return m, "NOCOMPILE", out[-1500:], time.time() - t0
        hit = all(x in out for x in ([m["expect"]] if isinstance(m["expect"], str) else m["expect"]))
        if p.returncode == 1 and "VIOLATION property=%s" % m["property"] in out and hit:
            return m, "CAUGHT", "", time.time() - t0
        return m, "MISSED", out[-2500:], time.time() - t0
    finally:
        shutil.rmtree(d, ignore_errors=True)


def run_control(m, args, slot):
    """a behaviour-preserving edit: every listed check must stay silent on it"""
    d = make_scratch(args.scratch)
    t0 = time.time()
    try:
        err = apply_edit(d, m)
        if err:
            return m, "STALE", err, 0
        alarms = []
        for prop in m["properties"]:
            env = dict(os.environ, SS_REPO=d, SS_EVIDENCE_DIR=os.path.join(d, "_ev"), SS_REPLAY_DIR=os.path.join(d, "_rp"),
                       SS_CACHE=os.path.join(VERIF, ".cache", "mut%d" % slot))
            if m.get("configs"):
                env["SS_CONFIGS"] = m["configs"]
            p = subprocess.run([os.path.join(VERIF, "check"), prop], env=env, stdout=subprocess.PIPE, stderr=subprocess.STDOUT, text=True)
            if "facts-unavailable" in p.stdout:
                return m, "NOCOMPILE", p.stdout[-1500:], time.time() - t0
            if p.returncode != 0 or "VIOLATION" in p.stdout:
                alarms.append(prop + ": " + " ".join(l.strip() for l in p.stdout.splitlines() if l.startswith("  violation "))[:600])
        if alarms:
            return m, "ALARM", "\n".join(alarms), time.time() - t0
        return m, "SILENT", "", time.time() - t0
    finally:
        shutil.rmtree(d, ignore_errors=True)


def main_controls(args):
    cs = []
    for p in sorted(glob.glob(os.path.join(VERIF, "controls", "*.json"))):
        cs += json.load(open(p))
    if args.mutant:
        cs = [c for c in cs if c["id"] == args.mutant]
    if args.only_prop:
        cs = [dict(c, properties=[args.only_prop]) for c in cs if args.only_prop in c["properties"]]
    bad = []
    for k, c in enumerate(cs):
        m, status, detail, dt = run_control(c, args, k % max(args.j, 1))
        print("%-9s %-44s %5.1fs  %s" % (status, c["id"], dt, c.get("what", "")[:90]))
        if status != "SILENT":
            print("    " + detail.replace("\n", "\n    ")[-1800:])
            bad.append(c["id"])
    print("controls: %d behaviour-preserving edits, %d silent, alarms on: %s" % (len(cs), len(cs) - len(bad), bad))
    sys.exit(1 if bad else 0)


def main():
    ap = argparse.ArgumentParser()
    ap.add_argument("--controls", action="store_true", help="run controls/*.json: behaviour-preserving edits on which every listed check must stay silent")
    ap.add_argument("--only-prop", default="", help="with --controls: run only this property's check, on the controls that list it")
    ap.add_argument("-p", "--prop")
    ap.add_argument("-m", "--mutant")
    ap.add_argument("-j", type=int, default=4)
    ap.add_argument("--configs", default="")
    ap.add_argument("--scratch", default=os.environ.get("SS_SCRATCH", "/tmp"))
    ap.add_argument("-v", action="store_true")
    args = ap.parse_args()
    if args.controls:
        return main_controls(args)
    ms = load_mutants()
    if args.prop:
        ms = [m for m in ms if m["property"] == args.prop]
    if args.mutant:
        ms = [m for m in ms if m["id"] == args.mutant]
    res = []
    import queue
    slots = queue.Queue()
    for i in range(args.j):
        slots.put(i)

    def work(m):
        s = slots.get()
        try:
            return run_one(m, args, s)
        finally:
            slots.put(s)
    with ThreadPoolExecutor(max_workers=args.j) as ex:
        for m, status, detail, dt in ex.map(work, ms):
            print("%-9s %-4s %-40s %5.1fs  %s" % (status, m["property"], m["id"], dt, m.get("what", "")[:80]))
            if status != "CAUGHT" and (args.v or True):
                print("    " + detail.replace("\n", "\n    ")[-1800:])
            res.append((m, status))
    bad = [m["id"] for m, s in res if s != "CAUGHT"]
    print("selftest: %d mutants, %d caught, not caught: %s" % (len(res), len(res) - len(bad), bad))
    sys.exit(1 if bad else 0)


main()
