// ssfacts — rustc_private fact extractor for serde-saphyr (see /verif/DESIGN.md §2.1).
//
// Injected with RUSTC_WORKSPACE_WRAPPER under `cargo +nightly check`. For the crate named in
// SSFACTS_CRATE (default `serde_saphyr`, lib target only) it dumps the type-checked, resolved
// MIR of every fn / assoc fn / closure, the ADT and impl tables, statics, and — on demand —
// MIR of named dependency functions (SSFACTS_FOREIGN, needs -Zalways-encode-mir) as ONE JSON
// document written with a single write to SSFACTS_OUT.
#![feature(rustc_private)]
#![allow(clippy::all)]

extern crate rustc_abi;
extern crate rustc_data_structures;
extern crate rustc_driver;
extern crate rustc_hir;
extern crate rustc_interface;
extern crate rustc_middle;
extern crate rustc_session;
extern crate rustc_span;

mod json;
use json::J;

use rustc_driver::Compilation;
use rustc_hir::def::DefKind;
use rustc_hir::def_id::{DefId, LOCAL_CRATE};
use rustc_middle::mir::{
    self, AggregateKind, BasicBlock, Body, BorrowKind, Const, Operand, Place, PlaceElem, Rvalue,
    StatementKind, TerminatorKind, UnwindAction,
};
use rustc_middle::ty::print::with_no_trimmed_paths;
use rustc_middle::ty::{self, Ty, TyCtxt, TypeVisitableExt};
use rustc_span::{Span, DUMMY_SP};

struct Cb;

impl rustc_driver::Callbacks for Cb {
    fn after_analysis<'tcx>(
        &mut self,
        _c: &rustc_interface::interface::Compiler,
        tcx: TyCtxt<'tcx>,
    ) -> Compilation {
        let want = std::env::var("SSFACTS_CRATE").unwrap_or_else(|_| "serde_saphyr".to_string());
        let name = tcx.crate_name(LOCAL_CRATE).to_string();
        let is_lib = tcx
            .crate_types()
            .iter()
            .any(|t| !matches!(t, rustc_session::config::CrateType::Executable));
        if name == want && is_lib {
            if let Ok(out) = std::env::var("SSFACTS_OUT") {
                let j = with_no_trimmed_paths!(dump_crate(tcx));
                let mut s = String::with_capacity(64 << 20);
                j.write(&mut s);
                std::fs::write(&out, s).expect("ssfacts: cannot write SSFACTS_OUT");
            }
        }
        Compilation::Continue
    }
}

fn main() {
    // [driver, rustc, args…] when used as RUSTC_WORKSPACE_WRAPPER
    let mut args: Vec<String> = std::env::args().collect();
    if args.len() > 1 && (args[1].ends_with("rustc") || args[1].contains("rustc")) && !args[1].starts_with('-') {
        args.remove(1);
    }
    rustc_driver::run_compiler(&args, &mut Cb);
}

fn s(x: impl ToString) -> J {
    J::Str(x.to_string())
}
fn obj(v: Vec<(&str, J)>) -> J {
    J::Obj(v.into_iter().map(|(k, v)| (k.to_string(), v)).collect())
}

struct Cx<'tcx> {
    tcx: TyCtxt<'tcx>,
}

fn dump_crate<'tcx>(tcx: TyCtxt<'tcx>) -> J {
    let cx = Cx { tcx };
    let mut fns = Vec::new();
    let mut nbodies = 0i128;
    for ldid in tcx.mir_keys(()).iter() {
        let def_id = ldid.to_def_id();
        match tcx.def_kind(def_id) {
            DefKind::Fn | DefKind::AssocFn | DefKind::Closure => {
                let body = tcx.optimized_mir(def_id);
                let promoted = tcx.promoted_mir(def_id);
                let mut pc = Vec::new();
                for p in promoted.iter() {
                    cx.collect_consts(p, def_id, &mut pc);
                }
                fns.push(cx.dump_fn(def_id, body, pc, true));
                nbodies += 1;
            }
            _ => {}
        }
    }
    // ADTs, impls, statics
    let mut adts = Vec::new();
    let mut impls = Vec::new();
    let mut statics = Vec::new();
    let mut consts = Vec::new();
    for ldid in tcx.hir_crate_items(()).definitions() {
        let def_id = ldid.to_def_id();
        match tcx.def_kind(def_id) {
            DefKind::Struct | DefKind::Enum => adts.push(cx.dump_adt(def_id)),
            DefKind::Impl { .. } => impls.push(cx.dump_impl(def_id)),
            DefKind::Static { mutability, nested, .. } => {
                let ty = tcx.type_of(def_id).instantiate_identity().skip_normalization();
                statics.push(obj(vec![
                    ("path", s(tcx.def_path_str(def_id))),
                    ("ty", s(ty)),
                    ("mutable", J::Bool(mutability.is_mut())),
                    ("nested", J::Bool(nested)),
                    ("thread_local", J::Bool(tcx.is_thread_local_static(def_id))),
                    ("file", s(cx.file_of(tcx.def_span(def_id)))),
                    ("line", J::Int(cx.line_of(tcx.def_span(def_id)) as i128)),
                ]));
            }
            DefKind::Const { .. } | DefKind::AssocConst { .. } => {
                let ty = tcx.type_of(def_id).instantiate_identity().skip_normalization();
                let mut o = vec![
                    ("path", s(tcx.def_path_str(def_id))),
                    ("ty", s(ty)),
                    ("file", s(cx.file_of(tcx.def_span(def_id)))),
                    ("line", J::Int(cx.line_of(tcx.def_span(def_id)) as i128)),
                ];
                if !ty.has_non_region_param() && !tcx.generics_of(def_id).requires_monomorphization(tcx) {
                    if let Ok(v) = tcx.const_eval_poly(def_id) {
                        if let Some(j) = cx.const_value_json(v, ty) {
                            o.push(("v", j));
                        }
                    }
                }
                consts.push(obj(o));
            }
            _ => {}
        }
    }
    // Foreign bodies on demand
    let mut foreign = Vec::new();
    let mut foreign_missing = Vec::new();
    let mut foreign_index = Vec::new();
    let mut foreign_adts = Vec::new();
    let mut foreign_adt_seen = std::collections::HashSet::new();
    let index_all = std::env::var("SSFACTS_FOREIGN_INDEX").is_ok();
    if let Ok(list) = std::env::var("SSFACTS_FOREIGN") {
        let wanted: Vec<String> =
            list.split(',').map(|x| x.trim().to_string()).filter(|x| !x.is_empty()).collect();
        let fn_crates: std::collections::BTreeSet<String> =
            wanted.iter().map(|w| w.trim_start_matches('<').split("::").next().unwrap().to_string()).collect();
        let wanted_adts: Vec<String> = std::env::var("SSFACTS_FOREIGN_ADTS")
            .unwrap_or_default()
            .split(',')
            .map(|x| x.trim().to_string())
            .filter(|x| !x.is_empty())
            .collect();
        let mut crates = fn_crates.clone();
        for w in &wanted_adts {
            crates.insert(w.split("::").next().unwrap().to_string());
        }
        let mut found = std::collections::BTreeSet::new();
        for &cnum in tcx.crates(()).iter() {
            let cname = tcx.crate_name(cnum).to_string();
            if !crates.contains(&cname) {
                continue;
            }
            let mut stack = vec![cnum.as_def_id()];
            let mut seen = std::collections::HashSet::new();
            while let Some(m) = stack.pop() {
                if !seen.insert(m) {
                    continue;
                }
                for child in tcx.module_children(m).iter() {
                    let Some(did) = child.res.opt_def_id() else { continue };
                    if did.krate != cnum {
                        // a re-export of another crate's type: only on explicit request
                        if matches!(tcx.def_kind(did), DefKind::Struct | DefKind::Enum)
                            && wanted_adts.contains(&tcx.def_path_str(did))
                            && foreign_adt_seen.insert(did)
                        {
                            foreign_adts.push(cx.dump_adt(did));
                        }
                        continue;
                    }
                    let mut cands: Vec<DefId> = Vec::new();
                    match tcx.def_kind(did) {
                        DefKind::Mod => stack.push(did),
                        DefKind::Fn => {
                            if fn_crates.contains(&cname) {
                                cands.push(did)
                            }
                        }
                        DefKind::Trait if fn_crates.contains(&cname) => {
                            for &a in tcx.associated_item_def_ids(did).iter() {
                                if matches!(tcx.def_kind(a), DefKind::AssocFn) {
                                    cands.push(a);
                                }
                            }
                            for imp in tcx.all_impls(did) {
                                if imp.krate != cnum {
                                    continue;
                                }
                                for &a in tcx.associated_item_def_ids(imp).iter() {
                                    if matches!(tcx.def_kind(a), DefKind::AssocFn) {
                                        cands.push(a);
                                    }
                                }
                            }
                        }
                        DefKind::Struct | DefKind::Enum => {
                            let in_fn_crate = fn_crates.contains(&cname);
                            if (in_fn_crate || wanted_adts.contains(&tcx.def_path_str(did)))
                                && foreign_adt_seen.insert(did)
                            {
                                foreign_adts.push(cx.dump_adt(did));
                            }
                            if !in_fn_crate {
                                continue;
                            }
                            for &imp in tcx.inherent_impls(did).iter() {
                                for &a in tcx.associated_item_def_ids(imp).iter() {
                                    if matches!(tcx.def_kind(a), DefKind::AssocFn) {
                                        cands.push(a);
                                    }
                                }
                            }
                        }
                        _ => {}
                    }
                    for c in cands {
                        let p = tcx.def_path_str(c);
                        if index_all {
                            foreign_index.push(s(&p));
                        }
                        if wanted.iter().any(|w| *w == p) && !found.contains(&p) {
                            if tcx.is_mir_available(c) {
                                let body = tcx.optimized_mir(c);
                                foreign.push(cx.dump_fn(c, body, Vec::new(), false));
                                found.insert(p);
                            }
                        }
                    }
                }
            }
        }
        for w in wanted {
            if !found.contains(&w) {
                foreign_missing.push(s(w));
            }
        }
    }
    let feats: Vec<J> = std::env::var("SSFACTS_FEATURES")
        .unwrap_or_default()
        .split(',')
        .filter(|x| !x.is_empty())
        .map(s)
        .collect();
    obj(vec![
        ("nonce", s(std::env::var("SSFACTS_NONCE").unwrap_or_default())),
        ("config", s(std::env::var("SSFACTS_CONFIG").unwrap_or_default())),
        ("features", J::Arr(feats)),
        ("crate", s(tcx.crate_name(LOCAL_CRATE))),
        ("nbodies", J::Int(nbodies)),
        ("fns", J::Arr(fns)),
        ("adts", J::Arr(adts)),
        ("impls", J::Arr(impls)),
        ("statics", J::Arr(statics)),
        ("consts", J::Arr(consts)),
        ("foreign", J::Arr(foreign)),
        ("foreign_missing", J::Arr(foreign_missing)),
        ("foreign_index", J::Arr(foreign_index)),
        ("foreign_adts", J::Arr(foreign_adts)),
    ])
}

impl<'tcx> Cx<'tcx> {
    fn file_of(&self, sp: Span) -> String {
        let sm = self.tcx.sess.source_map();
        let sp = sp.source_callsite();
        let loc = sm.lookup_char_pos(sp.lo());
        match &loc.file.name {
            rustc_span::FileName::Real(r) => match r.local_path() {
                Some(p) => p.to_string_lossy().to_string(),
                None => format!("{:?}", r),
            },
            other => format!("{:?}", other),
        }
    }
    fn line_of(&self, sp: Span) -> usize {
        let sm = self.tcx.sess.source_map();
        sm.lookup_char_pos(sp.source_callsite().lo()).line
    }
    fn span_fields(&self, sp: Span, o: &mut Vec<(&'static str, J)>) {
        if sp.is_dummy() {
            return;
        }
        o.push(("ln", J::Int(self.line_of(sp) as i128)));
        if sp.from_expansion() {
            let ed = sp.ctxt().outer_expn_data();
            let name = match ed.kind {
                rustc_span::ExpnKind::Macro(_, sym) => sym.to_string(),
                rustc_span::ExpnKind::Desugaring(d) => format!("desugar:{:?}", d),
                rustc_span::ExpnKind::AstPass(p) => format!("astpass:{:?}", p),
                rustc_span::ExpnKind::Root => "root".to_string(),
            };
            o.push(("mac", s(name)));
        }
    }

    fn dump_adt(&self, def_id: DefId) -> J {
        let tcx = self.tcx;
        let adt = tcx.adt_def(def_id);
        let mut variants = Vec::new();
        for v in adt.variants().iter() {
            let mut fields = Vec::new();
            for f in v.fields.iter() {
                let fty = tcx.type_of(f.did).instantiate_identity().skip_normalization();
                fields.push(obj(vec![("name", s(f.name)), ("ty", s(fty))]));
            }
            variants.push(obj(vec![("name", s(v.name)), ("fields", J::Arr(fields))]));
        }
        obj(vec![
            ("path", s(tcx.def_path_str(def_id))),
            ("kind", s(if adt.is_enum() { "enum" } else if adt.is_union() { "union" } else { "struct" })),
            ("variants", J::Arr(variants)),
            ("file", s(self.file_of(tcx.def_span(def_id)))),
            ("line", J::Int(self.line_of(tcx.def_span(def_id)) as i128)),
        ])
    }

    fn dump_impl(&self, def_id: DefId) -> J {
        let tcx = self.tcx;
        let self_ty = tcx.type_of(def_id).instantiate_identity().skip_normalization();
        let self_adt = match self_ty.kind() {
            ty::Adt(a, _) => J::Str(tcx.def_path_str(a.did())),
            _ => J::Null,
        };
        let (tr, tr_full) = match tcx.impl_opt_trait_ref(def_id) {
            Some(t) => {
                let t = t.instantiate_identity().skip_normalization();
                (J::Str(tcx.def_path_str(t.def_id)), J::Str(t.to_string()))
            }
            None => (J::Null, J::Null),
        };
        let items: Vec<J> =
            tcx.associated_item_def_ids(def_id).iter().map(|d| s(tcx.def_path_str(*d))).collect();
        obj(vec![
            ("self_ty", s(self_ty)),
            ("self_adt", self_adt),
            ("trait", tr),
            ("trait_ref", tr_full),
            ("derived", J::Bool(tcx.is_automatically_derived(def_id))),
            ("items", J::Arr(items)),
            ("file", s(self.file_of(tcx.def_span(def_id)))),
            ("line", J::Int(self.line_of(tcx.def_span(def_id)) as i128)),
        ])
    }

    fn collect_consts(&self, body: &Body<'tcx>, owner: DefId, out: &mut Vec<J>) {
        let env = ty::TypingEnv::post_analysis(self.tcx, owner);
        let visit_op = |op: &Operand<'tcx>, out: &mut Vec<J>| {
            if let Operand::Constant(c) = op {
                out.push(self.const_json(&c.const_, env));
            }
        };
        for bb in body.basic_blocks.iter() {
            for st in &bb.statements {
                if let StatementKind::Assign(b) = &st.kind {
                    match &b.1 {
                        Rvalue::Use(op, ..) | Rvalue::UnaryOp(_, op) | Rvalue::Cast(_, op, _) => {
                            visit_op(op, out)
                        }
                        Rvalue::BinaryOp(_, ab) => {
                            visit_op(&ab.0, out);
                            visit_op(&ab.1, out);
                        }
                        Rvalue::Aggregate(_, ops) => {
                            for op in ops.iter() {
                                visit_op(op, out)
                            }
                        }
                        Rvalue::Repeat(op, _) => visit_op(op, out),
                        _ => {}
                    }
                }
            }
            if let Some(t) = &bb.terminator {
                if let TerminatorKind::Call { args, .. } = &t.kind {
                    for a in args.iter() {
                        visit_op(&a.node, out);
                    }
                }
            }
        }
    }

    fn const_value_json(&self, v: mir::ConstValue, ty: Ty<'tcx>) -> Option<J> {
        let tcx = self.tcx;
        match ty.kind() {
            ty::Bool | ty::Char | ty::Int(_) | ty::Uint(_) => {
                let si = v.try_to_scalar_int()?;
                Some(self.scalar_json(si, ty))
            }
            ty::Ref(_, inner, _) if inner.is_str() => {
                let b = v.try_get_slice_bytes_for_diagnostics(tcx)?;
                Some(J::Str(String::from_utf8_lossy(b).to_string()))
            }
            ty::Ref(_, inner, _) => match inner.kind() {
                ty::Slice(e) if matches!(e.kind(), ty::Uint(ty::UintTy::U8)) => {
                    let b = v.try_get_slice_bytes_for_diagnostics(tcx)?;
                    Some(J::Arr(b.iter().map(|x| J::Int(*x as i128)).collect()))
                }
                _ => None,
            },
            _ => None,
        }
    }

    fn scalar_json(&self, si: ty::ScalarInt, ty: Ty<'tcx>) -> J {
        let size = si.size();
        let bits = si.to_bits(size);
        match ty.kind() {
            ty::Bool => J::Bool(bits != 0),
            ty::Char => J::Str(char::from_u32(bits as u32).map(|c| c.to_string()).unwrap_or_default()),
            ty::Int(_) => {
                let nb = size.bits();
                let v = if nb == 128 {
                    bits as i128
                } else if nb == 0 {
                    0
                } else {
                    let shift = 128 - nb;
                    ((bits << shift) as i128) >> shift
                };
                J::Int(v)
            }
            _ => {
                if bits > i128::MAX as u128 {
                    J::Str(format!("{}", bits))
                } else {
                    J::Int(bits as i128)
                }
            }
        }
    }

    fn const_json(&self, c: &Const<'tcx>, env: ty::TypingEnv<'tcx>) -> J {
        let tcx = self.tcx;
        let ty = c.ty();
        let mut o: Vec<(&str, J)> = vec![("ty", s(ty))];
        match ty.kind() {
            ty::FnDef(did, args) => {
                o.push(("fn", s(tcx.def_path_str(*did))));
                o.push(("fnargs", J::Arr(args.iter().map(s).collect())));
            }
            ty::Closure(did, _) => {
                o.push(("closure", s(tcx.def_path_str(*did))));
            }
            _ => {
                let generic = match c {
                    Const::Ty(_, ct) => ct.has_non_region_param(),
                    Const::Unevaluated(u, _) => u.args.has_non_region_param(),
                    Const::Val(..) => false,
                } || ty.has_non_region_param();
                if let Const::Unevaluated(u, _) = c {
                    o.push(("named", s(tcx.def_path_str(u.def))));
                    if let Some(p) = u.promoted {
                        o.push(("promoted", J::Int(p.as_usize() as i128)));
                    }
                }
                if !generic {
                    match ty.kind() {
                        ty::Bool | ty::Char | ty::Int(_) | ty::Uint(_) => {
                            if let Some(si) = c.try_eval_scalar_int(tcx, env) {
                                o.push(("v", self.scalar_json(si, ty)));
                            }
                        }
                        ty::Float(_) => {
                            if let Some(si) = c.try_eval_scalar_int(tcx, env) {
                                let bits = si.to_bits(si.size());
                                let f = match si.size().bits() {
                                    32 => f32::from_bits(bits as u32) as f64,
                                    64 => f64::from_bits(bits as u64),
                                    _ => f64::NAN,
                                };
                                o.push(("v", s(format!("{:?}", f))));
                            }
                        }
                        ty::Ref(..) => {
                            if let Ok(v) = c.eval(tcx, env, DUMMY_SP) {
                                if let Some(j) = self.const_value_json(v, ty) {
                                    o.push(("v", j));
                                }
                            }
                        }
                        _ => {}
                    }
                }
            }
        }
        obj(o)
    }

    fn place_json(&self, body: &Body<'tcx>, p: &Place<'tcx>) -> J {
        let tcx = self.tcx;
        let mut proj = Vec::new();
        let mut pty = mir::PlaceTy::from_ty(body.local_decls[p.local].ty);
        for elem in p.projection.iter() {
            match elem {
                PlaceElem::Deref => proj.push(J::Str("*".into())),
                PlaceElem::Field(f, fty) => {
                    let mut o: Vec<(&str, J)> = vec![("i", J::Int(f.as_usize() as i128))];
                    match pty.ty.kind() {
                        ty::Adt(adt, _) => {
                            let vidx = pty.variant_index.unwrap_or(rustc_abi::FIRST_VARIANT);
                            if adt.is_enum() || adt.is_struct() || adt.is_union() {
                                if vidx.as_usize() < adt.variants().len() {
                                    let v = adt.variant(vidx);
                                    if f.as_usize() < v.fields.len() {
                                        o.push(("f", s(v.fields[f].name)));
                                    }
                                    if adt.is_enum() {
                                        o.push(("v", s(v.name)));
                                    }
                                }
                            }
                            o.push(("of", s(tcx.def_path_str(adt.did()))));
                        }
                        ty::Tuple(_) => o.push(("of", s("(tuple)"))),
                        ty::Closure(did, _) => {
                            o.push(("of", s(format!("closure:{}", tcx.def_path_str(*did)))));
                        }
                        _ => {}
                    }
                    o.push(("ty", s(fty)));
                    proj.push(obj(o));
                }
                PlaceElem::Index(l) => proj.push(obj(vec![("ix", J::Int(l.as_usize() as i128))])),
                PlaceElem::ConstantIndex { offset, from_end, .. } => proj.push(obj(vec![
                    ("ci", J::Int(offset as i128)),
                    ("from_end", J::Bool(from_end)),
                ])),
                PlaceElem::Subslice { from, to, from_end } => proj.push(obj(vec![
                    ("sub", J::Arr(vec![J::Int(from as i128), J::Int(to as i128)])),
                    ("from_end", J::Bool(from_end)),
                ])),
                PlaceElem::Downcast(name, vi) => proj.push(obj(vec![
                    ("dc", name.map(s).unwrap_or(J::Null)),
                    ("vi", J::Int(vi.as_usize() as i128)),
                ])),
                _ => proj.push(J::Str("?".into())),
            }
            pty = pty.projection_ty(tcx, elem);
        }
        obj(vec![("l", J::Int(p.local.as_usize() as i128)), ("pr", J::Arr(proj))])
    }

    fn operand_json(&self, body: &Body<'tcx>, op: &Operand<'tcx>, env: ty::TypingEnv<'tcx>) -> J {
        match op {
            Operand::Copy(p) => obj(vec![("cp", self.place_json(body, p))]),
            Operand::Move(p) => obj(vec![("mv", self.place_json(body, p))]),
            Operand::Constant(c) => obj(vec![("c", self.const_json(&c.const_, env))]),
            other => obj(vec![("other", s(format!("{:?}", other)))]),
        }
    }

    fn rvalue_json(&self, body: &Body<'tcx>, rv: &Rvalue<'tcx>, env: ty::TypingEnv<'tcx>) -> J {
        let tcx = self.tcx;
        match rv {
            Rvalue::Use(op, ..) => obj(vec![("k", s("use")), ("o", self.operand_json(body, op, env))]),
            Rvalue::Ref(_, bk, p) => obj(vec![
                ("k", s("ref")),
                ("mut", J::Bool(matches!(bk, BorrowKind::Mut { .. }))),
                ("p", self.place_json(body, p)),
            ]),
            Rvalue::RawPtr(_, p) => obj(vec![("k", s("rawptr")), ("p", self.place_json(body, p))]),
            Rvalue::CopyForDeref(p) => obj(vec![
                ("k", s("use")),
                ("o", obj(vec![("cp", self.place_json(body, p))])),
            ]),
            Rvalue::BinaryOp(op, ab) => obj(vec![
                ("k", s("bin")),
                ("op", s(format!("{:?}", op))),
                ("a", self.operand_json(body, &ab.0, env)),
                ("b", self.operand_json(body, &ab.1, env)),
            ]),
            Rvalue::UnaryOp(op, o) => obj(vec![
                ("k", s("un")),
                ("op", s(format!("{:?}", op))),
                ("o", self.operand_json(body, o, env)),
            ]),
            Rvalue::Cast(ck, o, ty) => obj(vec![
                ("k", s("cast")),
                ("ck", s(format!("{:?}", ck))),
                ("o", self.operand_json(body, o, env)),
                ("from", s(o.ty(&body.local_decls, tcx))),
                ("ty", s(ty)),
            ]),
            Rvalue::Discriminant(p) => obj(vec![("k", s("discr")), ("p", self.place_json(body, p))]),
            Rvalue::Aggregate(ak, ops) => {
                let mut o: Vec<(&str, J)> = vec![("k", s("aggr"))];
                match &**ak {
                    AggregateKind::Array(_) => o.push(("ak", s("array"))),
                    AggregateKind::Tuple => o.push(("ak", s("tuple"))),
                    AggregateKind::Adt(did, vidx, _, _, _) => {
                        o.push(("ak", s("adt")));
                        o.push(("adt", s(tcx.def_path_str(*did))));
                        let adt = tcx.adt_def(*did);
                        let v = adt.variant(*vidx);
                        o.push(("variant", s(v.name)));
                        o.push(("fields", J::Arr(v.fields.iter().map(|f| s(f.name)).collect())));
                    }
                    AggregateKind::Closure(did, _) => {
                        o.push(("ak", s("closure")));
                        o.push(("closure", s(tcx.def_path_str(*did))));
                    }
                    _ => o.push(("ak", s("other"))),
                }
                o.push(("ops", J::Arr(ops.iter().map(|x| self.operand_json(body, x, env)).collect())));
                obj(o)
            }
            Rvalue::Repeat(op, _) => obj(vec![("k", s("repeat")), ("o", self.operand_json(body, op, env))]),
            Rvalue::ThreadLocalRef(did) => obj(vec![("k", s("tlref")), ("def", s(tcx.def_path_str(*did)))]),
            other => obj(vec![("k", s("other")), ("dbg", s(format!("{:?}", other)))]),
        }
    }

    fn unwind_json(&self, u: &UnwindAction) -> J {
        match u {
            UnwindAction::Continue => s("continue"),
            UnwindAction::Unreachable => s("unreachable"),
            UnwindAction::Terminate(_) => s("terminate"),
            UnwindAction::Cleanup(bb) => J::Int(bb.as_usize() as i128),
        }
    }
    fn bb(&self, b: BasicBlock) -> J {
        J::Int(b.as_usize() as i128)
    }

    fn callee_json(
        &self,
        body: &Body<'tcx>,
        func: &Operand<'tcx>,
        env: ty::TypingEnv<'tcx>,
    ) -> J {
        let tcx = self.tcx;
        let fty = func.ty(&body.local_decls, tcx);
        match fty.kind() {
            ty::FnDef(did, args) => {
                let mut o: Vec<(&str, J)> = vec![
                    ("path", s(tcx.def_path_str(*did))),
                    ("name", s(tcx.item_name(*did))),
                    ("args", J::Arr(args.iter().map(s).collect())),
                    ("local", J::Bool(did.is_local())),
                ];
                if let Some(tr) = tcx.trait_of_assoc(*did) {
                    o.push(("trait", s(tcx.def_path_str(tr))));
                    if let Some(a0) = args.types().next() {
                        o.push(("self_ty", s(a0)));
                    }
                } else if let Some(imp) = tcx.impl_of_assoc(*did) {
                    let st = tcx.type_of(imp).instantiate_identity().skip_normalization();
                    o.push(("impl_self", s(st)));
                    if let ty::Adt(a, _) = st.kind() {
                        o.push(("impl_adt", s(tcx.def_path_str(a.did()))));
                    }
                }
                // resolve
                let resolved = if args.has_escaping_bound_vars() {
                    None
                } else {
                    match ty::Instance::try_resolve(tcx, env, *did, args) {
                        Ok(Some(inst)) => Some(inst),
                        _ => None,
                    }
                };
                match resolved {
                    Some(inst) => {
                        let rd = inst.def_id();
                        let kind = match inst.def {
                            ty::InstanceKind::Item(_) => "item",
                            ty::InstanceKind::Virtual(..) => "virtual",
                            ty::InstanceKind::ClosureOnceShim { .. } => "closure_once_shim",
                            ty::InstanceKind::FnPtrShim(..) => "fnptr_shim",
                            ty::InstanceKind::DropGlue(..) => "drop_glue",
                            ty::InstanceKind::CloneShim(..) => "clone_shim",
                            ty::InstanceKind::Intrinsic(_) => "intrinsic",
                            _ => "other",
                        };
                        o.push(("res", s(tcx.def_path_str(rd))));
                        o.push(("res_kind", s(kind)));
                        o.push(("res_local", J::Bool(rd.is_local())));
                        if rd != *did {
                            if let Some(imp) = tcx.impl_of_assoc(rd) {
                                let st = tcx.type_of(imp).instantiate_identity().skip_normalization();
                                o.push(("res_impl_self", s(st)));
                            }
                        }
                    }
                    None => o.push(("res", J::Null)),
                }
                obj(o)
            }
            _ => obj(vec![("ptr", self.operand_json(body, func, env)), ("ty", s(fty))]),
        }
    }

    fn dump_fn(&self, def_id: DefId, body: &Body<'tcx>, promoted_consts: Vec<J>, local: bool) -> J {
        let tcx = self.tcx;
        let env = ty::TypingEnv::post_analysis(tcx, def_id);
        let kind = tcx.def_kind(def_id);
        let mut o: Vec<(&'static str, J)> = vec![
            ("path", s(tcx.def_path_str(def_id))),
            ("kind", s(match kind {
                DefKind::Fn => "fn",
                DefKind::AssocFn => "assoc",
                DefKind::Closure => "closure",
                _ => "other",
            })),
            ("file", s(self.file_of(body.span))),
            ("lo", J::Int(self.line_of(body.span) as i128)),
            ("hi", J::Int({
                let sm = tcx.sess.source_map();
                sm.lookup_char_pos(body.span.source_callsite().hi()).line as i128
            })),
            ("nargs", J::Int(body.arg_count as i128)),
        ];
        if !matches!(kind, DefKind::Closure) {
            o.push(("name", s(tcx.item_name(def_id))));
        }
        let root = tcx.typeck_root_def_id(def_id);
        if root != def_id {
            o.push(("root", s(tcx.def_path_str(root))));
        }
        if matches!(kind, DefKind::Fn | DefKind::AssocFn) {
            let vis = tcx.visibility(def_id);
            o.push(("vis", s(if vis.is_public() { "pub".to_string() } else { format!("{:?}", vis) })));
            if local {
                if let Some(l) = def_id.as_local() {
                    let ev = tcx.effective_visibilities(());
                    o.push(("exported", J::Bool(ev.is_exported(l))));
                    o.push(("reachable", J::Bool(ev.is_reachable(l))));
                }
            }
            let sig = tcx.fn_sig(def_id).instantiate_identity().skip_normalization();
            o.push(("sig", s(sig)));
            let preds = tcx.predicates_of(def_id).instantiate_identity(tcx);
            o.push(("preds", J::Arr(preds.predicates.iter().map(|p| s(p.skip_normalization())).collect())));
            if let Some(imp) = tcx.impl_of_assoc(def_id) {
                let st = tcx.type_of(imp).instantiate_identity().skip_normalization();
                o.push(("impl_self", s(st)));
                if let ty::Adt(a, _) = st.kind() {
                    o.push(("impl_adt", s(tcx.def_path_str(a.did()))));
                }
                if let Some(tr) = tcx.impl_opt_trait_ref(imp) {
                    let tr = tr.instantiate_identity().skip_normalization();
                    o.push(("impl_trait", s(tcx.def_path_str(tr.def_id))));
                }
            } else if let Some(tr) = tcx.trait_of_assoc(def_id) {
                o.push(("in_trait", s(tcx.def_path_str(tr))));
            }
        }
        self.body_json(def_id, body, &mut o);
        if !promoted_consts.is_empty() {
            o.push(("promoted_consts", J::Arr(promoted_consts)));
        }
        if local && matches!(kind, DefKind::Fn | DefKind::AssocFn | DefKind::Closure) {
            let promoted = tcx.promoted_mir(def_id);
            let mut pb = Vec::new();
            for p in promoted.iter() {
                let mut po: Vec<(&str, J)> = vec![("nargs", J::Int(0))];
                self.body_json(def_id, p, &mut po);
                pb.push(obj(po));
            }
            if !pb.is_empty() {
                o.push(("promoted", J::Arr(pb)));
            }
        }
        obj(o)
    }

    fn body_json(&self, def_id: DefId, body: &Body<'tcx>, o: &mut Vec<(&'static str, J)>) {
        let tcx = self.tcx;
        let env = ty::TypingEnv::post_analysis(tcx, def_id);
        // locals
        let mut names: Vec<Option<String>> = vec![None; body.local_decls.len()];
        for vdi in &body.var_debug_info {
            if let mir::VarDebugInfoContents::Place(p) = &vdi.value {
                if p.projection.is_empty() {
                    names[p.local.as_usize()] = Some(vdi.name.to_string());
                }
            }
        }
        let mut locals = Vec::new();
        for (i, d) in body.local_decls.iter_enumerated() {
            let mut lo: Vec<(&str, J)> = vec![("ty", s(d.ty))];
            if let Some(n) = &names[i.as_usize()] {
                lo.push(("name", s(n)));
            }
            locals.push(obj(lo));
        }
        o.push(("locals", J::Arr(locals)));
        // upvar debug names for closures
        let mut upvars = Vec::new();
        for vdi in &body.var_debug_info {
            if let mir::VarDebugInfoContents::Place(p) = &vdi.value {
                if !p.projection.is_empty() {
                    upvars.push(obj(vec![("name", s(vdi.name)), ("p", self.place_json(body, p))]));
                }
            }
        }
        if !upvars.is_empty() {
            o.push(("dbg_places", J::Arr(upvars)));
        }
        // blocks
        let mut blocks = Vec::new();
        for (_bbi, bb) in body.basic_blocks.iter_enumerated() {
            let mut stmts = Vec::new();
            for st in &bb.statements {
                match &st.kind {
                    StatementKind::Assign(b) => {
                        let mut so: Vec<(&str, J)> = vec![
                            ("k", s("assign")),
                            ("p", self.place_json(body, &b.0)),
                            ("rv", self.rvalue_json(body, &b.1, env)),
                        ];
                        self.span_fields(st.source_info.span, &mut so);
                        stmts.push(obj(so));
                    }
                    StatementKind::SetDiscriminant { place, variant_index } => {
                        let mut so: Vec<(&str, J)> = vec![
                            ("k", s("setdiscr")),
                            ("p", self.place_json(body, place)),
                            ("vi", J::Int(variant_index.as_usize() as i128)),
                        ];
                        self.span_fields(st.source_info.span, &mut so);
                        stmts.push(obj(so));
                    }
                    _ => {}
                }
            }
            let term = bb.terminator();
            let mut to: Vec<(&str, J)> = Vec::new();
            match &term.kind {
                TerminatorKind::Goto { target } => {
                    to.push(("k", s("goto")));
                    to.push(("t", self.bb(*target)));
                }
                TerminatorKind::SwitchInt { discr, targets } => {
                    to.push(("k", s("switch")));
                    to.push(("o", self.operand_json(body, discr, env)));
                    to.push(("ty", s(discr.ty(&body.local_decls, tcx))));
                    let mut vals = Vec::new();
                    let mut tg = Vec::new();
                    for (v, t) in targets.iter() {
                        vals.push(if v > i128::MAX as u128 { J::Str(v.to_string()) } else { J::Int(v as i128) });
                        tg.push(self.bb(t));
                    }
                    tg.push(self.bb(targets.otherwise()));
                    to.push(("vals", J::Arr(vals)));
                    to.push(("tgts", J::Arr(tg)));
                }
                TerminatorKind::UnwindResume => to.push(("k", s("resume"))),
                TerminatorKind::UnwindTerminate(_) => to.push(("k", s("terminate"))),
                TerminatorKind::Return => to.push(("k", s("return"))),
                TerminatorKind::Unreachable => to.push(("k", s("unreachable"))),
                TerminatorKind::Drop { place, target, unwind, .. } => {
                    to.push(("k", s("drop")));
                    to.push(("p", self.place_json(body, place)));
                    to.push(("pty", s(place.ty(&body.local_decls, tcx).ty)));
                    to.push(("t", self.bb(*target)));
                    to.push(("uw", self.unwind_json(unwind)));
                }
                TerminatorKind::Call { func, args, destination, target, unwind, fn_span, .. } => {
                    to.push(("k", s("call")));
                    to.push(("f", self.callee_json(body, func, env)));
                    to.push((
                        "args",
                        J::Arr(args.iter().map(|a| self.operand_json(body, &a.node, env)).collect()),
                    ));
                    to.push(("dest", self.place_json(body, destination)));
                    to.push(("t", target.map(|t| self.bb(t)).unwrap_or(J::Null)));
                    to.push(("uw", self.unwind_json(unwind)));
                    to.push(("fln", J::Int(self.line_of(*fn_span) as i128)));
                }
                TerminatorKind::TailCall { func, args, .. } => {
                    to.push(("k", s("tailcall")));
                    to.push(("f", self.callee_json(body, func, env)));
                    to.push((
                        "args",
                        J::Arr(args.iter().map(|a| self.operand_json(body, &a.node, env)).collect()),
                    ));
                }
                TerminatorKind::Assert { cond, expected, msg, target, unwind } => {
                    to.push(("k", s("assert")));
                    to.push(("cond", self.operand_json(body, cond, env)));
                    to.push(("exp", J::Bool(*expected)));
                    let ak = match &**msg {
                        mir::AssertKind::BoundsCheck { len, index } => {
                            to.push(("len", self.operand_json(body, len, env)));
                            to.push(("index", self.operand_json(body, index, env)));
                            "bounds".to_string()
                        }
                        mir::AssertKind::Overflow(op, a, b) => {
                            to.push(("a", self.operand_json(body, a, env)));
                            to.push(("b", self.operand_json(body, b, env)));
                            format!("overflow:{:?}", op)
                        }
                        mir::AssertKind::OverflowNeg(_) => "overflow:Neg".to_string(),
                        mir::AssertKind::DivisionByZero(_) => "div0".to_string(),
                        mir::AssertKind::RemainderByZero(_) => "rem0".to_string(),
                        mir::AssertKind::MisalignedPointerDereference { .. } => "misaligned".to_string(),
                        mir::AssertKind::NullPointerDereference => "nullptr".to_string(),
                        mir::AssertKind::InvalidEnumConstruction(_) => "invalid_enum".to_string(),
                        _ => "other".to_string(),
                    };
                    to.push(("ak", s(ak)));
                    to.push(("t", self.bb(*target)));
                    to.push(("uw", self.unwind_json(unwind)));
                }
                TerminatorKind::FalseEdge { real_target, .. } => {
                    to.push(("k", s("goto")));
                    to.push(("t", self.bb(*real_target)));
                }
                TerminatorKind::FalseUnwind { real_target, .. } => {
                    to.push(("k", s("goto")));
                    to.push(("t", self.bb(*real_target)));
                }
                other => {
                    to.push(("k", s("other")));
                    to.push(("dbg", s(format!("{:?}", other))));
                }
            }
            self.span_fields(term.source_info.span, &mut to);
            blocks.push(obj(vec![
                ("cleanup", J::Bool(bb.is_cleanup)),
                ("stmts", J::Arr(stmts)),
                ("term", obj(to)),
            ]));
        }
        o.push(("blocks", J::Arr(blocks)));
    }
}
