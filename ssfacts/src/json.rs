// Minimal JSON value + writer (the driver has zero Cargo dependencies by design).
pub enum J {
    Null,
    Bool(bool),
    Int(i128),
    Str(String),
    Arr(Vec<J>),
    Obj(Vec<(String, J)>),
}

fn esc(s: &str, out: &mut String) {
    out.push('"');
    for c in s.chars() {
        match c {
            '"' => out.push_str("\\\""),
            '\\' => out.push_str("\\\\"),
            '\n' => out.push_str("\\n"),
            '\r' => out.push_str("\\r"),
            '\t' => out.push_str("\\t"),
            c if (c as u32) < 0x20 || c == '\u{7f}' || ((c as u32) >= 0x80 && (c as u32) < 0xa0) || c == '\u{2028}' || c == '\u{2029}' || c == '\u{feff}' => {
                let mut buf = [0u16; 2];
                for u in c.encode_utf16(&mut buf) {
                    out.push_str(&format!("\\u{:04x}", u));
                }
            }
            c => out.push(c),
        }
    }
    out.push('"');
}

impl J {
    pub fn write(&self, out: &mut String) {
        match self {
            J::Null => out.push_str("null"),
            J::Bool(b) => out.push_str(if *b { "true" } else { "false" }),
            J::Int(i) => out.push_str(&i.to_string()),
            J::Str(s) => esc(s, out),
            J::Arr(v) => {
                out.push('[');
                for (i, x) in v.iter().enumerate() {
                    if i > 0 {
                        out.push(',');
                    }
                    x.write(out);
                }
                out.push(']');
            }
            J::Obj(v) => {
                out.push('{');
                for (i, (k, x)) in v.iter().enumerate() {
                    if i > 0 {
                        out.push(',');
                    }
                    esc(k, out);
                    out.push(':');
                    x.write(out);
                }
                out.push('}');
            }
        }
    }
}
