//! Differential test for the C14 control refactoring (anchors / aliases / shared pointers).
//!
//! Usage: copy to `tests/demo.rs` and run `cargo nextest run --offline --test demo`
//! (or `cargo test --offline --test demo`). With `DEMO_PRINT=1` in the environment the test prints
//! the observed results as Rust literals instead of comparing them (that is how `EXPECTED` was
//! generated on the unmodified tree).

use std::collections::BTreeMap;
use std::rc::Rc;
use std::sync::Arc;

use serde::ser::SerializeTupleStruct;
use serde::{Deserialize, Serialize};
use serde_saphyr::{
    ArcAnchor, ArcRecursion, ArcRecursive, ArcWeakAnchor, Commented, FlowSeq, RcAnchor,
    RcRecursion, RcRecursive, RcWeakAnchor,
};

type Out = Vec<(&'static str, String)>;

fn ser<T: Serialize>(v: &T) -> String {
    match serde_saphyr::to_string(v) {
        Ok(s) => format!("OK\n{s}"),
        Err(e) => format!("ERR {e}"),
    }
}

fn ser_opts<T: Serialize>(v: &T, o: serde_saphyr::SerializerOptions) -> String {
    match serde_saphyr::to_string_with_options(v, o) {
        Ok(s) => format!("OK\n{s}"),
        Err(e) => format!("ERR {e}"),
    }
}

fn de_err<T>(r: Result<T, serde_saphyr::Error>) -> String {
    match r {
        Ok(_) => "UNEXPECTED OK".to_string(),
        Err(e) => format!("ERR {e} @ {:?}", e.location().map(|l| (l.line(), l.column()))),
    }
}

// ---------------------------------------------------------------- types

#[derive(Serialize, Deserialize, Debug, PartialEq, Clone)]
struct Leaf {
    name: String,
    n: i32,
}

fn leaf(name: &str, n: i32) -> Leaf {
    Leaf {
        name: name.into(),
        n,
    }
}

#[derive(Serialize, Deserialize)]
struct RcPair {
    a: RcAnchor<Leaf>,
    b: RcAnchor<Leaf>,
    c: RcAnchor<Leaf>,
}

#[derive(Serialize, Deserialize)]
struct ArcPair {
    a: ArcAnchor<Leaf>,
    b: ArcAnchor<Leaf>,
    c: ArcAnchor<Leaf>,
}

#[derive(Serialize, Deserialize)]
struct RcOwnerAndWeak {
    owner: RcAnchor<Leaf>,
    weak: RcWeakAnchor<Leaf>,
    other: RcWeakAnchor<Leaf>,
}

#[derive(Serialize, Deserialize)]
struct ArcOwnerAndWeak {
    owner: ArcAnchor<Leaf>,
    weak: ArcWeakAnchor<Leaf>,
    other: ArcWeakAnchor<Leaf>,
}

#[derive(Serialize, Deserialize)]
struct WeakFirst {
    weak: RcWeakAnchor<Leaf>,
    owner: RcAnchor<Leaf>,
}

#[derive(Serialize, Deserialize)]
struct King {
    name: String,
    coronator: RcRecursion<King>,
}

#[derive(Serialize, Deserialize)]
struct Kingdom {
    kings: Vec<RcRecursive<King>>,
}

#[derive(Serialize, Deserialize)]
struct KingArc {
    name: String,
    coronator: ArcRecursion<KingArc>,
}

#[derive(Serialize, Deserialize)]
struct KingdomArc {
    kings: Vec<ArcRecursive<KingArc>>,
}

#[derive(Serialize, Deserialize)]
struct StrongLoop {
    name: String,
    next: Option<RcAnchor<StrongLoop>>,
}

#[derive(Serialize, Deserialize)]
struct StrongLoopArc {
    name: String,
    next: Option<ArcAnchor<StrongLoopArc>>,
}

#[derive(Serialize, Deserialize)]
struct RecStrongLoop {
    name: String,
    next: Option<RcRecursive<RecStrongLoop>>,
}

#[derive(Serialize, Deserialize)]
struct RecStrongLoopArc {
    name: String,
    next: Option<ArcRecursive<RecStrongLoopArc>>,
}

#[derive(Deserialize)]
#[allow(dead_code)]
struct RecMustLoop {
    name: String,
    next: RcRecursive<RecMustLoop>,
}

#[derive(Deserialize)]
#[allow(dead_code)]
struct RecMustLoopArc {
    name: String,
    next: ArcRecursive<RecMustLoopArc>,
}

#[derive(Serialize, Deserialize)]
struct WeakLoop {
    name: String,
    back: RcWeakAnchor<WeakLoop>,
}

#[derive(Serialize, Deserialize)]
struct WeakLoopArc {
    name: String,
    back: ArcWeakAnchor<WeakLoopArc>,
}

#[derive(Deserialize)]
#[allow(dead_code)]
struct MixedTypes {
    a: RcAnchor<u32>,
    b: RcAnchor<String>,
}

#[derive(Deserialize)]
#[allow(dead_code)]
struct MixedTypesArc {
    a: ArcAnchor<u32>,
    b: ArcAnchor<String>,
}

#[derive(Deserialize)]
#[allow(dead_code)]
struct MixedRec {
    a: RcRecursive<u32>,
    b: RcRecursive<String>,
}

#[derive(Deserialize)]
#[allow(dead_code)]
struct MixedRecArc {
    a: ArcRecursive<u32>,
    b: ArcRecursion<String>,
}

#[derive(Deserialize, Debug, PartialEq)]
struct Plain {
    a: Vec<String>,
    b: Vec<String>,
    c: Leaf,
    d: Leaf,
}

#[derive(Serialize, Deserialize)]
struct Inner {
    v: RcAnchor<i32>,
    w: RcAnchor<i32>,
}

#[derive(Serialize, Deserialize)]
struct OuterNest {
    first: RcAnchor<Inner>,
    second: RcAnchor<Inner>,
}

#[derive(Serialize, Deserialize)]
enum Shape {
    Shared(RcAnchor<Leaf>),
    Pair { l: RcAnchor<Leaf>, r: RcAnchor<Leaf> },
    Nothing,
}

// Hand-written payloads that drive the internal tuple-struct protocol directly.
#[derive(Serialize)]
#[serde(rename = "__yaml_anchor")]
struct StrongPayload3(usize, &'static str, &'static str);

#[derive(Serialize)]
#[serde(rename = "__yaml_anchor")]
struct StrongPayloadBadPtr(&'static str, &'static str);

#[derive(Serialize)]
#[serde(rename = "__yaml_anchor")]
struct StrongPayload(usize, Vec<u8>);

#[derive(Serialize)]
#[serde(rename = "__yaml_weak_anchor")]
struct WeakPayload4(usize, bool, &'static str, &'static str);

#[derive(Serialize)]
#[serde(rename = "__yaml_weak_anchor")]
struct WeakPayloadBadFlag(usize, u8, &'static str);

#[derive(Serialize)]
#[serde(rename = "__yaml_weak_anchor")]
struct WeakPayload(usize, bool, BTreeMap<&'static str, i32>);

/// A caller that ignores errors from `serialize_field` and carries on (unusual call sequence).
struct StubbornWeak {
    second_present: bool,
}
impl Serialize for StubbornWeak {
    fn serialize<S: serde::Serializer>(&self, s: S) -> Result<S::Ok, S::Error> {
        let mut ts = s.serialize_tuple_struct("__yaml_weak_anchor", 3)?;
        let _ = ts.serialize_field("not a pointer"); // rejected, index stays 0
        ts.serialize_field(&4242usize)?;
        let _ = ts.serialize_field(&7u8); // rejected, index stays 1
        ts.serialize_field(&self.second_present)?;
        ts.serialize_field("payload")?;
        ts.end()
    }
}

struct StubbornStrong;
impl Serialize for StubbornStrong {
    fn serialize<S: serde::Serializer>(&self, s: S) -> Result<S::Ok, S::Error> {
        let mut ts = s.serialize_tuple_struct("__yaml_anchor", 2)?;
        let _ = ts.serialize_field(&true); // rejected, index stays 0
        ts.serialize_field(&4242usize)?;
        ts.serialize_field("payload")?;
        let _ = ts.serialize_field("extra"); // rejected
        ts.end()
    }
}

fn custom_names(id: usize) -> String {
    format!("node-{id}")
}

// ---------------------------------------------------------------- serialization cases

fn ser_cases(out: &mut Out) {
    // 1. strong Rc shared in a sequence, plus an equal but distinct allocation
    let shared = Rc::new(leaf("x", 1));
    let v = vec![
        RcAnchor(shared.clone()),
        RcAnchor(Rc::new(leaf("x", 1))),
        RcAnchor(shared.clone()),
        RcAnchor(shared.clone()),
    ];
    out.push(("ser01_rc_seq", ser(&v)));

    // 2. strong Arc shared in a map, interleaved definitions
    let s1 = Arc::new(leaf("one", 1));
    let s2 = Arc::new(leaf("two", 2));
    let mut m = BTreeMap::new();
    m.insert("k1", ArcAnchor(s1.clone()));
    m.insert("k2", ArcAnchor(s2.clone()));
    m.insert("k3", ArcAnchor(s1.clone()));
    m.insert("k4", ArcAnchor(s2.clone()));
    out.push(("ser02_arc_map_interleaved", ser(&m)));

    // 3. shared scalars / empty containers
    let sc = Rc::new("plain text".to_string());
    let em: Rc<Vec<i32>> = Rc::new(vec![]);
    #[derive(Serialize)]
    struct Scalars {
        s1: RcAnchor<String>,
        s2: RcAnchor<String>,
        e1: RcAnchor<Vec<i32>>,
        e2: RcAnchor<Vec<i32>>,
        n1: RcAnchor<Option<i32>>,
        n2: RcAnchor<Option<i32>>,
    }
    let nn = Rc::new(None);
    out.push((
        "ser03_scalars_and_empty",
        ser(&Scalars {
            s1: RcAnchor(sc.clone()),
            s2: RcAnchor(sc),
            e1: RcAnchor(em.clone()),
            e2: RcAnchor(em),
            n1: RcAnchor(nn.clone()),
            n2: RcAnchor(nn),
        }),
    ));

    // 4. weak after strong, and a dangling weak
    let owner = Rc::new(leaf("owner", 7));
    let gone = Rc::downgrade(&Rc::new(leaf("gone", 0)));
    out.push((
        "ser04_rc_owner_weak_dangling",
        ser(&RcOwnerAndWeak {
            owner: RcAnchor(owner.clone()),
            weak: RcWeakAnchor(Rc::downgrade(&owner)),
            other: RcWeakAnchor(gone),
        }),
    ));
    let owner_a = Arc::new(leaf("owner", 7));
    out.push((
        "ser05_arc_owner_weak_dangling",
        ser(&ArcOwnerAndWeak {
            owner: ArcAnchor(owner_a.clone()),
            weak: ArcWeakAnchor(Arc::downgrade(&owner_a)),
            other: ArcWeakAnchor(std::sync::Weak::new()),
        }),
    ));

    // 6. weak first: the weak defines the anchor, the strong becomes the alias
    out.push((
        "ser06_weak_first",
        ser(&WeakFirst {
            weak: RcWeakAnchor(Rc::downgrade(&owner)),
            owner: RcAnchor(owner.clone()),
        }),
    ));

    // 7. weak references in flow sequences, with dangling ones
    let fl = FlowSeq(vec![
        RcWeakAnchor(Rc::downgrade(&owner)),
        RcWeakAnchor(std::rc::Weak::new()),
        RcWeakAnchor(Rc::downgrade(&owner)),
    ]);
    out.push(("ser07_flow_weak", ser(&fl)));
    let sh = Rc::new(5i32);
    let fl2 = FlowSeq(vec![RcAnchor(sh.clone()), RcAnchor(sh.clone()), RcAnchor(Rc::new(5))]);
    out.push(("ser08_flow_strong_scalars", ser(&fl2)));

    // 9. custom anchor names
    let o = serde_saphyr::ser_options! { anchor_generator: Some(custom_names) };
    out.push(("ser09_custom_names", ser_opts(&m, o)));

    // 10. layout options around anchors
    let nested = vec![vec![RcAnchor(shared.clone())], vec![RcAnchor(shared.clone())]];
    let o = serde_saphyr::ser_options! { indent_step: 4, compact_list_indent: true, yaml_12: true };
    out.push(("ser10_layout_options", ser_opts(&nested, o)));
    let o = serde_saphyr::ser_options! { quote_all: true, anchor_generator: Some(custom_names) };
    out.push(("ser11_quote_all", ser_opts(&v, o)));

    // 12. recursive wrappers
    let k1 = RcRecursive::wrapping(King {
        name: "Aurelian".into(),
        coronator: RcRecursion(std::rc::Weak::new()),
    });
    let k2 = RcRecursive::wrapping(King {
        name: "Bertram".into(),
        coronator: RcRecursion::from(&k1),
    });
    k1.0.borrow_mut().as_mut().unwrap().coronator = RcRecursion::from(&k1);
    out.push((
        "ser12_rc_recursive",
        ser(&Kingdom {
            kings: vec![RcRecursive(k1.0.clone()), RcRecursive(k2.0.clone()), RcRecursive(k1.0.clone())],
        }),
    ));
    let ka = ArcRecursive::wrapping(KingArc {
        name: "Aurelian".into(),
        coronator: ArcRecursion(std::sync::Weak::new()),
    });
    ka.lock().unwrap().as_mut().unwrap().coronator = ArcRecursion::from(&ka);
    let kb = ArcRecursive::wrapping(KingArc {
        name: "Cedric".into(),
        coronator: ArcRecursion(std::sync::Weak::new()),
    });
    out.push((
        "ser13_arc_recursive",
        ser(&KingdomArc {
            kings: vec![ArcRecursive(ka.0.clone()), kb, ArcRecursive(ka.0.clone())],
        }),
    ));
    let uninit: RcRecursive<King> = RcRecursive(Rc::new(std::cell::RefCell::new(None)));
    out.push(("ser14_rc_recursive_uninit", ser(&uninit)));
    let uninit_weak = RcRecursion::from(&uninit);
    out.push(("ser15_rc_recursion_to_uninit", ser(&uninit_weak)));

    // 16. comments on aliases and definitions
    let cm = vec![
        Commented(RcAnchor(sc_rc()), "first".to_string()),
        Commented(RcAnchor(sc_rc()), "second".to_string()),
    ];
    out.push(("ser16_commented_distinct", ser(&cm)));
    let one = sc_rc();
    let cm = vec![
        Commented(RcAnchor(one.clone()), "definition".to_string()),
        Commented(RcAnchor(one.clone()), "alias\nsecond line".to_string()),
    ];
    out.push(("ser17_commented_alias", ser(&cm)));

    // 18. the internal protocol driven by hand
    out.push(("ser18_strong_three_fields", ser(&StrongPayload3(1, "a", "b"))));
    out.push(("ser19_strong_bad_ptr", ser(&StrongPayloadBadPtr("p", "v"))));
    out.push((
        "ser20_strong_same_ptr",
        ser(&vec![
            StrongPayload(9, vec![1, 2]),
            StrongPayload(10, vec![]),
            StrongPayload(9, vec![3]),
            StrongPayload(0, vec![4]),
            StrongPayload(0, vec![5]),
        ]),
    ));
    out.push(("ser21_weak_four_fields", ser(&WeakPayload4(1, true, "a", "b"))));
    out.push(("ser22_weak_four_fields_absent", ser(&WeakPayload4(1, false, "a", "b"))));
    out.push(("ser23_weak_bad_flag", ser(&WeakPayloadBadFlag(1, 1, "a"))));
    let mut bm = BTreeMap::new();
    bm.insert("q", 1);
    out.push((
        "ser24_weak_and_strong_share_ids",
        ser(&(
            WeakPayload(9, true, bm.clone()),
            StrongPayload(9, vec![1]),
            WeakPayload(9, false, bm.clone()),
            WeakPayload(11, true, BTreeMap::new()),
            WeakPayload(11, true, bm.clone()),
        )),
    ));
    out.push((
        "ser25_stubborn_callers",
        ser(&(
            StubbornWeak {
                second_present: true,
            },
            StubbornStrong,
            StubbornWeak {
                second_present: false,
            },
            StubbornWeak {
                second_present: true,
            },
        )),
    ));

    // 26. anchors do not leak between documents of one stream
    let docs = vec![vec![RcAnchor(shared.clone()), RcAnchor(shared.clone())]; 2];
    out.push((
        "ser26_multiple_documents",
        match serde_saphyr::to_string_multiple(&docs) {
            Ok(s) => format!("OK\n{s}"),
            Err(e) => format!("ERR {e}"),
        },
    ));

    // 27. nested wrappers and enums
    let i = Rc::new(3);
    let inner = Rc::new(Inner {
        v: RcAnchor(i.clone()),
        w: RcAnchor(i),
    });
    out.push((
        "ser27_nested_wrappers",
        ser(&OuterNest {
            first: RcAnchor(inner.clone()),
            second: RcAnchor(inner),
        }),
    ));
    let l = Rc::new(leaf("e", 2));
    out.push((
        "ser28_enums",
        ser(&vec![
            Shape::Shared(RcAnchor(l.clone())),
            Shape::Pair {
                l: RcAnchor(l.clone()),
                r: RcAnchor(Rc::new(leaf("f", 3))),
            },
            Shape::Nothing,
        ]),
    ));
}

fn sc_rc() -> Rc<String> {
    Rc::new("text".to_string())
}

// ---------------------------------------------------------------- deserialization cases

fn de_cases(out: &mut Out) {
    // 1. sharing restored in a sequence
    let y = "- &a {name: x, n: 1}\n- {name: x, n: 1}\n- *a\n- *a\n";
    let r: Vec<RcAnchor<Leaf>> = serde_saphyr::from_str(y).unwrap();
    out.push((
        "de01_rc_seq",
        format!(
            "{:?} 0=2:{} 2=3:{} 0=1:{} strong={}",
            r.iter().map(|x| (*x.0).clone()).collect::<Vec<_>>(),
            Rc::ptr_eq(&r[0].0, &r[2].0),
            Rc::ptr_eq(&r[2].0, &r[3].0),
            Rc::ptr_eq(&r[0].0, &r[1].0),
            Rc::strong_count(&r[0].0)
        ),
    ));

    // 2. struct fields, Rc and Arc
    let y = "a: &one\n  name: s\n  n: 2\nb: *one\nc:\n  name: s\n  n: 2\n";
    let r: RcPair = serde_saphyr::from_str(y).unwrap();
    out.push((
        "de02_rc_fields",
        format!(
            "{:?} a=b:{} a=c:{} count={}",
            *r.a.0,
            r.a == r.b,
            r.a == r.c,
            Rc::strong_count(&r.a.0)
        ),
    ));
    let r: ArcPair = serde_saphyr::from_str(y).unwrap();
    out.push((
        "de03_arc_fields",
        format!(
            "{:?} a=b:{} a=c:{} count={}",
            *r.c.0,
            r.a == r.b,
            r.a == r.c,
            Arc::strong_count(&r.a.0)
        ),
    ));

    // 4. weak resolves to the strong target; null is dangling
    let y = "owner: &o {name: own, n: 1}\nweak: *o\nother: null\n";
    let r: RcOwnerAndWeak = serde_saphyr::from_str(y).unwrap();
    out.push((
        "de04_rc_weak",
        format!(
            "same:{} other_dangling:{} strong={} weak={}",
            Rc::ptr_eq(&r.weak.upgrade().unwrap(), &r.owner.0),
            r.other.is_dangling(),
            Rc::strong_count(&r.owner.0),
            Rc::weak_count(&r.owner.0)
        ),
    ));
    let y = "owner: &o {name: own, n: 1}\nweak: *o\nother: ~\n";
    let r: ArcOwnerAndWeak = serde_saphyr::from_str(y).unwrap();
    out.push((
        "de05_arc_weak",
        format!(
            "same:{} other_dangling:{} strong={} weak={}",
            Arc::ptr_eq(&r.weak.upgrade().unwrap(), &r.owner.0),
            r.other.is_dangling(),
            Arc::strong_count(&r.owner.0),
            Arc::weak_count(&r.owner.0)
        ),
    ));
    let y = "owner: &o {name: own, n: 1}\nweak:\nother: *o\n";
    let r: RcOwnerAndWeak = serde_saphyr::from_str(y).unwrap();
    out.push((
        "de06_rc_weak_empty_value",
        format!(
            "weak_dangling:{} other_same:{}",
            r.weak.is_dangling(),
            Rc::ptr_eq(&r.other.upgrade().unwrap(), &r.owner.0)
        ),
    ));

    // 7. error paths of the weak wrappers
    let y = "owner: &o {name: own, n: 1}\nweak: {name: own, n: 1}\nother: null\n";
    out.push(("de07_rc_weak_inline_value", de_err(serde_saphyr::from_str::<RcOwnerAndWeak>(y))));
    out.push(("de08_arc_weak_inline_value", de_err(serde_saphyr::from_str::<ArcOwnerAndWeak>(y))));
    let y = "owner: {name: own, n: 1}\nweak: &w {name: own, n: 1}\nother: null\n";
    out.push(("de09_rc_weak_own_anchor", de_err(serde_saphyr::from_str::<RcOwnerAndWeak>(y))));
    out.push(("de10_arc_weak_own_anchor", de_err(serde_saphyr::from_str::<ArcOwnerAndWeak>(y))));
    let y = "weak: *o\nowner: &o {name: own, n: 1}\n";
    out.push(("de11_weak_before_definition", de_err(serde_saphyr::from_str::<WeakFirst>(y))));
    let y = "weak: &o {name: own, n: 1}\nowner: *o\n";
    out.push(("de12_weak_defines", de_err(serde_saphyr::from_str::<WeakFirst>(y))));
    let y = "owner: &o {name: own, n: 1}\nweak: 17\nother: null\n";
    out.push(("de13_rc_weak_scalar", de_err(serde_saphyr::from_str::<RcOwnerAndWeak>(y))));

    // 14. strong self reference is rejected, weak self reference too (needs recursion types)
    let y = "name: a\nnext: &n\n  name: b\n  next: *n\n";
    out.push(("de14_rc_strong_loop", de_err(serde_saphyr::from_str::<StrongLoop>(y))));
    out.push(("de15_arc_strong_loop", de_err(serde_saphyr::from_str::<StrongLoopArc>(y))));
    let y = "&n\nname: b\nback: *n\n";
    out.push(("de16_rc_weak_loop", de_err(serde_saphyr::from_str::<RcAnchor<WeakLoop>>(y))));
    out.push(("de17_arc_weak_loop", de_err(serde_saphyr::from_str::<ArcAnchor<WeakLoopArc>>(y))));
    let y = "&n\nname: b\nnext: *n\n";
    out.push((
        "de18_rc_recursive_optional_strong_loop",
        match serde_saphyr::from_str::<RcRecursive<RecStrongLoop>>(y) {
            Ok(r) => format!("OK name={} next_none:{}", r.borrow().name, r.borrow().next.is_none()),
            Err(e) => format!("ERR {e}"),
        },
    ));
    out.push((
        "de19_arc_recursive_optional_strong_loop",
        match serde_saphyr::from_str::<ArcRecursive<RecStrongLoopArc>>(y) {
            Ok(r) => {
                let g = r.lock().unwrap();
                let v = g.as_ref().unwrap();
                format!("OK name={} next_none:{}", v.name, v.next.is_none())
            }
            Err(e) => format!("ERR {e}"),
        },
    ));
    out.push((
        "de18b_rc_recursive_strong_loop",
        de_err(serde_saphyr::from_str::<RcRecursive<RecMustLoop>>(y)),
    ));
    out.push((
        "de19b_arc_recursive_strong_loop",
        de_err(serde_saphyr::from_str::<ArcRecursive<RecMustLoopArc>>(y)),
    ));

    // 20. recursive wrappers: self reference, reference to an earlier node, null, repeated alias
    let y = "kings:\n  - &a\n    name: Aurelian\n    coronator: *a\n  - &b\n    name: Bertram\n    coronator: *a\n  - name: Cedric\n    coronator: null\n  - *a\n";
    let r: Kingdom = serde_saphyr::from_str(y).unwrap();
    let k = &r.kings;
    out.push((
        "de20_rc_recursive",
        format!(
            "names={:?} self:{} b->a:{} c_dangling:{} 3=0:{} strong0={} weak0={}",
            k.iter().map(|x| x.borrow().name.clone()).collect::<Vec<_>>(),
            k[0].borrow().coronator.upgrade().unwrap() == k[0],
            k[1].borrow().coronator.upgrade().unwrap() == k[0],
            k[2].borrow().coronator.is_dangling(),
            k[3] == k[0],
            Rc::strong_count(&k[0].0),
            Rc::weak_count(&k[0].0),
        ),
    ));
    let r: KingdomArc = serde_saphyr::from_str(y).unwrap();
    let k = &r.kings;
    let name = |x: &ArcRecursive<KingArc>| x.lock().unwrap().as_ref().unwrap().name.clone();
    let cor = |x: &ArcRecursive<KingArc>| {
        ArcRecursion(x.lock().unwrap().as_ref().unwrap().coronator.0.clone())
    };
    out.push((
        "de21_arc_recursive",
        format!(
            "names={:?} self:{} b->a:{} c_dangling:{} 3=0:{} strong0={} weak0={} with={:?}",
            k.iter().map(name).collect::<Vec<_>>(),
            cor(&k[0]).upgrade().unwrap() == k[0],
            cor(&k[1]).upgrade().unwrap() == k[0],
            cor(&k[2]).is_dangling(),
            k[3] == k[0],
            Arc::strong_count(&k[0].0),
            Arc::weak_count(&k[0].0),
            cor(&k[1]).with(|t| t.name.clone()),
        ),
    ));
    let y = "kings:\n  - name: Aurelian\n    coronator: {name: x, coronator: null}\n";
    out.push(("de22_rc_recursion_inline", de_err(serde_saphyr::from_str::<Kingdom>(y))));
    out.push(("de23_arc_recursion_inline", de_err(serde_saphyr::from_str::<KingdomArc>(y))));
    let y = "- &p {name: own, n: 1}\n- *p\n";
    out.push((
        "de24_rc_recursion_to_plain_anchor",
        de_err(serde_saphyr::from_str::<(Leaf, RcRecursion<Leaf>)>(y)),
    ));
    out.push((
        "de25_arc_recursion_to_plain_anchor",
        de_err(serde_saphyr::from_str::<(Leaf, ArcRecursion<Leaf>)>(y)),
    ));
    out.push((
        "de26_rc_weak_to_plain_anchor",
        de_err(serde_saphyr::from_str::<(Leaf, RcWeakAnchor<Leaf>)>(y)),
    ));
    out.push((
        "de27_arc_weak_to_plain_anchor",
        de_err(serde_saphyr::from_str::<(Leaf, ArcWeakAnchor<Leaf>)>(y)),
    ));

    // 28. one anchor read at two different types
    let y = "a: &x 12\nb: *x\n";
    out.push(("de28_rc_type_clash", de_err(serde_saphyr::from_str::<MixedTypes>(y))));
    out.push(("de29_arc_type_clash", de_err(serde_saphyr::from_str::<MixedTypesArc>(y))));
    out.push(("de30_rc_recursive_type_clash", de_err(serde_saphyr::from_str::<MixedRec>(y))));
    out.push(("de31_arc_recursive_type_clash", de_err(serde_saphyr::from_str::<MixedRecArc>(y))));
    // same id in different stores is not a clash
    let r: (RcAnchor<u32>, ArcAnchor<String>, RcRecursive<u64>, ArcRecursive<String>) =
        serde_saphyr::from_str("[&x 12, *x, *x, *x]").unwrap();
    out.push((
        "de32_same_id_four_stores",
        format!(
            "{} {} {} {}",
            *r.0.0,
            *r.1.0,
            *r.2.borrow(),
            r.3.lock().unwrap().as_ref().unwrap()
        ),
    ));

    // 33. aliases into plain fields: equal, independent copies
    let y = "a: &l [x, y]\nb: *l\nc: &m {name: q, n: 5}\nd: *m\n";
    let r: Plain = serde_saphyr::from_str(y).unwrap();
    out.push(("de33_plain_fields", format!("{r:?} a==b:{} c==d:{}", r.a == r.b, r.c == r.d)));

    // 34. wrappers without anchors nested in anchored wrappers and the reverse
    let y = "first: &f\n  v: 1\n  w: 1\nsecond: *f\n";
    let r: OuterNest = serde_saphyr::from_str(y).unwrap();
    out.push((
        "de34_nested_unanchored_inner",
        format!(
            "outer:{} inner_vw:{} across:{} v={} w={}",
            r.first == r.second,
            r.first.v == r.first.w,
            r.first.v == r.second.v,
            *r.first.v.0,
            *r.second.w.0
        ),
    ));
    let y = "first:\n  v: &i 1\n  w: *i\nsecond:\n  v: *i\n  w: 1\n";
    let r: OuterNest = serde_saphyr::from_str(y).unwrap();
    out.push((
        "de35_nested_anchored_inner",
        format!(
            "outer:{} 1v=1w:{} 1v=2v:{} 2v=2w:{} count={}",
            r.first == r.second,
            r.first.v == r.first.w,
            r.first.v == r.second.v,
            r.second.v == r.second.w,
            Rc::strong_count(&r.first.v.0)
        ),
    ));

    // 36. anchors inside a replayed buffer keep their ids
    let y = "- &outer [&inner deep, *inner, other]\n- *outer\n- [*inner]\n";
    let r: Vec<Vec<RcAnchor<String>>> = serde_saphyr::from_str(y).unwrap();
    out.push((
        "de36_replayed_inner_anchor",
        format!(
            "{:?} 00=01:{} 00=10:{} 00=11:{} 00=20:{} 02=12:{} count={}",
            r.iter()
                .map(|v| v.iter().map(|s| (*s.0).clone()).collect::<Vec<_>>())
                .collect::<Vec<_>>(),
            r[0][0] == r[0][1],
            r[0][0] == r[1][0],
            r[0][0] == r[1][1],
            r[0][0] == r[2][0],
            r[0][2] == r[1][2],
            Rc::strong_count(&r[0][0].0)
        ),
    ));
    let r: Vec<RcAnchor<Vec<RcAnchor<String>>>> = serde_saphyr::from_str(y).unwrap();
    out.push((
        "de37_replayed_both_levels",
        format!(
            "0=1:{} 0=2:{} 00=20:{} outer_count={} inner_count={}",
            r[0] == r[1],
            r[0] == r[2],
            r[0][0] == r[2][0],
            Rc::strong_count(&r[0].0),
            Rc::strong_count(&r[0][0].0)
        ),
    ));

    // 38. anchored collections as elements / map values / enum payloads
    let y = "- &s [1, 2]\n- *s\n- &e []\n- *e\n- [1, 2]\n";
    let r: Vec<ArcAnchor<Vec<i32>>> = serde_saphyr::from_str(y).unwrap();
    out.push((
        "de38_anchored_sequences",
        format!(
            "{:?} 0=1:{} 2=3:{} 0=4:{}",
            r.iter().map(|x| (*x.0).clone()).collect::<Vec<_>>(),
            r[0] == r[1],
            r[2] == r[3],
            r[0] == r[4]
        ),
    ));
    let y = "- Shared: &l {name: e, n: 2}\n- Pair:\n    l: *l\n    r: {name: f, n: 3}\n- Nothing\n- Shared: *l\n";
    let r: Vec<Shape> = serde_saphyr::from_str(y).unwrap();
    let d = match (&r[0], &r[1], &r[3]) {
        (Shape::Shared(a), Shape::Pair { l, r }, Shape::Shared(b)) => {
            format!("a=l:{} a=b:{} l=r:{} r={:?}", a == l, a == b, l == r, *r.0)
        }
        _ => "shape mismatch".to_string(),
    };
    out.push(("de39_enum_payloads", d));
    let y = "x: &v {name: m, n: 1}\ny: *v\nz: &w null\nq: *w\n";
    let r: BTreeMap<String, Option<RcAnchor<Leaf>>> = serde_saphyr::from_str(y).unwrap();
    out.push((
        "de40_map_of_options",
        format!(
            "x=y:{} z:{} q:{}",
            r["x"].as_ref().unwrap() == r["y"].as_ref().unwrap(),
            r["z"].is_none(),
            r["q"].is_none()
        ),
    ));

    // 41. alias limits
    let y = "- &a {name: x, n: 1}\n- *a\n- *a\n";
    let o = serde_saphyr::options! {
        alias_limits: serde_saphyr::options::AliasLimits {
            max_total_replayed_events: 1_000_000,
            max_replay_stack_depth: 64,
            max_alias_expansions_per_anchor: 1,
        },
    };
    out.push((
        "de41_per_anchor_limit",
        de_err(serde_saphyr::from_str_with_options::<Vec<RcAnchor<Leaf>>>(y, o)),
    ));
    let o = serde_saphyr::options! {
        alias_limits: serde_saphyr::options::AliasLimits {
            max_total_replayed_events: 7,
            max_replay_stack_depth: 64,
            max_alias_expansions_per_anchor: usize::MAX,
        },
    };
    out.push((
        "de42_total_replay_limit",
        de_err(serde_saphyr::from_str_with_options::<Vec<RcAnchor<Leaf>>>(y, o)),
    ));
    let y2 = "- &a [x]\n- &b [*a]\n- [*b]\n";
    let o = serde_saphyr::options! {
        alias_limits: serde_saphyr::options::AliasLimits {
            max_total_replayed_events: 1_000_000,
            max_replay_stack_depth: 0,
            max_alias_expansions_per_anchor: usize::MAX,
        },
    };
    out.push((
        "de43_stack_depth_limit",
        de_err(serde_saphyr::from_str_with_options::<Vec<serde_json::Value>>(y2, o)),
    ));
    let r: Vec<serde_json::Value> = serde_saphyr::from_str(y2).unwrap();
    out.push(("de44_nested_alias_values", serde_json::to_string(&r).unwrap()));
    let o = serde_saphyr::options! {
        budget: serde_saphyr::budget! { max_nodes: 9 },
    };
    out.push((
        "de45_budget_counts_replay",
        de_err(serde_saphyr::from_str_with_options::<Vec<RcAnchor<Leaf>>>(y, o)),
    ));

    // 46. documents are separate scopes
    let y = "- &a {name: x, n: 1}\n- *a\n---\n- &a {name: y, n: 2}\n- *a\n";
    let r: Vec<Vec<RcAnchor<Leaf>>> = serde_saphyr::from_multiple(y).unwrap();
    out.push((
        "de46_multiple_documents",
        format!(
            "00=01:{} 10=11:{} 00=10:{} {:?} {:?}",
            r[0][0] == r[0][1],
            r[1][0] == r[1][1],
            r[0][0] == r[1][0],
            *r[0][0].0,
            *r[1][1].0
        ),
    ));
    let y = "- &a {name: x, n: 1}\n---\n- *a\n";
    out.push((
        "de47_alias_across_documents",
        de_err(serde_saphyr::from_multiple::<Vec<RcAnchor<Leaf>>>(y)),
    ));

    // 48. reader input, and a nested from_str call from inside a Deserialize impl
    let y = "owner: &o {name: own, n: 1}\nweak: *o\nother: *o\n";
    let r: ArcOwnerAndWeak = serde_saphyr::from_reader(y.as_bytes()).unwrap();
    out.push((
        "de48_reader",
        format!(
            "same:{} other:{} weak={}",
            Arc::ptr_eq(&r.weak.upgrade().unwrap(), &r.owner.0),
            Arc::ptr_eq(&r.other.upgrade().unwrap(), &r.owner.0),
            Arc::weak_count(&r.owner.0)
        ),
    ));
    let y = "- &a {name: x, n: 1}\n- *b\n";
    out.push(("de49_unknown_alias", de_err(serde_saphyr::from_str::<Vec<RcAnchor<Leaf>>>(y))));

    // 50. redefinition of an anchor name: later aliases see the later node
    let y = "- &a {name: x, n: 1}\n- *a\n- &a {name: y, n: 2}\n- *a\n";
    let r: Vec<RcAnchor<Leaf>> = serde_saphyr::from_str(y).unwrap();
    out.push((
        "de50_redefined_anchor",
        format!(
            "0=1:{} 2=3:{} 0=2:{} {:?}",
            r[0] == r[1],
            r[2] == r[3],
            r[0] == r[2],
            r.iter().map(|x| x.n).collect::<Vec<_>>()
        ),
    ));

    // 51. strong alias whose replayed content does not fit the target type
    let y = "- &a {name: x, n: 1}\n- *a\n";
    out.push((
        "de51_replay_type_error",
        de_err(serde_saphyr::from_str::<(RcAnchor<Leaf>, RcAnchor<Vec<i32>>)>(y)),
    ));
    // 52. a tagged / quoted null is not a dangling weak
    let y = "owner: &o {name: own, n: 1}\nweak: 'null'\nother: null\n";
    out.push(("de52_quoted_null_weak", de_err(serde_saphyr::from_str::<RcOwnerAndWeak>(y))));
    let y = "owner: &o {name: own, n: 1}\nweak: !!null x\nother: null\n";
    out.push((
        "de53_tagged_null_weak",
        match serde_saphyr::from_str::<ArcOwnerAndWeak>(y) {
            Ok(r) => format!("OK weak_dangling:{}", r.weak.is_dangling()),
            Err(e) => format!("ERR {e}"),
        },
    ));
}

// ---------------------------------------------------------------- round trips

fn round_trip_cases(out: &mut Out) {
    // A graph with every wrapper kind; serialize, read back, check topology, serialize again.
    #[derive(Serialize, Deserialize)]
    struct Graph {
        nodes: Vec<RcAnchor<Leaf>>,
        watchers: Vec<RcWeakAnchor<Leaf>>,
        arcs: BTreeMap<String, ArcAnchor<Vec<ArcAnchor<Leaf>>>>,
        arc_watch: Option<ArcWeakAnchor<Vec<ArcAnchor<Leaf>>>>,
        kings: Vec<RcRecursive<King>>,
    }
    let n1 = Rc::new(leaf("n1", 1));
    let n2 = Rc::new(leaf("n2", 2));
    let al = Arc::new(leaf("al", 3));
    let list = Arc::new(vec![ArcAnchor(al.clone()), ArcAnchor(al.clone())]);
    let mut arcs = BTreeMap::new();
    arcs.insert("p".to_string(), ArcAnchor(list.clone()));
    arcs.insert("q".to_string(), ArcAnchor(list.clone()));
    let k1 = RcRecursive::wrapping(King {
        name: "K1".into(),
        coronator: RcRecursion(std::rc::Weak::new()),
    });
    let k2 = RcRecursive::wrapping(King {
        name: "K2".into(),
        coronator: RcRecursion::from(&k1),
    });
    k1.0.borrow_mut().as_mut().unwrap().coronator = RcRecursion::from(&k1);
    let g = Graph {
        nodes: vec![RcAnchor(n1.clone()), RcAnchor(n2.clone()), RcAnchor(n1.clone())],
        watchers: vec![
            RcWeakAnchor(Rc::downgrade(&n2)),
            RcWeakAnchor(std::rc::Weak::new()),
            RcWeakAnchor(Rc::downgrade(&n1)),
        ],
        arcs,
        arc_watch: Some(ArcWeakAnchor(Arc::downgrade(&list))),
        kings: vec![k1, k2],
    };
    let text = serde_saphyr::to_string(&g).unwrap();
    out.push(("rt01_text", text.clone()));
    let back: Graph = serde_saphyr::from_str(&text).unwrap();
    out.push((
        "rt02_topology",
        format!(
            "n0=n2:{} n0=n1:{} w0->n1:{} w1_dangling:{} w2->n0:{} p=q:{} p0=p1:{} watch->p:{} k0self:{} k1->k0:{}",
            back.nodes[0] == back.nodes[2],
            back.nodes[0] == back.nodes[1],
            Rc::ptr_eq(&back.watchers[0].upgrade().unwrap(), &back.nodes[1].0),
            back.watchers[1].is_dangling(),
            Rc::ptr_eq(&back.watchers[2].upgrade().unwrap(), &back.nodes[0].0),
            back.arcs["p"] == back.arcs["q"],
            back.arcs["p"][0] == back.arcs["p"][1],
            Arc::ptr_eq(&back.arc_watch.as_ref().unwrap().upgrade().unwrap(), &back.arcs["p"].0),
            back.kings[0].borrow().coronator.upgrade().unwrap() == back.kings[0],
            back.kings[1].borrow().coronator.upgrade().unwrap() == back.kings[0],
        ),
    ));
    let without_kings = text.split("kings:").next().unwrap();
    out.push((
        "rt04b_plain_view_without_kings",
        match serde_saphyr::from_str::<PlainGraph>(without_kings) {
            Ok(p) => format!("{p:?}"),
            Err(e) => format!("ERR {e}"),
        },
    ));
    let again = serde_saphyr::to_string(&back).unwrap();
    out.push(("rt03_same_text_again", format!("{}", again == text)));

    // Reading the same text into plain types gives independent equal copies.
    #[derive(Deserialize, Debug)]
    #[allow(dead_code)]
    struct PlainGraph {
        nodes: Vec<Leaf>,
        watchers: Vec<Option<Leaf>>,
        arcs: BTreeMap<String, Vec<Leaf>>,
        arc_watch: Option<Vec<Leaf>>,
    }
    out.push((
        "rt04_plain_view",
        match serde_saphyr::from_str::<PlainGraph>(&text) {
            Ok(p) => format!("{p:?}"),
            Err(e) => format!("ERR {e}"),
        },
    ));

    // Two serializations in a row on one thread, then two deserializations: no state leaks.
    let a = serde_saphyr::to_string(&vec![RcAnchor(n1.clone()), RcAnchor(n1.clone())]).unwrap();
    let b = serde_saphyr::to_string(&vec![RcAnchor(n2.clone()), RcAnchor(n2.clone())]).unwrap();
    let ra: Vec<RcAnchor<Leaf>> = serde_saphyr::from_str(&a).unwrap();
    let rb: Vec<RcAnchor<Leaf>> = serde_saphyr::from_str(&b).unwrap();
    out.push((
        "rt05_independent_calls",
        format!(
            "{a}{b}a:{} b:{} cross:{} failed_then_ok:{}",
            ra[0] == ra[1],
            rb[0] == rb[1],
            ra[0] == rb[0],
            {
                let _ = serde_saphyr::from_str::<Vec<RcAnchor<Vec<i32>>>>(&a);
                let r: Vec<RcAnchor<Leaf>> = serde_saphyr::from_str(&a).unwrap();
                r[0] == r[1]
            }
        ),
    ));
}

fn run_all() -> Out {
    let mut out = Out::new();
    ser_cases(&mut out);
    de_cases(&mut out);
    round_trip_cases(&mut out);
    out
}

#[test]
fn demo_c14_differential() {
    let got = run_all();
    if std::env::var_os("DEMO_PRINT").is_some() {
        println!("const EXPECTED: &[(&str, &str)] = &[");
        for (k, v) in &got {
            println!("    ({k:?}, {v:?}),");
        }
        println!("];");
        return;
    }
    assert!(got.len() >= 30, "only {} cases", got.len());
    let mut failures = Vec::new();
    assert_eq!(got.len(), EXPECTED.len(), "number of cases");
    for ((k, v), (ek, ev)) in got.iter().zip(EXPECTED.iter()) {
        assert_eq!(k, ek, "case order");
        if v != ev {
            failures.push(format!("--- {k}\n expected: {ev:?}\n      got: {v:?}"));
        }
    }
    assert!(failures.is_empty(), "{} mismatches:\n{}", failures.len(), failures.join("\n"));
}

#[rustfmt::skip]
const EXPECTED: &[(&str, &str)] = &[
    ("ser01_rc_seq", "OK\n- &a1\n  name: x\n  \"n\": 1\n- &a2\n  name: x\n  \"n\": 1\n- *a1\n- *a1\n"),
    ("ser02_arc_map_interleaved", "OK\nk1: &a1\n  name: one\n  \"n\": 1\nk2: &a2\n  name: two\n  \"n\": 2\nk3: *a1\nk4: *a2\n"),
    ("ser03_scalars_and_empty", "OK\ns1: &a1 plain text\ns2: *a1\ne1: &a2\n  []\ne2: *a2\nn1: &a3 null\nn2: *a3\n"),
    ("ser04_rc_owner_weak_dangling", "OK\nowner: &a1\n  name: owner\n  \"n\": 7\nweak: *a1\nother: null\n"),
    ("ser05_arc_owner_weak_dangling", "OK\nowner: &a1\n  name: owner\n  \"n\": 7\nweak: *a1\nother: null\n"),
    ("ser06_weak_first", "OK\nweak: &a1\n  name: owner\n  \"n\": 7\nowner: *a1\n"),
    ("ser07_flow_weak", "OK\n[&a1 {name: owner, \"n\": 7}, null, *a1]\n"),
    ("ser08_flow_strong_scalars", "OK\n[&a1 5, *a1, &a2 5]\n"),
    ("ser09_custom_names", "OK\nk1: &node-1\n  name: one\n  \"n\": 1\nk2: &node-2\n  name: two\n  \"n\": 2\nk3: *node-1\nk4: *node-2\n"),
    ("ser10_layout_options", "OK\n%YAML 1.2\n---\n- - &a1\n      name: x\n      n: 1\n- - *a1\n"),
    ("ser11_quote_all", "OK\n- &node-1\n  name: 'x'\n  \"n\": 1\n- &node-2\n  name: 'x'\n  \"n\": 1\n- *node-1\n- *node-1\n"),
    ("ser12_rc_recursive", "OK\nkings:\n  - &a1\n    name: Aurelian\n    coronator: *a1\n  - &a2\n    name: Bertram\n    coronator: *a1\n  - *a1\n"),
    ("ser13_arc_recursive", "OK\nkings:\n  - &a1\n    name: Aurelian\n    coronator: *a1\n  - &a2\n    name: Cedric\n    coronator: null\n  - *a1\n"),
    ("ser14_rc_recursive_uninit", "ERR recursive Rc anchor not initialized"),
    ("ser15_rc_recursion_to_uninit", "OK\n&a1 null\n"),
    ("ser16_commented_distinct", "OK\n- &a1 text # first\n- &a2 text # second\n"),
    ("ser17_commented_alias", "OK\n- &a1 text # definition\n- *a1 # alias second line\n"),
    ("ser18_strong_three_fields", "ERR unexpected internal error: unexpected field in __yaml_anchor"),
    ("ser19_strong_bad_ptr", "ERR unexpected internal error: ptr expects number"),
    ("ser20_strong_same_ptr", "OK\n- &a1\n  - 1\n  - 2\n- &a2\n  []\n- *a1\n- &a3\n  - 4\n- *a3\n"),
    ("ser21_weak_four_fields", "ERR unexpected internal error: unexpected field in __yaml_weak_anchor"),
    ("ser22_weak_four_fields_absent", "ERR unexpected internal error: unexpected field in __yaml_weak_anchor"),
    ("ser23_weak_bad_flag", "ERR unexpected internal error: bool expected"),
    ("ser24_weak_and_strong_share_ids", "OK\n- &a1\n  q: 1\n- *a1\n- null\n- &a2\n  {}\n- *a2\n"),
    ("ser25_stubborn_callers", "OK\n- &a1 payload\n- *a1\n- null\n- *a1\n"),
    ("ser26_multiple_documents", "OK\n- &a1\n  name: x\n  \"n\": 1\n- *a1\n---\n- &a1\n  name: x\n  \"n\": 1\n- *a1\n"),
    ("ser27_nested_wrappers", "OK\nfirst: &a1\n  v: &a2 3\n  w: *a2\nsecond: *a1\n"),
    ("ser28_enums", "OK\n- Shared: &a1\n    name: e\n    \"n\": 2\n- Pair:\n    l: *a1\n    r: &a2\n      name: f\n      \"n\": 3\n- Nothing\n"),
    ("de01_rc_seq", "[Leaf { name: \"x\", n: 1 }, Leaf { name: \"x\", n: 1 }, Leaf { name: \"x\", n: 1 }, Leaf { name: \"x\", n: 1 }] 0=2:true 2=3:true 0=1:false strong=3"),
    ("de02_rc_fields", "Leaf { name: \"s\", n: 2 } a=b:true a=c:false count=2"),
    ("de03_arc_fields", "Leaf { name: \"s\", n: 2 } a=b:true a=c:false count=2"),
    ("de04_rc_weak", "same:true other_dangling:true strong=2 weak=1"),
    ("de05_arc_weak", "same:true other_dangling:true strong=2 weak=1"),
    ("de06_rc_weak_empty_value", "weak_dangling:true other_same:true"),
    ("de07_rc_weak_inline_value", "ERR error: line 2 column 7: weak Rc anchor must refer to an existing strong anchor via alias\n --> <input>:2:7\n  |\n1 | owner: &o {name: own, n: 1}\n2 | weak: {name: own, n: 1}\n  |       ^ weak Rc anchor must refer to an existing strong anchor via alias\n3 | other: null\n  | @ Some((2, 7))"),
    ("de08_arc_weak_inline_value", "ERR error: line 2 column 7: weak Arc anchor must refer to an existing strong anchor via alias\n --> <input>:2:7\n  |\n1 | owner: &o {name: own, n: 1}\n2 | weak: {name: own, n: 1}\n  |       ^ weak Arc anchor must refer to an existing strong anchor via alias\n3 | other: null\n  | @ Some((2, 7))"),
    ("de09_rc_weak_own_anchor", "ERR error: line 2 column 10: weak Rc anchor refers to unknown anchor; strong anchor must be defined before weak\n --> <input>:2:10\n  |\n1 | owner: {name: own, n: 1}\n2 | weak: &w {name: own, n: 1}\n  |          ^ weak Rc anchor refers to unknown anchor; strong anchor must be defined before weak\n3 | other: null\n  | @ Some((2, 10))"),
    ("de10_arc_weak_own_anchor", "ERR error: line 2 column 10: weak Arc anchor refers to unknown anchor; strong anchor must be defined before weak\n --> <input>:2:10\n  |\n1 | owner: {name: own, n: 1}\n2 | weak: &w {name: own, n: 1}\n  |          ^ weak Arc anchor refers to unknown anchor; strong anchor must be defined before weak\n3 | other: null\n  | @ Some((2, 10))"),
    ("de11_weak_before_definition", "ERR error: line 1 column 7: alias references unknown anchor\n --> <input>:1:7\n  |\n1 | weak: *o\n  |       ^ alias references unknown anchor\n2 | owner: &o {name: own, n: 1}\n  | @ Some((1, 7))"),
    ("de12_weak_defines", "ERR error: line 1 column 10: weak Rc anchor refers to unknown anchor; strong anchor must be defined before weak\n --> <input>:1:10\n  |\n1 | weak: &o {name: own, n: 1}\n  |          ^ weak Rc anchor refers to unknown anchor; strong anchor must be defined before weak\n2 | owner: *o\n  | @ Some((1, 10))"),
    ("de13_rc_weak_scalar", "ERR error: line 2 column 7: weak Rc anchor must refer to an existing strong anchor via alias\n --> <input>:2:7\n  |\n1 | owner: &o {name: own, n: 1}\n2 | weak: 17\n  |       ^ weak Rc anchor must refer to an existing strong anchor via alias\n3 | other: null\n  | @ Some((2, 7))"),
    ("de14_rc_strong_loop", "ERR error: line 4 column 9: recursive references require weak recursion types\n --> <input>:4:9\n  |\n2 | next: &n\n3 |   name: b\n4 |   next: *n\n  |         ^ recursive references require weak recursion types @ Some((4, 9))"),
    ("de15_arc_strong_loop", "ERR error: line 4 column 9: recursive references require weak recursion types\n --> <input>:4:9\n  |\n2 | next: &n\n3 |   name: b\n4 |   next: *n\n  |         ^ recursive references require weak recursion types @ Some((4, 9))"),
    ("de16_rc_weak_loop", "ERR error: line 3 column 7: recursive references require weak recursion types\n --> <input>:3:7\n  |\n1 | &n\n2 | name: b\n3 | back: *n\n  |       ^ recursive references require weak recursion types @ Some((3, 7))"),
    ("de17_arc_weak_loop", "ERR error: line 3 column 7: recursive references require weak recursion types\n --> <input>:3:7\n  |\n1 | &n\n2 | name: b\n3 | back: *n\n  |       ^ recursive references require weak recursion types @ Some((3, 7))"),
    ("de18_rc_recursive_optional_strong_loop", "OK name=b next_none:true"),
    ("de19_arc_recursive_optional_strong_loop", "OK name=b next_none:true"),
    ("de18b_rc_recursive_strong_loop", "ERR error: line 3 column 7: missing field `name`\n --> <input>:3:7\n  |\n1 | &n\n2 | name: b\n3 | next: *n\n  |       ^ missing field `name` @ Some((3, 7))"),
    ("de19b_arc_recursive_strong_loop", "ERR error: line 3 column 7: missing field `name`\n --> <input>:3:7\n  |\n1 | &n\n2 | name: b\n3 | next: *n\n  |       ^ missing field `name` @ Some((3, 7))"),
    ("de20_rc_recursive", "names=[\"Aurelian\", \"Bertram\", \"Cedric\", \"Aurelian\"] self:true b->a:true c_dangling:true 3=0:true strong0=4 weak0=2"),
    ("de21_arc_recursive", "names=[\"Aurelian\", \"Bertram\", \"Cedric\", \"Aurelian\"] self:true b->a:true c_dangling:true 3=0:true strong0=4 weak0=4 with=Some(\"Aurelian\")"),
    ("de22_rc_recursion_inline", "ERR error: line 3 column 16: RcRecursion must refer to an existing recursive strong anchor via alias\n --> <input>:3:16\n  |\n1 | kings:\n2 |   - name: Aurelian\n3 |     coronator: {name: x, coronator: null}\n  |                ^ RcRecursion must refer to an existing recursive strong anchor via alias @ Some((3, 16))"),
    ("de23_arc_recursion_inline", "ERR error: line 3 column 16: ArcRecursion must refer to an existing recursive strong anchor via alias\n --> <input>:3:16\n  |\n1 | kings:\n2 |   - name: Aurelian\n3 |     coronator: {name: x, coronator: null}\n  |                ^ ArcRecursion must refer to an existing recursive strong anchor via alias @ Some((3, 16))"),
    ("de24_rc_recursion_to_plain_anchor", "ERR error: line 2 column 3: RcRecursion refers to unknown recursive anchor id\n --> the value is used here:2:3\n  |\n1 | - &p {name: own, n: 1}\n2 | - *p\n  |   ^ RcRecursion refers to unknown recursive anchor id\n  | This value comes indirectly from the anchor at line 1 column 6:\n  |\n1 | - &p {name: own, n: 1}\n  |      ^ defined here\n2 | - *p\n3 |\n  |\n @ Some((2, 3))"),
    ("de25_arc_recursion_to_plain_anchor", "ERR error: line 2 column 3: ArcRecursion refers to unknown recursive anchor id\n --> the value is used here:2:3\n  |\n1 | - &p {name: own, n: 1}\n2 | - *p\n  |   ^ ArcRecursion refers to unknown recursive anchor id\n  | This value comes indirectly from the anchor at line 1 column 6:\n  |\n1 | - &p {name: own, n: 1}\n  |      ^ defined here\n2 | - *p\n3 |\n  |\n @ Some((2, 3))"),
    ("de26_rc_weak_to_plain_anchor", "ERR error: line 2 column 3: weak Rc anchor refers to unknown anchor; strong anchor must be defined before weak\n --> the value is used here:2:3\n  |\n1 | - &p {name: own, n: 1}\n2 | - *p\n  |   ^ weak Rc anchor refers to unknown anchor; strong anchor must be defined before weak\n  | This value comes indirectly from the anchor at line 1 column 6:\n  |\n1 | - &p {name: own, n: 1}\n  |      ^ defined here\n2 | - *p\n3 |\n  |\n @ Some((2, 3))"),
    ("de27_arc_weak_to_plain_anchor", "ERR error: line 2 column 3: weak Arc anchor refers to unknown anchor; strong anchor must be defined before weak\n --> the value is used here:2:3\n  |\n1 | - &p {name: own, n: 1}\n2 | - *p\n  |   ^ weak Arc anchor refers to unknown anchor; strong anchor must be defined before weak\n  | This value comes indirectly from the anchor at line 1 column 6:\n  |\n1 | - &p {name: own, n: 1}\n  |      ^ defined here\n2 | - *p\n3 |\n  |\n @ Some((2, 3))"),
    ("de28_rc_type_clash", "ERR error: line 2 column 4: anchor id 1 reused with incompatible Rc type\n --> the value is used here:2:4\n  |\n1 | a: &x 12\n2 | b: *x\n  |    ^ anchor id 1 reused with incompatible Rc type\n  | This value comes indirectly from the anchor at line 1 column 7:\n  |\n1 | a: &x 12\n  |       ^ defined here\n2 | b: *x\n3 |\n  |\n @ Some((2, 4))"),
    ("de29_arc_type_clash", "ERR error: line 2 column 4: anchor id 1 reused with incompatible Arc type\n --> the value is used here:2:4\n  |\n1 | a: &x 12\n2 | b: *x\n  |    ^ anchor id 1 reused with incompatible Arc type\n  | This value comes indirectly from the anchor at line 1 column 7:\n  |\n1 | a: &x 12\n  |       ^ defined here\n2 | b: *x\n3 |\n  |\n @ Some((2, 4))"),
    ("de30_rc_recursive_type_clash", "ERR error: line 2 column 4: recursive anchor id 1 reused with incompatible Rc type\n --> the value is used here:2:4\n  |\n1 | a: &x 12\n2 | b: *x\n  |    ^ recursive anchor id 1 reused with incompatible Rc type\n  | This value comes indirectly from the anchor at line 1 column 7:\n  |\n1 | a: &x 12\n  |       ^ defined here\n2 | b: *x\n3 |\n  |\n @ Some((2, 4))"),
    ("de31_arc_recursive_type_clash", "ERR error: line 2 column 4: recursive anchor id 1 reused with incompatible Arc type\n --> the value is used here:2:4\n  |\n1 | a: &x 12\n2 | b: *x\n  |    ^ recursive anchor id 1 reused with incompatible Arc type\n  | This value comes indirectly from the anchor at line 1 column 7:\n  |\n1 | a: &x 12\n  |       ^ defined here\n2 | b: *x\n3 |\n  |\n @ Some((2, 4))"),
    ("de32_same_id_four_stores", "12 12 12 12"),
    ("de33_plain_fields", "Plain { a: [\"x\", \"y\"], b: [\"x\", \"y\"], c: Leaf { name: \"q\", n: 5 }, d: Leaf { name: \"q\", n: 5 } } a==b:true c==d:true"),
    ("de34_nested_unanchored_inner", "outer:true inner_vw:false across:true v=1 w=1"),
    ("de35_nested_anchored_inner", "outer:false 1v=1w:true 1v=2v:true 2v=2w:false count=3"),
    ("de36_replayed_inner_anchor", "[[\"deep\", \"deep\", \"other\"], [\"deep\", \"deep\", \"other\"], [\"deep\"]] 00=01:true 00=10:true 00=11:true 00=20:true 02=12:false count=5"),
    ("de37_replayed_both_levels", "0=1:true 0=2:false 00=20:true outer_count=2 inner_count=3"),
    ("de38_anchored_sequences", "[[1, 2], [1, 2], [], [], [1, 2]] 0=1:true 2=3:true 0=4:false"),
    ("de39_enum_payloads", "a=l:true a=b:true l=r:false r=Leaf { name: \"f\", n: 3 }"),
    ("de40_map_of_options", "x=y:true z:true q:true"),
    ("de41_per_anchor_limit", "ERR error: line 3 column 3: alias expansion limit exceeded for anchor id 1: 2 > 1\n --> <input>:3:3\n  |\n1 | - &a {name: x, n: 1}\n2 | - *a\n3 | - *a\n  |   ^ alias expansion limit exceeded for anchor id 1: 2 > 1 @ Some((3, 3))"),
    ("de42_total_replay_limit", "ERR error: line 3 column 3: alias replay limit exceeded: total_replayed_events=8 > 7 at line 1, column 7\n --> the value is used here:3:3\n  |\n1 | - &a {name: x, n: 1}\n2 | - *a\n3 | - *a\n  |   ^ alias replay limit exceeded: total_replayed_events=8 > 7 at line 1, column 7\n  | This value comes indirectly from the anchor at line 1 column 6:\n  |\n1 | - &a {name: x, n: 1}\n  |      ^ defined here\n2 | - *a\n3 | - *a\n  |\n @ Some((3, 3))"),
    ("de43_stack_depth_limit", "ERR error: line 2 column 7: alias replay stack depth exceeded: depth=1 > 0\n --> <input>:2:7\n  |\n1 | - &a [x]\n2 | - &b [*a]\n  |       ^ alias replay stack depth exceeded: depth=1 > 0\n3 | - [*b]\n  | @ Some((2, 7))"),
    ("de44_nested_alias_values", "[[\"x\"],[[\"x\"]],[[[\"x\"]]]]"),
    ("de45_budget_counts_replay", "ERR error: line 2 column 3: budget breached: Nodes { nodes: 10 } at line 1, column 16\n --> the value is used here:2:3\n  |\n1 | - &a {name: x, n: 1}\n2 | - *a\n  |   ^ budget breached: Nodes { nodes: 10 } at line 1, column 16\n3 | - *a\n  |\n  | This value comes indirectly from the anchor at line 1 column 6:\n  |\n1 | - &a {name: x, n: 1}\n  |      ^ defined here\n2 | - *a\n3 | - *a\n  |\n @ Some((2, 3))"),
    ("de46_multiple_documents", "00=01:true 10=11:true 00=10:false Leaf { name: \"x\", n: 1 } Leaf { name: \"y\", n: 2 }"),
    ("de47_alias_across_documents", "ERR error: line 3 column 3: alias references unknown anchor\n --> <input>:3:3\n  |\n1 | - &a {name: x, n: 1}\n2 | ---\n3 | - *a\n  |   ^ alias references unknown anchor @ Some((3, 3))"),
    ("de48_reader", "same:true other:true weak=2"),
    ("de49_unknown_alias", "ERR error: line 2 column 3: alias references unknown anchor\n --> <input>:2:3\n  |\n1 | - &a {name: x, n: 1}\n2 | - *b\n  |   ^ alias references unknown anchor @ Some((2, 3))"),
    ("de50_redefined_anchor", "0=1:true 2=3:true 0=2:false [1, 1, 2, 2]"),
    ("de51_replay_type_error", "ERR error: line 2 column 3: anchor id 1 reused with incompatible Rc type\n --> the value is used here:2:3\n  |\n1 | - &a {name: x, n: 1}\n2 | - *a\n  |   ^ anchor id 1 reused with incompatible Rc type\n  | This value comes indirectly from the anchor at line 1 column 6:\n  |\n1 | - &a {name: x, n: 1}\n  |      ^ defined here\n2 | - *a\n3 |\n  |\n @ Some((2, 3))"),
    ("de52_quoted_null_weak", "ERR error: line 2 column 7: weak Rc anchor must refer to an existing strong anchor via alias\n --> <input>:2:7\n  |\n1 | owner: &o {name: own, n: 1}\n2 | weak: 'null'\n  |       ^ weak Rc anchor must refer to an existing strong anchor via alias\n3 | other: null\n  | @ Some((2, 7))"),
    ("de53_tagged_null_weak", "OK weak_dangling:true"),
    ("rt01_text", "nodes:\n  - &a1\n    name: n1\n    \"n\": 1\n  - &a2\n    name: n2\n    \"n\": 2\n  - *a1\nwatchers:\n  - *a2\n  - null\n  - *a1\narcs:\n  p: &a3\n    - &a4\n      name: al\n      \"n\": 3\n    - *a4\n  q: *a3\narc_watch: *a3\nkings:\n  - &a5\n    name: K1\n    coronator: *a5\n  - &a6\n    name: K2\n    coronator: *a5\n"),
    ("rt02_topology", "n0=n2:true n0=n1:false w0->n1:true w1_dangling:true w2->n0:true p=q:true p0=p1:true watch->p:true k0self:true k1->k0:true"),
    ("rt04b_plain_view_without_kings", "PlainGraph { nodes: [Leaf { name: \"n1\", n: 1 }, Leaf { name: \"n2\", n: 2 }, Leaf { name: \"n1\", n: 1 }], watchers: [Some(Leaf { name: \"n2\", n: 2 }), None, Some(Leaf { name: \"n1\", n: 1 })], arcs: {\"p\": [Leaf { name: \"al\", n: 3 }, Leaf { name: \"al\", n: 3 }], \"q\": [Leaf { name: \"al\", n: 3 }, Leaf { name: \"al\", n: 3 }]}, arc_watch: Some([Leaf { name: \"al\", n: 3 }, Leaf { name: \"al\", n: 3 }]) }"),
    ("rt03_same_text_again", "true"),
    ("rt04_plain_view", "ERR error: line 24 column 16: recursive references require weak recursion types\n  --> <input>:24:16\n   |\n22 |   - &a5\n23 |     name: K1\n24 |     coronator: *a5\n   |                ^ recursive references require weak recursion types\n25 |   - &a6\n26 |     name: K2\n   |"),
    ("rt05_independent_calls", "- &a1\n  name: n1\n  \"n\": 1\n- *a1\n- &a1\n  name: n2\n  \"n\": 2\n- *a1\na:true b:true cross:false failed_then_ok:true"),
];
