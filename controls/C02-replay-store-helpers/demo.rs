//! Differential test for the C02 refactoring of `src/live_events.rs`
//! (anchor recording / alias replay).
//!
//! Every case renders its outcome (value, or full error text including the
//! location/snippet, or re-emitted YAML, or budget report) to a `String`.
//! The list is compared with literals produced on the UNMODIFIED tree.
//!
//! Regenerate the literals with:
//!   cp CONTROL/demo.rs tests/demo_c02.rs
//!   DEMO_PRINT=1 cargo test --offline --test demo_c02 -- --nocapture

use std::cell::RefCell;
use std::collections::BTreeMap;
use std::rc::Rc;

use indoc::indoc;
use serde::{Deserialize, Serialize};
use serde_json::Value;
use serde_saphyr::budget::BudgetReport;
use serde_saphyr::options::AliasLimits;
use serde_saphyr::{
    Options, RcAnchor, RcRecursion, RcRecursive, RcWeakAnchor, Spanned, from_multiple,
    from_reader, from_reader_with_options, from_str, from_str_with_options,
};

fn show<T: std::fmt::Debug>(r: Result<T, serde_saphyr::Error>) -> String {
    match r {
        Ok(v) => format!("OK {v:?}"),
        Err(e) => format!("ERR {e}"),
    }
}

fn json(yaml: &str) -> String {
    show(from_str::<Value>(yaml))
}

fn json_opts(yaml: &str, options: Options) -> String {
    show(from_str_with_options::<Value>(yaml, options))
}

fn limits(total: usize, depth: usize, per_anchor: usize) -> Options {
    serde_saphyr::options! {
        alias_limits: AliasLimits {
            max_total_replayed_events: total,
            max_replay_stack_depth: depth,
            max_alias_expansions_per_anchor: per_anchor,
        },
    }
}

/// Run with a budget-report callback and render both the outcome and the report.
fn json_with_report(yaml: &str, mut options: Options, reader: bool) -> String {
    let seen: Rc<RefCell<Option<BudgetReport>>> = Rc::new(RefCell::new(None));
    let sink = seen.clone();
    options = options.with_budget_report(move |r: BudgetReport| {
        *sink.borrow_mut() = Some(r);
    });
    let out = if reader {
        show(from_reader_with_options::<_, Value>(
            yaml.as_bytes(),
            options,
        ))
    } else {
        show(from_str_with_options::<Value>(yaml, options))
    };
    format!("{out} || {:?}", seen.borrow())
}

#[derive(Debug, Deserialize, Serialize, PartialEq)]
struct Point {
    x: i32,
    y: i32,
}

#[derive(Debug, Deserialize)]
#[allow(dead_code)]
struct SpannedDoc {
    base: Spanned<u32>,
    copy: Spanned<u32>,
    list: Vec<Spanned<String>>,
    again: Spanned<Vec<u32>>,
}

#[derive(Debug, Deserialize, Serialize)]
struct Shared {
    a: RcAnchor<Point>,
    b: RcAnchor<Point>,
    c: RcAnchor<Point>,
}

#[derive(Debug, Deserialize)]
struct WeakDoc {
    strong: RcAnchor<Point>,
    weak: RcWeakAnchor<Point>,
}

#[derive(Deserialize, Serialize)]
struct Node {
    name: String,
    next: RcRecursion<Node>,
}

#[derive(Deserialize, Serialize)]
struct Ring {
    head: RcRecursive<Node>,
}

#[derive(Debug, Deserialize, PartialEq)]
struct Borrowed<'a> {
    #[serde(borrow)]
    a: &'a str,
    #[serde(borrow)]
    b: &'a str,
}

fn cases() -> Vec<(&'static str, String)> {
    let mut out: Vec<(&'static str, String)> = Vec::new();
    let mut add = |name: &'static str, s: String| out.push((name, s));

    // ---- plain transparency -------------------------------------------------
    add("scalar_anchor_alias", json("a: &x 1\nb: *x\nc: *x\n"));
    add(
        "seq_anchor_alias",
        json("a: &s [1, two, 3.5]\nb: *s\nc: [*s, *s]\n"),
    );
    add(
        "map_anchor_alias",
        json("base: &m {k: v, n: {deep: [1, 2]}}\ncopy: *m\n"),
    );
    add(
        "nested_anchors_inside_anchor",
        json(indoc! {"
            outer: &o
              inner: &i [a, b]
              leaf: &l z
              again: *i
            use_outer: *o
            use_inner: *i
            use_leaf: *l
        "}),
    );
    add(
        "alias_inside_later_anchor",
        json(indoc! {"
            a: &a [1, 2]
            b: &b {first: *a, second: *a}
            c: &c [*b, *a]
            d: *c
        "}),
    );
    add(
        "redefinition_latest_wins",
        json(indoc! {"
            - &x one
            - *x
            - &x [two]
            - *x
            - &x {three: 3}
            - *x
        "}),
    );
    add(
        "redefinition_inside_anchor_replay",
        json(indoc! {"
            first: &x 1
            box: &b
              inner: &x 2
              see: *x
            after: *x
            box2: *b
            after2: *x
        "}),
    );
    add("anchored_root_scalar", json("&r hello\n"));
    add("anchored_root_seq", json("&r\n- 1\n- &q 2\n- *q\n"));
    add(
        "anchor_on_key_and_alias_key",
        json("&k key: v1\nother: *k\n"),
    );
    add(
        "alias_as_map_key",
        json("a: &k name\nm:\n  *k : value\n  plain: *k\n"),
    );
    add(
        "anchored_empty_scalars",
        json(indoc! {r#"
            e1: &e1
            e2: &e2 ""
            e3: &e3 ''
            e4: &e4 ~
            e5: &e5 null
            r1: *e1
            r2: *e2
            r3: *e3
            r4: *e4
            r5: *e5
        "#}),
    );
    add(
        "anchored_empty_scalars_as_strings",
        show(from_str::<BTreeMap<String, Option<String>>>(indoc! {r#"
            e1: &e1
            e2: &e2 ""
            e3: &e3 ''
            e4: &e4 "null"
            e5: &e5 '~'
            r1: *e1
            r2: *e2
            r3: *e3
            r4: *e4
            r5: *e5
        "#})),
    );
    add(
        "anchored_styles_kept",
        show(from_str::<BTreeMap<String, String>>(indoc! {r#"
            a: &a "123"
            b: &b 'true'
            c: &c |
              lit
              eral
            d: &d >
              fol
              ded
            ra: *a
            rb: *b
            rc: *c
            rd: *d
        "#})),
    );
    add(
        "quoted_number_into_int_via_alias",
        show(from_str::<BTreeMap<String, i32>>("a: &a 12\nb: *a\nc: &c \"12\"\nd: *c\n")),
    );
    add(
        "tagged_anchor_replayed",
        json("a: &t !!str 123\nb: *t\ne: &n !!null ~\nf: *n\n"),
    );
    add(
        "tagged_float_alias",
        show(from_str::<BTreeMap<String, f64>>("c: &u !!float 7\nd: *u\n")),
    );
    add(
        "tagged_anchor_into_typed",
        show(from_str::<BTreeMap<String, String>>(
            "a: &t !!str 123\nb: *t\nc: &b !!binary aGk=\nd: *b\n",
        )),
    );
    add(
        "empty_containers",
        json("a: &a []\nb: &b {}\nc: *a\nd: *b\ne: [*a, *b]\n"),
    );
    add(
        "flow_anchors",
        json("[&a 1, *a, &b [x, *a], *b, {k: &c v, k2: *c}]\n"),
    );
    add(
        "deep_alias_chain",
        json(indoc! {"
            l0: &l0 [x]
            l1: &l1 [*l0, *l0]
            l2: &l2 [*l1, *l1]
            l3: &l3 [*l2, *l2]
            l4: *l3
        "}),
    );

    // ---- merge keys go through the same replay path -----------------------
    add(
        "merge_single_and_list",
        json(indoc! {"
            base: &base {x: 1, y: 2}
            extra: &extra {z: 3, x: 9}
            one:
              <<: *base
              y: 20
            two:
              <<: [*base, *extra]
            three:
              <<: [*extra, *base]
              w: 0
        "}),
    );
    add(
        "merge_into_struct",
        show(from_str::<BTreeMap<String, Point>>(
            "p: &p {x: 1, y: 2}\nq:\n  <<: *p\n  y: 5\n",
        )),
    );

    // ---- errors --------------------------------------------------------------
    add("unknown_alias", json("a: 1\nb: *nope\n"));
    add("alias_before_anchor", json("a: *x\nb: &x 1\n"));
    add("alias_root_unknown", json("*x\n"));
    add(
        "alias_across_documents",
        show(from_multiple::<Value>("a: &x 1\nb: *x\n---\nc: *x\n")),
    );
    add(
        "anchors_per_document_ok",
        show(from_multiple::<Value>(
            "a: &x 1\nb: *x\n---\na: &x [2]\nb: *x\n--- &x z\n",
        )),
    );
    add("self_reference_scalar_target", json("a: &a [1, *a]\n"));
    add(
        "self_reference_nested",
        json("top: &t\n  k: v\n  inner:\n    - 1\n    - *t\n"),
    );
    add(
        "self_reference_inner_ok_outer_open",
        json("top: &t\n  first: &f [1]\n  second: *f\n  third: *t\n"),
    );
    add(
        "typed_error_inside_replay",
        show(from_str::<BTreeMap<String, Vec<i32>>>(
            "a: &a [1, 2, x]\nb: [3]\n",
        )),
    );
    add(
        "typed_error_inside_replay_at_alias",
        show(from_str::<BTreeMap<String, Vec<i32>>>(
            "a: &a [1, 2]\nb: *a\nc: &c [x]\nd: *c\n",
        )),
    );
    add(
        "multi_doc_in_single_mode",
        json("a: &x 1\n---\nb: *x\n"),
    );
    add("doc_end_then_garbage", json("a: &x 1\nb: *x\n...\n"));
    add("empty_document", json(""));
    add("only_comment", json("# nothing\n"));
    add("syntax_error_after_anchor", json("a: &x [1, 2\nb: *x\n"));

    // ---- alias limits -------------------------------------------------------
    let bomb = indoc! {"
        a: &a [1, 2, 3]
        b: &b [*a, *a]
        c: &c [*b, *b]
        d: [*c, *c]
    "};
    add("limits_default_bomb_ok", json(bomb));
    add("limits_total_exact", json_opts(bomb, limits(72, 64, usize::MAX)));
    add("limits_total_41", json_opts(bomb, limits(41, 64, usize::MAX)));
    add("limits_total_0", json_opts("a: &a 1\nb: *a\n", limits(0, 64, usize::MAX)));
    add("limits_total_1", json_opts("a: &a 1\nb: *a\n", limits(1, 64, usize::MAX)));
    add("limits_depth_0", json_opts("a: &a 1\nb: *a\n", limits(1000, 0, usize::MAX)));
    add("limits_depth_1_flat", json_opts(bomb, limits(1000, 1, usize::MAX)));
    add("limits_depth_2", json_opts(bomb, limits(1000, 2, usize::MAX)));
    add("limits_depth_3", json_opts(bomb, limits(1000, 3, usize::MAX)));
    add("limits_per_anchor_1", json_opts(bomb, limits(1000, 64, 1)));
    add("limits_per_anchor_2", json_opts(bomb, limits(1000, 64, 2)));
    add(
        "limits_per_anchor_counts_redefinitions_separately",
        json_opts("- &x 1\n- *x\n- &x 2\n- *x\n- *x\n", limits(1000, 64, 1)),
    );
    add(
        "limits_reset_between_documents",
        show(serde_saphyr::from_multiple_with_options::<Value>(
            "a: &a [1, 2]\nb: *a\n---\na: &a [1, 2]\nb: *a\n---\na: &a [1, 2]\nb: *a\nc: *a\n",
            limits(4, 64, 1),
        )),
    );
    add(
        "limits_unknown_alias_vs_per_anchor_zero",
        json_opts("a: *zz\n", limits(1000, 64, 0)),
    );

    // ---- budget accounting --------------------------------------------------
    add(
        "budget_report_str",
        json_with_report(bomb, Options::default(), false),
    );
    add(
        "budget_report_reader",
        json_with_report(bomb, Options::default(), true),
    );
    add(
        "budget_max_nodes_breached_in_replay",
        json_with_report(
            bomb,
            serde_saphyr::options! { budget: serde_saphyr::budget! { max_nodes: 30 } },
            false,
        ),
    );
    add(
        "budget_max_depth_breached_in_replay",
        json_with_report(
            bomb,
            serde_saphyr::options! { budget: serde_saphyr::budget! { max_depth: 3 } },
            false,
        ),
    );
    add(
        "budget_max_aliases",
        json_with_report(
            bomb,
            serde_saphyr::options! { budget: serde_saphyr::budget! { max_aliases: 5 } },
            true,
        ),
    );
    add(
        "budget_max_anchors",
        json_with_report(
            bomb,
            serde_saphyr::options! { budget: serde_saphyr::budget! { max_anchors: 2 } },
            false,
        ),
    );
    add(
        "budget_scalar_bytes_in_replay",
        json_with_report(
            "a: &a [abcdefgh, ijklmnop]\nb: *a\nc: *a\n",
            serde_saphyr::options! { budget: serde_saphyr::budget! { max_total_scalar_bytes: 40 } },
            false,
        ),
    );
    add(
        "budget_merge_keys",
        json_with_report(
            "b: &b {x: 1}\nm: &m\n  <<: *b\nn: *m\no: *m\n",
            serde_saphyr::options! { budget: serde_saphyr::budget! { max_merge_keys: 2 } },
            false,
        ),
    );
    add(
        "no_budget_at_all",
        json_opts(bomb, serde_saphyr::options! { budget: None }),
    );

    // ---- reader input, streaming iterator and recovery ----------------------
    add(
        "reader_same_as_str",
        show(from_reader::<_, Value>(
            "a: &a {k: [1, 2]}\nb: *a\nc: &a 5\nd: *a\n".as_bytes(),
        )),
    );
    add(
        "reader_unknown_alias",
        show(from_reader::<_, Value>("a: 1\nb: *nope\n".as_bytes())),
    );
    {
        let text = "a: &x 1\nb: *x\n---\nc: *x\nd: 2\n---\ne: &x [3]\nf: *x\n---\ng: &g [1, *g]\n---\nh: &h k\ni: *h\n";
        let mut bytes = text.as_bytes();
        let items: Vec<String> = serde_saphyr::read::<_, Value>(&mut bytes)
            .map(show)
            .collect();
        add("read_iterator_recovers_and_forgets_anchors", items.join(" ## "));
    }
    {
        let text = "a: &x [1, 2]\nb: *x\n---\nb: *x\n---\nc: &x [1, 2]\nd: *x\ne: *x\n";
        let mut bytes = text.as_bytes();
        let items: Vec<String> =
            serde_saphyr::read_with_options::<_, Value>(&mut bytes, limits(3, 64, 1))
                .map(show)
                .collect();
        add("read_iterator_limits_reset", items.join(" ## "));
    }

    // ---- Spanned: reference vs. definition locations ------------------------
    add(
        "spanned_locations",
        show(from_str::<SpannedDoc>(indoc! {"
            base: &b 7
            copy: *b
            list:
              - &s first
              - *s
              - third
              - *s
            again: &v [1, *b, 3]
        "})),
    );
    add(
        "spanned_alias_of_seq",
        show(from_str::<BTreeMap<String, Spanned<Vec<Spanned<u32>>>>>(
            "a: &a [1, 2]\nb: *a\nc:  *a\n",
        )),
    );
    add(
        "spanned_nested_alias",
        show(from_str::<BTreeMap<String, Vec<Spanned<String>>>>(
            "a: [&a x]\nb: &b [*a, y]\nc: *b\n",
        )),
    );

    // ---- anchor-aware wrapper types -----------------------------------------
    {
        let r = from_str::<Shared>("a: &p {x: 1, y: 2}\nb: *p\nc: {x: 1, y: 2}\n");
        add(
            "rc_anchor_sharing",
            match r {
                Ok(s) => format!(
                    "OK a={:?} b={:?} c={:?} ab={} ac={} yaml={:?}",
                    *s.a.0,
                    *s.b.0,
                    *s.c.0,
                    Rc::ptr_eq(&s.a.0, &s.b.0),
                    Rc::ptr_eq(&s.a.0, &s.c.0),
                    serde_saphyr::to_string(&s).unwrap()
                ),
                Err(e) => format!("ERR {e}"),
            },
        );
    }
    {
        let r = from_str::<WeakDoc>("strong: &p {x: 3, y: 4}\nweak: *p\n");
        add(
            "rc_weak_anchor",
            match r {
                Ok(w) => format!(
                    "OK strong={:?} weak={:?}",
                    *w.strong.0,
                    w.weak.upgrade().map(|p| (p.x, p.y))
                ),
                Err(e) => format!("ERR {e}"),
            },
        );
    }
    add(
        "rc_weak_anchor_unknown",
        show(from_str::<WeakDoc>("strong: {x: 3, y: 4}\nweak: *p\n").map(|_| ())),
    );
    {
        let r = from_str::<Ring>("head: &n\n  name: loop\n  next: *n\n");
        add(
            "recursive_ring",
            match r {
                Ok(ring) => {
                    let name = ring.head.borrow().name.clone();
                    let next_name = ring.head.borrow().next.with(|n| n.name.clone());
                    format!(
                        "OK name={name} next={next_name:?} yaml={:?}",
                        serde_saphyr::to_string(&ring).unwrap()
                    )
                }
                Err(e) => format!("ERR {e}"),
            },
        );
    }
    add(
        "recursive_alias_into_plain_type",
        json("head: &n\n  name: loop\n  next: *n\n"),
    );

    // ---- zero-copy borrowing through aliases --------------------------------
    add(
        "borrowed_str_via_alias",
        show(from_str::<Borrowed>("a: &a hello\nb: *a\n")),
    );
    add(
        "bom_prefixed_input",
        json("\u{FEFF}a: &a 1\nb: *a\n"),
    );

    // ---- round trip: alias-expanded value re-emitted ------------------------
    {
        let v: Value = from_str(bomb).unwrap();
        add("reemit_expanded", serde_saphyr::to_string(&v).unwrap());
    }

    out
}

#[test]
fn demo_c02_differential() {
    let got = cases();
    if std::env::var_os("DEMO_PRINT").is_some() {
        println!("const EXPECTED: &[(&str, &str)] = &[");
        for (name, s) in &got {
            println!("    ({name:?}, {s:?}),");
        }
        println!("];");
        return;
    }
    assert_eq!(got.len(), EXPECTED.len(), "number of cases");
    let mut failures = Vec::new();
    for ((name, s), (ename, es)) in got.iter().zip(EXPECTED.iter()) {
        assert_eq!(name, ename, "case order");
        if s != es {
            failures.push(format!("case {name}:\n  got:      {s:?}\n  expected: {es:?}"));
        }
    }
    assert!(failures.is_empty(), "{}", failures.join("\n"));
}

// EXPECTED-BEGIN
const EXPECTED: &[(&str, &str)] = &[
    ("scalar_anchor_alias", "OK Object {\"a\": Number(1), \"b\": Number(1), \"c\": Number(1)}"),
    ("seq_anchor_alias", "OK Object {\"a\": Array [Number(1), String(\"two\"), Number(3.5)], \"b\": Array [Number(1), String(\"two\"), Number(3.5)], \"c\": Array [Array [Number(1), String(\"two\"), Number(3.5)], Array [Number(1), String(\"two\"), Number(3.5)]]}"),
    ("map_anchor_alias", "OK Object {\"base\": Object {\"k\": String(\"v\"), \"n\": Object {\"deep\": Array [Number(1), Number(2)]}}, \"copy\": Object {\"k\": String(\"v\"), \"n\": Object {\"deep\": Array [Number(1), Number(2)]}}}"),
    ("nested_anchors_inside_anchor", "OK Object {\"outer\": Object {\"inner\": Array [String(\"a\"), String(\"b\")], \"leaf\": String(\"z\"), \"again\": Array [String(\"a\"), String(\"b\")]}, \"use_outer\": Object {\"inner\": Array [String(\"a\"), String(\"b\")], \"leaf\": String(\"z\"), \"again\": Array [String(\"a\"), String(\"b\")]}, \"use_inner\": Array [String(\"a\"), String(\"b\")], \"use_leaf\": String(\"z\")}"),
    ("alias_inside_later_anchor", "OK Object {\"a\": Array [Number(1), Number(2)], \"b\": Object {\"first\": Array [Number(1), Number(2)], \"second\": Array [Number(1), Number(2)]}, \"c\": Array [Object {\"first\": Array [Number(1), Number(2)], \"second\": Array [Number(1), Number(2)]}, Array [Number(1), Number(2)]], \"d\": Array [Object {\"first\": Array [Number(1), Number(2)], \"second\": Array [Number(1), Number(2)]}, Array [Number(1), Number(2)]]}"),
    ("redefinition_latest_wins", "OK Array [String(\"one\"), String(\"one\"), Array [String(\"two\")], Array [String(\"two\")], Object {\"three\": Number(3)}, Object {\"three\": Number(3)}]"),
    ("redefinition_inside_anchor_replay", "OK Object {\"first\": Number(1), \"box\": Object {\"inner\": Number(2), \"see\": Number(2)}, \"after\": Number(2), \"box2\": Object {\"inner\": Number(2), \"see\": Number(2)}, \"after2\": Number(2)}"),
    ("anchored_root_scalar", "OK String(\"hello\")"),
    ("anchored_root_seq", "OK Array [Number(1), Number(2), Number(2)]"),
    ("anchor_on_key_and_alias_key", "OK Object {\"key\": String(\"v1\"), \"other\": String(\"key\")}"),
    ("alias_as_map_key", "OK Object {\"a\": String(\"name\"), \"m\": Object {\"name\": String(\"value\"), \"plain\": String(\"name\")}}"),
    ("anchored_empty_scalars", "OK Object {\"e1\": Null, \"e2\": String(\"\"), \"e3\": String(\"\"), \"e4\": Null, \"e5\": Null, \"r1\": Null, \"r2\": String(\"\"), \"r3\": String(\"\"), \"r4\": Null, \"r5\": Null}"),
    ("anchored_empty_scalars_as_strings", "OK {\"e1\": None, \"e2\": Some(\"\"), \"e3\": Some(\"\"), \"e4\": Some(\"null\"), \"e5\": Some(\"~\"), \"r1\": None, \"r2\": Some(\"\"), \"r3\": Some(\"\"), \"r4\": Some(\"null\"), \"r5\": Some(\"~\")}"),
    ("anchored_styles_kept", "OK {\"a\": \"123\", \"b\": \"true\", \"c\": \"lit\\neral\\n\", \"d\": \"fol ded\\n\", \"ra\": \"123\", \"rb\": \"true\", \"rc\": \"lit\\neral\\n\", \"rd\": \"fol ded\\n\"}"),
    ("quoted_number_into_int_via_alias", "OK {\"a\": 12, \"b\": 12, \"c\": 12, \"d\": 12}"),
    ("tagged_anchor_replayed", "OK Object {\"a\": String(\"123\"), \"b\": String(\"123\"), \"e\": Null, \"f\": Null}"),
    ("tagged_float_alias", "OK {\"c\": 7.0, \"d\": 7.0}"),
    ("tagged_anchor_into_typed", "OK {\"a\": \"123\", \"b\": \"123\", \"c\": \"hi\", \"d\": \"hi\"}"),
    ("empty_containers", "OK Object {\"a\": Array [], \"b\": Object {}, \"c\": Array [], \"d\": Object {}, \"e\": Array [Array [], Object {}]}"),
    ("flow_anchors", "OK Array [Number(1), Number(1), Array [String(\"x\"), Number(1)], Array [String(\"x\"), Number(1)], Object {\"k\": String(\"v\"), \"k2\": String(\"v\")}]"),
    ("deep_alias_chain", "OK Object {\"l0\": Array [String(\"x\")], \"l1\": Array [Array [String(\"x\")], Array [String(\"x\")]], \"l2\": Array [Array [Array [String(\"x\")], Array [String(\"x\")]], Array [Array [String(\"x\")], Array [String(\"x\")]]], \"l3\": Array [Array [Array [Array [String(\"x\")], Array [String(\"x\")]], Array [Array [String(\"x\")], Array [String(\"x\")]]], Array [Array [Array [String(\"x\")], Array [String(\"x\")]], Array [Array [String(\"x\")], Array [String(\"x\")]]]], \"l4\": Array [Array [Array [Array [String(\"x\")], Array [String(\"x\")]], Array [Array [String(\"x\")], Array [String(\"x\")]]], Array [Array [Array [String(\"x\")], Array [String(\"x\")]], Array [Array [String(\"x\")], Array [String(\"x\")]]]]}"),
    ("merge_single_and_list", "OK Object {\"base\": Object {\"x\": Number(1), \"y\": Number(2)}, \"extra\": Object {\"z\": Number(3), \"x\": Number(9)}, \"one\": Object {\"y\": Number(20), \"x\": Number(1)}, \"two\": Object {\"z\": Number(3), \"x\": Number(9), \"y\": Number(2)}, \"three\": Object {\"w\": Number(0), \"x\": Number(1), \"y\": Number(2), \"z\": Number(3)}}"),
    ("merge_into_struct", "OK {\"p\": Point { x: 1, y: 2 }, \"q\": Point { x: 1, y: 5 }}"),
    ("unknown_alias", "ERR error: line 2 column 4: alias references unknown anchor\n --> <input>:2:4\n  |\n1 | a: 1\n2 | b: *nope\n  |    ^ alias references unknown anchor"),
    ("alias_before_anchor", "ERR error: line 1 column 4: alias references unknown anchor\n --> <input>:1:4\n  |\n1 | a: *x\n  |    ^ alias references unknown anchor\n2 | b: &x 1\n  |"),
    ("alias_root_unknown", "ERR error: line 1 column 1: alias references unknown anchor\n --> <input>:1:1\n  |\n1 | *x\n  | ^ alias references unknown anchor"),
    ("alias_across_documents", "ERR error: line 4 column 4: alias references unknown anchor\n --> <input>:4:4\n  |\n2 | b: *x\n3 | ---\n4 | c: *x\n  |    ^ alias references unknown anchor"),
    ("anchors_per_document_ok", "OK [Object {\"a\": Number(1), \"b\": Number(1)}, Object {\"a\": Array [Number(2)], \"b\": Array [Number(2)]}, String(\"z\")]"),
    ("self_reference_scalar_target", "ERR error: line 1 column 11: recursive references require weak recursion types\n --> <input>:1:11\n  |\n1 | a: &a [1, *a]\n  |           ^ recursive references require weak recursion types"),
    ("self_reference_nested", "ERR error: line 5 column 7: recursive references require weak recursion types\n --> <input>:5:7\n  |\n3 |   inner:\n4 |     - 1\n5 |     - *t\n  |       ^ recursive references require weak recursion types"),
    ("self_reference_inner_ok_outer_open", "ERR error: line 4 column 10: recursive references require weak recursion types\n --> <input>:4:10\n  |\n2 |   first: &f [1]\n3 |   second: *f\n4 |   third: *t\n  |          ^ recursive references require weak recursion types"),
    ("typed_error_inside_replay", "ERR error: line 1 column 14: invalid i32\n --> <input>:1:14\n  |\n1 | a: &a [1, 2, x]\n  |              ^ invalid i32\n2 | b: [3]\n  |"),
    ("typed_error_inside_replay_at_alias", "ERR error: line 3 column 8: invalid i32\n --> <input>:3:8\n  |\n1 | a: &a [1, 2]\n2 | b: *a\n3 | c: &c [x]\n  |        ^ invalid i32\n4 | d: *c\n  |"),
    ("multi_doc_in_single_mode", "ERR error: line 3 column 1: multiple YAML documents detected; use from_multiple or from_multiple_with_options\n --> <input>:3:1\n  |\n1 | a: &x 1\n2 | ---\n3 | b: *x\n  | ^ multiple YAML documents detected; use from_multiple or from_multiple_with_options"),
    ("doc_end_then_garbage", "OK Object {\"a\": Number(1), \"b\": Number(1)}"),
    ("empty_document", "OK Null"),
    ("only_comment", "OK Null"),
    ("syntax_error_after_anchor", "ERR error: line 2 column 2: illegal placement of ':' indicator\n --> <input>:2:2\n  |\n1 | a: &x [1, 2\n2 | b: *x\n  |  ^ illegal placement of ':' indicator"),
    ("limits_default_bomb_ok", "OK Object {\"a\": Array [Number(1), Number(2), Number(3)], \"b\": Array [Array [Number(1), Number(2), Number(3)], Array [Number(1), Number(2), Number(3)]], \"c\": Array [Array [Array [Number(1), Number(2), Number(3)], Array [Number(1), Number(2), Number(3)]], Array [Array [Number(1), Number(2), Number(3)], Array [Number(1), Number(2), Number(3)]]], \"d\": Array [Array [Array [Array [Number(1), Number(2), Number(3)], Array [Number(1), Number(2), Number(3)]], Array [Array [Number(1), Number(2), Number(3)], Array [Number(1), Number(2), Number(3)]]], Array [Array [Array [Number(1), Number(2), Number(3)], Array [Number(1), Number(2), Number(3)]], Array [Array [Number(1), Number(2), Number(3)], Array [Number(1), Number(2), Number(3)]]]]}"),
    ("limits_total_exact", "ERR error: line 4 column 9: alias replay limit exceeded: total_replayed_events=73 > 72 at line 2, column 14 (defined at line 2, column 7) at line 4, column 9\n --> the value is used here:4:9\n  |\n2 | b: &b [*a, *a]\n3 | c: &c [*b, *b]\n4 | d: [*c, *c]\n  |         ^ alias replay limit exceeded: total_replayed_events=73 > 72 at line 2, column 14 (defined at line 2, column 7) at line 4, column 9\n  | This value comes indirectly from the anchor at line 3 column 7:\n  |\n2 | b: &b [*a, *a]\n3 | c: &c [*b, *b]\n  |       ^ defined here\n4 | d: [*c, *c]\n5 |\n  |\n"),
    ("limits_total_41", "ERR error: line 4 column 5: alias replay limit exceeded: total_replayed_events=42 > 41 at line 1, column 7 (defined at line 2, column 7) at line 4, column 5\n --> the value is used here:4:5\n  |\n2 | b: &b [*a, *a]\n3 | c: &c [*b, *b]\n4 | d: [*c, *c]\n  |     ^ alias replay limit exceeded: total_replayed_events=42 > 41 at line 1, column 7 (defined at line 2, column 7) at line 4, column 5\n  | This value comes indirectly from the anchor at line 3 column 7:\n  |\n2 | b: &b [*a, *a]\n3 | c: &c [*b, *b]\n  |       ^ defined here\n4 | d: [*c, *c]\n5 |\n  |\n"),
    ("limits_total_0", "ERR error: line 1 column 7: alias replay limit exceeded: total_replayed_events=1 > 0\n --> <input>:1:7\n  |\n1 | a: &a 1\n  |       ^ alias replay limit exceeded: total_replayed_events=1 > 0\n2 | b: *a\n  |"),
    ("limits_total_1", "OK Object {\"a\": Number(1), \"b\": Number(1)}"),
    ("limits_depth_0", "ERR error: line 2 column 4: alias replay stack depth exceeded: depth=1 > 0\n --> <input>:2:4\n  |\n1 | a: &a 1\n2 | b: *a\n  |    ^ alias replay stack depth exceeded: depth=1 > 0"),
    ("limits_depth_1_flat", "OK Object {\"a\": Array [Number(1), Number(2), Number(3)], \"b\": Array [Array [Number(1), Number(2), Number(3)], Array [Number(1), Number(2), Number(3)]], \"c\": Array [Array [Array [Number(1), Number(2), Number(3)], Array [Number(1), Number(2), Number(3)]], Array [Array [Number(1), Number(2), Number(3)], Array [Number(1), Number(2), Number(3)]]], \"d\": Array [Array [Array [Array [Number(1), Number(2), Number(3)], Array [Number(1), Number(2), Number(3)]], Array [Array [Number(1), Number(2), Number(3)], Array [Number(1), Number(2), Number(3)]]], Array [Array [Array [Number(1), Number(2), Number(3)], Array [Number(1), Number(2), Number(3)]], Array [Array [Number(1), Number(2), Number(3)], Array [Number(1), Number(2), Number(3)]]]]}"),
    ("limits_depth_2", "OK Object {\"a\": Array [Number(1), Number(2), Number(3)], \"b\": Array [Array [Number(1), Number(2), Number(3)], Array [Number(1), Number(2), Number(3)]], \"c\": Array [Array [Array [Number(1), Number(2), Number(3)], Array [Number(1), Number(2), Number(3)]], Array [Array [Number(1), Number(2), Number(3)], Array [Number(1), Number(2), Number(3)]]], \"d\": Array [Array [Array [Array [Number(1), Number(2), Number(3)], Array [Number(1), Number(2), Number(3)]], Array [Array [Number(1), Number(2), Number(3)], Array [Number(1), Number(2), Number(3)]]], Array [Array [Array [Number(1), Number(2), Number(3)], Array [Number(1), Number(2), Number(3)]], Array [Array [Number(1), Number(2), Number(3)], Array [Number(1), Number(2), Number(3)]]]]}"),
    ("limits_depth_3", "OK Object {\"a\": Array [Number(1), Number(2), Number(3)], \"b\": Array [Array [Number(1), Number(2), Number(3)], Array [Number(1), Number(2), Number(3)]], \"c\": Array [Array [Array [Number(1), Number(2), Number(3)], Array [Number(1), Number(2), Number(3)]], Array [Array [Number(1), Number(2), Number(3)], Array [Number(1), Number(2), Number(3)]]], \"d\": Array [Array [Array [Array [Number(1), Number(2), Number(3)], Array [Number(1), Number(2), Number(3)]], Array [Array [Number(1), Number(2), Number(3)], Array [Number(1), Number(2), Number(3)]]], Array [Array [Array [Number(1), Number(2), Number(3)], Array [Number(1), Number(2), Number(3)]], Array [Array [Number(1), Number(2), Number(3)], Array [Number(1), Number(2), Number(3)]]]]}"),
    ("limits_per_anchor_1", "ERR error: line 2 column 12: alias expansion limit exceeded for anchor id 1: 2 > 1\n --> <input>:2:12\n  |\n1 | a: &a [1, 2, 3]\n2 | b: &b [*a, *a]\n  |            ^ alias expansion limit exceeded for anchor id 1: 2 > 1\n3 | c: &c [*b, *b]\n4 | d: [*c, *c]\n  |"),
    ("limits_per_anchor_2", "OK Object {\"a\": Array [Number(1), Number(2), Number(3)], \"b\": Array [Array [Number(1), Number(2), Number(3)], Array [Number(1), Number(2), Number(3)]], \"c\": Array [Array [Array [Number(1), Number(2), Number(3)], Array [Number(1), Number(2), Number(3)]], Array [Array [Number(1), Number(2), Number(3)], Array [Number(1), Number(2), Number(3)]]], \"d\": Array [Array [Array [Array [Number(1), Number(2), Number(3)], Array [Number(1), Number(2), Number(3)]], Array [Array [Number(1), Number(2), Number(3)], Array [Number(1), Number(2), Number(3)]]], Array [Array [Array [Number(1), Number(2), Number(3)], Array [Number(1), Number(2), Number(3)]], Array [Array [Number(1), Number(2), Number(3)], Array [Number(1), Number(2), Number(3)]]]]}"),
    ("limits_per_anchor_counts_redefinitions_separately", "ERR error: line 5 column 3: alias expansion limit exceeded for anchor id 2: 2 > 1\n --> <input>:5:3\n  |\n3 | - &x 2\n4 | - *x\n5 | - *x\n  |   ^ alias expansion limit exceeded for anchor id 2: 2 > 1"),
    ("limits_reset_between_documents", "ERR error: line 9 column 4: alias expansion limit exceeded for anchor id 3: 2 > 1\n --> <input>:9:4\n  |\n7 | a: &a [1, 2]\n8 | b: *a\n9 | c: *a\n  |    ^ alias expansion limit exceeded for anchor id 3: 2 > 1"),
    ("limits_unknown_alias_vs_per_anchor_zero", "ERR error: line 1 column 4: alias references unknown anchor\n --> <input>:1:4\n  |\n1 | a: *zz\n  |    ^ alias references unknown anchor"),
    ("budget_report_str", "OK Object {\"a\": Array [Number(1), Number(2), Number(3)], \"b\": Array [Array [Number(1), Number(2), Number(3)], Array [Number(1), Number(2), Number(3)]], \"c\": Array [Array [Array [Number(1), Number(2), Number(3)], Array [Number(1), Number(2), Number(3)]], Array [Array [Number(1), Number(2), Number(3)], Array [Number(1), Number(2), Number(3)]]], \"d\": Array [Array [Array [Array [Number(1), Number(2), Number(3)], Array [Number(1), Number(2), Number(3)]], Array [Array [Number(1), Number(2), Number(3)], Array [Number(1), Number(2), Number(3)]]], Array [Array [Array [Number(1), Number(2), Number(3)], Array [Number(1), Number(2), Number(3)]], Array [Array [Number(1), Number(2), Number(3)], Array [Number(1), Number(2), Number(3)]]]]} || Some(BudgetReport { breached: None, events: 113, aliases: 6, anchors: 3, documents: 1, nodes: 76, max_depth: 5, total_scalar_bytes: 49, merge_keys: 0 })"),
    ("budget_report_reader", "OK Object {\"a\": Array [Number(1), Number(2), Number(3)], \"b\": Array [Array [Number(1), Number(2), Number(3)], Array [Number(1), Number(2), Number(3)]], \"c\": Array [Array [Array [Number(1), Number(2), Number(3)], Array [Number(1), Number(2), Number(3)]], Array [Array [Number(1), Number(2), Number(3)], Array [Number(1), Number(2), Number(3)]]], \"d\": Array [Array [Array [Array [Number(1), Number(2), Number(3)], Array [Number(1), Number(2), Number(3)]], Array [Array [Number(1), Number(2), Number(3)], Array [Number(1), Number(2), Number(3)]]], Array [Array [Array [Number(1), Number(2), Number(3)], Array [Number(1), Number(2), Number(3)]], Array [Array [Number(1), Number(2), Number(3)], Array [Number(1), Number(2), Number(3)]]]]} || Some(BudgetReport { breached: None, events: 113, aliases: 6, anchors: 3, documents: 1, nodes: 76, max_depth: 5, total_scalar_bytes: 49, merge_keys: 0 })"),
    ("budget_max_nodes_breached_in_replay", "ERR error: line 3 column 12: budget breached: Nodes { nodes: 31 } at line 1, column 11 (defined at line 1, column 7) at line 3, column 12\n --> the value is used here:3:12\n  |\n1 | a: &a [1, 2, 3]\n2 | b: &b [*a, *a]\n3 | c: &c [*b, *b]\n  |            ^ budget breached: Nodes { nodes: 31 } at line 1, column 11 (defined at line 1, column 7) at line 3, column 12\n4 | d: [*c, *c]\n  |\n  | This value comes indirectly from the anchor at line 2 column 7:\n  |\n1 | a: &a [1, 2, 3]\n2 | b: &b [*a, *a]\n  |       ^ defined here\n3 | c: &c [*b, *b]\n4 | d: [*c, *c]\n  |\n || None"),
    ("budget_max_depth_breached_in_replay", "ERR error: line 3 column 8: budget breached: Depth { depth: 4 } at line 1, column 7\n --> the value is used here:3:8\n  |\n1 | a: &a [1, 2, 3]\n2 | b: &b [*a, *a]\n3 | c: &c [*b, *b]\n  |        ^ budget breached: Depth { depth: 4 } at line 1, column 7\n4 | d: [*c, *c]\n  |\n  | This value comes indirectly from the anchor at line 2 column 7:\n  |\n1 | a: &a [1, 2, 3]\n2 | b: &b [*a, *a]\n  |       ^ defined here\n3 | c: &c [*b, *b]\n4 | d: [*c, *c]\n  |\n || None"),
    ("budget_max_aliases", "ERR error: line 4 column 9: budget breached: Aliases { aliases: 6 }\n --> <input>:4:9\n  |\n2 | b: &b [*a, *a]\n3 | c: &c [*b, *b]\n4 | d: [*c, *c]\n  |         ^ budget breached: Aliases { aliases: 6 } || None"),
    ("budget_max_anchors", "ERR error: line 3 column 7: budget breached: Anchors { anchors: 3 }\n --> <input>:3:7\n  |\n1 | a: &a [1, 2, 3]\n2 | b: &b [*a, *a]\n3 | c: &c [*b, *b]\n  |       ^ budget breached: Anchors { anchors: 3 }\n4 | d: [*c, *c]\n  | || None"),
    ("budget_scalar_bytes_in_replay", "ERR error: line 3 column 4: budget breached: ScalarBytes { total_scalar_bytes: 43 } at line 1, column 8\n --> the value is used here:3:4\n  |\n1 | a: &a [abcdefgh, ijklmnop]\n2 | b: *a\n3 | c: *a\n  |    ^ budget breached: ScalarBytes { total_scalar_bytes: 43 } at line 1, column 8\n  | This value comes indirectly from the anchor at line 1 column 7:\n  |\n1 | a: &a [abcdefgh, ijklmnop]\n  |       ^ defined here\n2 | b: *a\n3 | c: *a\n  |\n || None"),
    ("budget_merge_keys", "ERR error: line 5 column 4: budget breached: MergeKeys { merge_keys: 3 } at line 3, column 3\n --> the value is used here:5:4\n  |\n3 |   <<: *b\n4 | n: *m\n5 | o: *m\n  |    ^ budget breached: MergeKeys { merge_keys: 3 } at line 3, column 3\n  | This value comes indirectly from the anchor at line 3 column 3:\n  |\n3 |   <<: *b\n  |   ^ defined here\n4 | n: *m\n5 | o: *m\n  |\n || None"),
    ("no_budget_at_all", "OK Object {\"a\": Array [Number(1), Number(2), Number(3)], \"b\": Array [Array [Number(1), Number(2), Number(3)], Array [Number(1), Number(2), Number(3)]], \"c\": Array [Array [Array [Number(1), Number(2), Number(3)], Array [Number(1), Number(2), Number(3)]], Array [Array [Number(1), Number(2), Number(3)], Array [Number(1), Number(2), Number(3)]]], \"d\": Array [Array [Array [Array [Number(1), Number(2), Number(3)], Array [Number(1), Number(2), Number(3)]], Array [Array [Number(1), Number(2), Number(3)], Array [Number(1), Number(2), Number(3)]]], Array [Array [Array [Number(1), Number(2), Number(3)], Array [Number(1), Number(2), Number(3)]], Array [Array [Number(1), Number(2), Number(3)], Array [Number(1), Number(2), Number(3)]]]]}"),
    ("reader_same_as_str", "OK Object {\"a\": Object {\"k\": Array [Number(1), Number(2)]}, \"b\": Object {\"k\": Array [Number(1), Number(2)]}, \"c\": Number(5), \"d\": Number(5)}"),
    ("reader_unknown_alias", "ERR error: line 2 column 4: alias references unknown anchor\n --> <input>:2:4\n  |\n1 | a: 1\n2 | b: *nope\n  |    ^ alias references unknown anchor"),
    ("read_iterator_recovers_and_forgets_anchors", "OK Object {\"a\": Number(1), \"b\": Number(1)} ## ERR alias references unknown anchor at line 4, column 4 ## OK Object {\"e\": Array [Number(3)], \"f\": Array [Number(3)]} ## ERR recursive references require weak recursion types at line 10, column 11 ## OK Object {\"h\": String(\"k\"), \"i\": String(\"k\")}"),
    ("read_iterator_limits_reset", "ERR alias replay limit exceeded: total_replayed_events=4 > 3 at line 1, column 12 (defined at line 1, column 7) at line 2, column 4 ## ERR alias references unknown anchor at line 4, column 4 ## ERR alias replay limit exceeded: total_replayed_events=4 > 3 at line 6, column 12 (defined at line 6, column 7) at line 7, column 4"),
    ("spanned_locations", "OK SpannedDoc { base: Spanned { value: 7, referenced: Location { line: 1, column: 10, span: Span { offset: 9, len: 1, byte_info: (9, 1) } }, defined: Location { line: 1, column: 10, span: Span { offset: 9, len: 1, byte_info: (9, 1) } } }, copy: Spanned { value: 7, referenced: Location { line: 2, column: 7, span: Span { offset: 17, len: 2, byte_info: (17, 2) } }, defined: Location { line: 1, column: 10, span: Span { offset: 9, len: 1, byte_info: (9, 1) } } }, list: [Spanned { value: \"first\", referenced: Location { line: 4, column: 8, span: Span { offset: 33, len: 5, byte_info: (33, 5) } }, defined: Location { line: 4, column: 8, span: Span { offset: 33, len: 5, byte_info: (33, 5) } } }, Spanned { value: \"first\", referenced: Location { line: 5, column: 5, span: Span { offset: 43, len: 2, byte_info: (43, 2) } }, defined: Location { line: 4, column: 8, span: Span { offset: 33, len: 5, byte_info: (33, 5) } } }, Spanned { value: \"third\", referenced: Location { line: 6, column: 5, span: Span { offset: 50, len: 5, byte_info: (50, 5) } }, defined: Location { line: 6, column: 5, span: Span { offset: 50, len: 5, byte_info: (50, 5) } } }, Spanned { value: \"first\", referenced: Location { line: 7, column: 5, span: Span { offset: 60, len: 2, byte_info: (60, 2) } }, defined: Location { line: 4, column: 8, span: Span { offset: 33, len: 5, byte_info: (33, 5) } } }], again: Spanned { value: [1, 7, 3], referenced: Location { line: 8, column: 11, span: Span { offset: 73, len: 1, byte_info: (73, 1) } }, defined: Location { line: 8, column: 11, span: Span { offset: 73, len: 1, byte_info: (73, 1) } } } }"),
    ("spanned_alias_of_seq", "OK {\"a\": Spanned { value: [Spanned { value: 1, referenced: Location { line: 1, column: 8, span: Span { offset: 7, len: 1, byte_info: (7, 1) } }, defined: Location { line: 1, column: 8, span: Span { offset: 7, len: 1, byte_info: (7, 1) } } }, Spanned { value: 2, referenced: Location { line: 1, column: 11, span: Span { offset: 10, len: 1, byte_info: (10, 1) } }, defined: Location { line: 1, column: 11, span: Span { offset: 10, len: 1, byte_info: (10, 1) } } }], referenced: Location { line: 1, column: 7, span: Span { offset: 6, len: 1, byte_info: (6, 1) } }, defined: Location { line: 1, column: 7, span: Span { offset: 6, len: 1, byte_info: (6, 1) } } }, \"b\": Spanned { value: [Spanned { value: 1, referenced: Location { line: 2, column: 4, span: Span { offset: 16, len: 2, byte_info: (16, 2) } }, defined: Location { line: 1, column: 8, span: Span { offset: 7, len: 1, byte_info: (7, 1) } } }, Spanned { value: 2, referenced: Location { line: 2, column: 4, span: Span { offset: 16, len: 2, byte_info: (16, 2) } }, defined: Location { line: 1, column: 11, span: Span { offset: 10, len: 1, byte_info: (10, 1) } } }], referenced: Location { line: 2, column: 4, span: Span { offset: 16, len: 2, byte_info: (16, 2) } }, defined: Location { line: 1, column: 7, span: Span { offset: 6, len: 1, byte_info: (6, 1) } } }, \"c\": Spanned { value: [Spanned { value: 1, referenced: Location { line: 3, column: 5, span: Span { offset: 23, len: 2, byte_info: (23, 2) } }, defined: Location { line: 1, column: 8, span: Span { offset: 7, len: 1, byte_info: (7, 1) } } }, Spanned { value: 2, referenced: Location { line: 3, column: 5, span: Span { offset: 23, len: 2, byte_info: (23, 2) } }, defined: Location { line: 1, column: 11, span: Span { offset: 10, len: 1, byte_info: (10, 1) } } }], referenced: Location { line: 3, column: 5, span: Span { offset: 23, len: 2, byte_info: (23, 2) } }, defined: Location { line: 1, column: 7, span: Span { offset: 6, len: 1, byte_info: (6, 1) } } }}"),
    ("spanned_nested_alias", "OK {\"a\": [Spanned { value: \"x\", referenced: Location { line: 1, column: 8, span: Span { offset: 7, len: 1, byte_info: (7, 1) } }, defined: Location { line: 1, column: 8, span: Span { offset: 7, len: 1, byte_info: (7, 1) } } }], \"b\": [Spanned { value: \"x\", referenced: Location { line: 2, column: 8, span: Span { offset: 17, len: 2, byte_info: (17, 2) } }, defined: Location { line: 1, column: 8, span: Span { offset: 7, len: 1, byte_info: (7, 1) } } }, Spanned { value: \"y\", referenced: Location { line: 2, column: 12, span: Span { offset: 21, len: 1, byte_info: (21, 1) } }, defined: Location { line: 2, column: 12, span: Span { offset: 21, len: 1, byte_info: (21, 1) } } }], \"c\": [Spanned { value: \"x\", referenced: Location { line: 3, column: 4, span: Span { offset: 27, len: 2, byte_info: (27, 2) } }, defined: Location { line: 1, column: 8, span: Span { offset: 7, len: 1, byte_info: (7, 1) } } }, Spanned { value: \"y\", referenced: Location { line: 3, column: 4, span: Span { offset: 27, len: 2, byte_info: (27, 2) } }, defined: Location { line: 2, column: 12, span: Span { offset: 21, len: 1, byte_info: (21, 1) } } }]}"),
    ("rc_anchor_sharing", "OK a=Point { x: 1, y: 2 } b=Point { x: 1, y: 2 } c=Point { x: 1, y: 2 } ab=true ac=false yaml=\"a: &a1\\n  x: 1\\n  \\\"y\\\": 2\\nb: *a1\\nc: &a2\\n  x: 1\\n  \\\"y\\\": 2\\n\""),
    ("rc_weak_anchor", "OK strong=Point { x: 3, y: 4 } weak=Some((3, 4))"),
    ("rc_weak_anchor_unknown", "ERR error: line 2 column 7: alias references unknown anchor\n --> <input>:2:7\n  |\n1 | strong: {x: 3, y: 4}\n2 | weak: *p\n  |       ^ alias references unknown anchor"),
    ("recursive_ring", "OK name=loop next=Some(\"loop\") yaml=\"head: &a1\\n  name: loop\\n  next: *a1\\n\""),
    ("recursive_alias_into_plain_type", "ERR error: line 3 column 9: recursive references require weak recursion types\n --> <input>:3:9\n  |\n1 | head: &n\n2 |   name: loop\n3 |   next: *n\n  |         ^ recursive references require weak recursion types"),
    ("borrowed_str_via_alias", "OK Borrowed { a: \"hello\", b: \"hello\" }"),
    ("bom_prefixed_input", "OK Object {\"a\": Number(1), \"b\": Number(1)}"),
    ("reemit_expanded", "a:\n  - 1\n  - 2\n  - 3\nb:\n  - - 1\n    - 2\n    - 3\n  - - 1\n    - 2\n    - 3\nc:\n  - - - 1\n      - 2\n      - 3\n    - - 1\n      - 2\n      - 3\n  - - - 1\n      - 2\n      - 3\n    - - 1\n      - 2\n      - 3\nd:\n  - - - - 1\n        - 2\n        - 3\n      - - 1\n        - 2\n        - 3\n    - - - 1\n        - 2\n        - 3\n      - - 1\n        - 2\n        - 3\n  - - - - 1\n        - 2\n        - 3\n      - - 1\n        - 2\n        - 3\n    - - - 1\n        - 2\n        - 3\n      - - 1\n        - 2\n        - 3\n"),
];
// EXPECTED-END
